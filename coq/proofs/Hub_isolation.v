(* Isolation of tenants (C03) over steps and histories.

   The room-session map (h_rs1 / h_rs2, kick_room_session, resolve_rs) is shared by all
   backends (isolation_refuted_kick / isolation_refuted_api in Hub_refuted.v).  Here: every op
   whose effects do not go through a room-session id held by a session of another backend
   (rs_local) touches only its own backend:
     (a) sessions of other backends are unchanged (the whole record: room, permissions, pending
         queue, seen list, media tables ...), none appears, none disappears;
     (b) every message goes to the op's own connection or to a connection of a session of the
         op's backend;
     (c) rooms of other backends are unchanged;
   and every publication the op queues is a publication of its backend, whose delivery again
   touches that backend only.  Media: creation requests (OMedia) change only the requester's own
   session and answer only to it; that an internal client may subscribe to a stream of another
   backend (same_call exempts holders of the server-wide secret) concerns the ToMcu outputs, which
   are outside this statement.

   Organisation: shr (sessions and member lists only shrink; keeps the tenancy invariant Ten),
   Fr (the frame of one backend), both reflexive and transitive, one lemma per model function. *)
From Coq Require Import List NArith ZArith Bool Lia.
From Verif Require Import model.Hub proofs.Hub_basics proofs.Hub_easy proofs.Hub_route proofs.Hub_wf proofs.Hub_corollaries proofs.Hub_pending.
Import ListNotations.
Open Scope N_scope.

(* ------------------------------------------------------------------ small projections *)
Lemma gp h sid s x : get_sess (put_sess h sid s) x = if N.eqb x sid then Some s else get_sess h x.
Proof. unfold get_sess, put_sess. hsimpl. apply aget_aset. Qed.
Lemma gp_same h sid s : get_sess (put_sess h sid s) sid = Some s.
Proof. rewrite gp, N.eqb_refl. reflexivity. Qed.
Lemma gp_other h sid s x : x <> sid -> get_sess (put_sess h sid s) x = get_sess h x.
Proof. intros Hne. rewrite gp. destruct (N.eqb_spec x sid); [contradiction|reflexivity]. Qed.
Lemma get_ext h h' x : h_sessions h' = h_sessions h -> get_sess h' x = get_sess h x.
Proof. intros E. unfold get_sess. now rewrite E. Qed.
Lemma room_ext h h' k : h_rooms h' = h_rooms h -> room_of h' k = room_of h k.
Proof. intros E. unfold room_of. now rewrite E. Qed.

Lemma snd_eq {A B} (p : A * B) a b : p = (a, b) -> b = snd p.
Proof. intros ->. reflexivity. Qed.

(* session ids occur once in the session table *)
Definition keys_ok (h : hub) : Prop := NoDup (map fst (h_sessions h)).
Lemma in_keys_aset {V} (l : alist V) k v k' : In k' (map fst (aset l k v)) -> k' = k \/ In k' (map fst l).
Proof.
  induction l as [|[k0 v0] r IH]; cbn; [intros [E|[]]; auto|].
  destruct (N.eqb_spec k k0) as [->|Hne]; cbn; [tauto|]. intros [E|H]; [auto|]. destruct (IH H); auto.
Qed.
Lemma nodup_aset {V} (l : alist V) k v : NoDup (map fst l) -> NoDup (map fst (aset l k v)).
Proof.
  induction l as [|[k0 v0] r IH]; cbn; intros H.
  - constructor; [intros []|constructor].
  - inversion H as [|a b Hn Hr]; subst. destruct (N.eqb_spec k k0) as [->|Hne]; cbn.
    + now constructor.
    + constructor; [|now apply IH]. intros Hin. apply in_keys_aset in Hin as [E|Hin]; [congruence|contradiction].
Qed.
Lemma in_keys_adel' {V} (l : alist V) k k' : In k' (map fst (adel l k)) -> In k' (map fst l).
Proof.
  induction l as [|[k0 v0] r IH]; cbn; [tauto|]. destruct (N.eqb k k0); cbn; [auto|]. intros [E|H]; auto.
Qed.
Lemma nodup_adel {V} (l : alist V) k : NoDup (map fst l) -> NoDup (map fst (adel l k)).
Proof.
  induction l as [|[k0 v0] r IH]; cbn; intros H; [constructor|].
  inversion H as [|a b Hn Hr]; subst. destruct (N.eqb k k0); cbn; [now apply IH|].
  constructor; [|now apply IH]. intros Hin. apply in_keys_adel' in Hin. contradiction.
Qed.
Lemma aget_in_nodup {V} (l : alist V) k v : NoDup (map fst l) -> In (k, v) l -> aget l k = Some v.
Proof.
  induction l as [|[k0 v0] r IH]; cbn; intros H Hin; [contradiction|].
  inversion H as [|a b Hn Hr]; subst. destruct Hin as [E|Hin].
  - injection E as -> ->. now rewrite N.eqb_refl.
  - destruct (N.eqb_spec k k0) as [->|Hne]; [|now apply IH]. exfalso. apply Hn. apply in_map_iff. exists (k0, v). auto.
Qed.

(* ------------------------------------------------------------------ shr: nothing appears *)
Record shr (h h' : hub) : Prop := {
  sh_sess : forall sid s', get_sess h' sid = Some s' ->
            exists s, get_sess h sid = Some s /\ s_backend s' = s_backend s /\ s_kind s' = s_kind s /\
                      (s_room s' = s_room s \/ s_room s' = None);
  sh_room : forall k r', room_of h' k = Some r' -> exists r, room_of h k = Some r /\ incl (r_members r') (r_members r);
  sh_next : h_nextsid h' = h_nextsid h;
  sh_keys : keys_ok h -> keys_ok h';
}.

Lemma shr_refl h : shr h h.
Proof.
  constructor; [| |reflexivity|auto].
  - intros sid s' Hs. exists s'. auto.
  - intros k r' Hr. exists r'. split; [exact Hr|apply incl_refl].
Qed.
Lemma shr_trans h1 h2 h3 : shr h1 h2 -> shr h2 h3 -> shr h1 h3.
Proof.
  intros [S1 R1 N1 K1] [S2 R2 N2 K2]. constructor; [| |congruence|auto].
  - intros sid s3 H3. destruct (S2 sid s3 H3) as (s2 & H2 & Hb2 & Hk2 & Hr2).
    destruct (S1 sid s2 H2) as (s1 & H1 & Hb1 & Hk1 & Hr1). exists s1.
    split; [exact H1|]. split; [congruence|]. split; [congruence|].
    destruct Hr2 as [Hr2|Hr2]; [|now right]. destruct Hr1 as [Hr1|Hr1]; [left|right]; congruence.
  - intros k r3 H3. destruct (R2 k r3 H3) as (r2 & H2 & I2). destruct (R1 k r2 H2) as (r1 & H1 & I1).
    exists r1. split; [exact H1|]. eapply incl_tran; eauto.
Qed.

Lemma shr_eq h h' : h_sessions h' = h_sessions h -> h_rooms h' = h_rooms h -> h_nextsid h' = h_nextsid h -> shr h h'.
Proof.
  intros Es Er En. constructor; [| |exact En|unfold keys_ok; now rewrite Es].
  - intros sid s' Hs. rewrite (get_ext h h' sid Es) in Hs. exists s'. auto.
  - intros k r' Hr. rewrite (room_ext h h' k Er) in Hr. exists r'. split; [exact Hr|apply incl_refl].
Qed.
Lemma shr_then_eq h h1 h2 : shr h h1 -> h_sessions h2 = h_sessions h1 -> h_rooms h2 = h_rooms h1 ->
  h_nextsid h2 = h_nextsid h1 -> shr h h2.
Proof. intros R Es Er En. eapply shr_trans; [exact R|now apply shr_eq]. Qed.

(* a session is updated: same backend and kind, same room or none *)
Definition keeps (s s' : session) : Prop :=
  s_backend s' = s_backend s /\ s_kind s' = s_kind s /\ (s_room s' = s_room s \/ s_room s' = None).
Lemma keeps_same s s' : s_backend s' = s_backend s -> s_kind s' = s_kind s -> s_room s' = s_room s -> keeps s s'.
Proof. intros; repeat split; auto. Qed.

Lemma shr_aset h h' x s s' :
  h_sessions h' = aset (h_sessions h) x s' -> h_rooms h' = h_rooms h -> h_nextsid h' = h_nextsid h ->
  get_sess h x = Some s -> keeps s s' -> shr h h'.
Proof.
  intros Es Er En Hx (Kb & Kk & Kr). constructor; [| |exact En|unfold keys_ok; rewrite Es; apply nodup_aset].
  - intros sid t Ht. unfold get_sess in *. rewrite Es, aget_aset in Ht.
    destruct (N.eqb_spec sid x) as [->|Hne].
    + injection Ht as <-. exists s. auto.
    + exists t. auto.
  - intros k r' Hr. rewrite (room_ext h h' k Er) in Hr. exists r'. split; [exact Hr|apply incl_refl].
Qed.
Lemma shr_put h x s s' : get_sess h x = Some s -> keeps s s' -> shr h (put_sess h x s').
Proof. intros Hx K. apply (shr_aset h (put_sess h x s') x s s'); auto. Qed.
Lemma shr_adel h h' x :
  h_sessions h' = adel (h_sessions h) x -> h_rooms h' = h_rooms h -> h_nextsid h' = h_nextsid h -> shr h h'.
Proof.
  intros Es Er En. constructor; [| |exact En|unfold keys_ok; rewrite Es; apply nodup_adel].
  - intros sid t Ht. unfold get_sess in *. rewrite Es, aget_adel in Ht.
    destruct (N.eqb sid x); [discriminate|]. exists t. auto.
  - intros k r' Hr. rewrite (room_ext h h' k Er) in Hr. exists r'. split; [exact Hr|apply incl_refl].
Qed.
(* the room table changes: every room is an old room with fewer members *)
Lemma shr_rooms h v :
  (forall k r', pget v k = Some r' -> exists r, room_of h k = Some r /\ incl (r_members r') (r_members r)) ->
  shr h (set_rooms h v).
Proof.
  intros Hv. constructor; [| |reflexivity|auto].
  - intros sid s' Hs. exists s'. auto.
  - intros k r' Hr. rewrite room_of_set_rooms in Hr. now apply Hv.
Qed.

Lemma shr_fold_sessions h l f :
  (forall hh x, shr hh (fst (f hh x))) -> shr h (fst (fold_sessions h l f)).
Proof.
  intros Hf. apply (wf_fold_sessions (fun hh => shr h hh)); [apply shr_refl|].
  intros hh x R. eapply shr_trans; [exact R|apply Hf].
Qed.
Lemma shr_fold_left_hub {A} (f : hub -> A -> hub) l h :
  (forall hh x, shr hh (f hh x)) -> shr h (fold_left f l h).
Proof.
  intros Hf. apply (wf_fold_left_hub (fun hh => shr h hh)); [apply shr_refl|].
  intros hh x R. eapply shr_trans; [exact R|apply Hf].
Qed.

Lemma rs_set_rooms h sid rs : h_rooms (rs_set h sid rs) = h_rooms h.
Proof.
  unfold rs_set. destruct (N.eqb rs 0).
  - destruct (aget (h_rs1 h) sid); reflexivity.
  - destruct (aget (h_rs1 h) sid) as [prev|]; [destruct (N.eqb prev rs)|]; reflexivity.
Qed.
Lemma rs_set_bus h sid rs : h_bus (rs_set h sid rs) = h_bus h.
Proof.
  unfold rs_set. destruct (N.eqb rs 0).
  - destruct (aget (h_rs1 h) sid); reflexivity.
  - destruct (aget (h_rs1 h) sid) as [prev|]; [destruct (N.eqb prev rs)|]; reflexivity.
Qed.
Lemma shr_rs_set h x rs : shr h (rs_set h x rs).
Proof. apply shr_eq; [apply rs_set_sessions|apply rs_set_rooms|apply rs_set_nextsid]. Qed.
Lemma shr_rs_del h x : shr h (rs_del h x).
Proof. apply shr_rs_set. Qed.
Lemma shr_publish h subj m : shr h (publish h subj m).
Proof. apply shr_eq; reflexivity. Qed.

Lemma incl_nrem x l : incl (nrem x l) l.
Proof. intros y Hy. apply nmem_In in Hy. rewrite nmem_nrem in Hy. apply andb_prop in Hy as [_ Hy]. now apply nmem_In. Qed.

Lemma shr_remove_room_if_empty h k : shr h (remove_room_if_empty h k).
Proof.
  unfold remove_room_if_empty. destruct (room_of h k) as [r|]; [|apply shr_refl].
  destruct (r_members r); [|apply shr_refl]. apply shr_rooms. intros k' r' Hr.
  rewrite pget_pdel in Hr. destruct (pair_eqb k' k); [discriminate|]. exists r'. split; [exact Hr|apply incl_refl].
Qed.

Lemma shr_room_remove h k x : shr h (room_remove h k x).
Proof.
  unfold room_remove. destruct (room_of h k) as [r|] eqn:Hr; [|apply shr_refl].
  destruct (nmem x (r_members r)); [|apply shr_refl].
  eapply shr_trans; [|apply shr_publish]. eapply shr_trans; [|apply shr_remove_room_if_empty].
  apply shr_rooms. intros k' r' Hr'. rewrite pget_pset in Hr'. destruct (pair_eqb_spec k' k) as [->|Hne].
  - injection Hr' as <-. exists r. split; [exact Hr|]. cbn. apply incl_nrem.
  - exists r'. split; [exact Hr'|apply incl_refl].
Qed.

Lemma shr_set_incall h k x on : shr h (set_incall h k x on).
Proof.
  unfold set_incall. destruct (room_of h k) as [r|] eqn:Hr; [|apply shr_refl].
  destruct (on && negb (nmem x (r_members r))); [apply shr_refl|].
  apply shr_rooms. intros k' r' Hr'. rewrite pget_pset in Hr'. destruct (pair_eqb_spec k' k) as [->|Hne].
  - injection Hr' as <-. exists r. split; [exact Hr|]. cbn. apply incl_refl.
  - exists r'. split; [exact Hr'|apply incl_refl].
Qed.

Lemma shr_close_tokens h toks : shr h (fst (close_tokens h toks)).
Proof. unfold close_tokens. cbn [fst]. apply shr_eq; reflexivity. Qed.

Lemma shr_release_mcu h x : shr h (fst (release_mcu h x)).
Proof.
  unfold release_mcu. destruct (get_sess h x) as [s|] eqn:Hs; [|apply shr_refl].
  eapply shr_trans; [|apply shr_close_tokens]. apply shr_put with s; [exact Hs|]. now apply keeps_same.
Qed.
Lemma shr_revoke h x : shr h (fst (revoke h x)).
Proof.
  unfold revoke. destruct (get_sess h x) as [s|] eqn:Hs; [|apply shr_refl].
  eapply shr_trans; [|apply shr_close_tokens]. apply shr_put with s; [exact Hs|]. now apply keeps_same.
Qed.
Lemma shr_leave_call h x : shr h (fst (leave_call h x)).
Proof.
  unfold leave_call. destruct (get_sess h x) as [s|]; [|apply shr_refl].
  destruct (s_kind s); destruct (s_room s); try apply shr_refl; apply shr_release_mcu.
Qed.

Lemma shr_leave_room h x notify : shr h (fst (leave_room h x notify)).
Proof.
  unfold leave_room. destruct (get_sess h x) as [s|] eqn:Hs; [|apply shr_refl].
  destruct (s_room s) as [k|]; [|apply shr_refl].
  assert (Hs1 : get_sess (rs_del h x) x = Some s) by (unfold get_sess; now rewrite rs_del_sessions).
  destruct (is_virtual (s_kind s)).
  - cbn [fst]. eapply shr_trans; [apply (shr_rs_del h x)|].
    eapply shr_trans; [|apply shr_room_remove]. apply shr_put with s; [exact Hs1|]. repeat split; auto.
  - match goal with |- context [release_mcu ?hh x] => destruct (release_mcu hh x) as [h3 o2] eqn:Hr end. cbn [fst].
    eapply shr_trans; [apply (shr_rs_del h x)|].
    eapply shr_trans; [|apply shr_room_remove].
    eapply shr_trans; [|rewrite (fst_eq _ _ _ Hr); apply shr_release_mcu].
    apply shr_put with s; [exact Hs1|]. repeat split; auto.
Qed.

Lemma drop_vt_rooms h kd x : h_rooms (drop_vt h kd x) = h_rooms h.
Proof. unfold drop_vt. destruct kd as [| |p v]; try reflexivity. destruct (pget (h_vtable h) (p, v)) as [y|]; [destruct (N.eqb y x)|]; reflexivity. Qed.
Lemma drop_vt_bus h kd x : h_bus (drop_vt h kd x) = h_bus h.
Proof. unfold drop_vt. destruct kd as [| |p v]; try reflexivity. destruct (pget (h_vtable h) (p, v)) as [y|]; [destruct (N.eqb y x)|]; reflexivity. Qed.
Lemma drop_vt_sessions h kd x : h_sessions (drop_vt h kd x) = h_sessions h.
Proof. unfold drop_vt. destruct kd as [| |p v]; try reflexivity. destruct (pget (h_vtable h) (p, v)) as [y|]; [destruct (N.eqb y x)|]; reflexivity. Qed.
Lemma detach_conn_rooms h oc : h_rooms (detach_conn h oc) = h_rooms h.
Proof. unfold detach_conn. destruct oc as [c|]; [|reflexivity]. destruct (aget (h_conns h) c); reflexivity. Qed.
Lemma detach_conn_bus h oc : h_bus (detach_conn h oc) = h_bus h.
Proof. unfold detach_conn. destruct oc as [c|]; [|reflexivity]. destruct (aget (h_conns h) c); reflexivity. Qed.
Lemma detach_conn_sessions h oc : h_sessions (detach_conn h oc) = h_sessions h.
Proof. unfold detach_conn. destruct oc as [c|]; [|reflexivity]. destruct (aget (h_conns h) c); reflexivity. Qed.

(* the state close_one leaves, named *)
Definition after_close (h2a : hub) (s : session) (x : N) : hub :=
  drop_vt (detach_conn (scrub (set_mcu h2a (h_mcutok h2a)
     (filter (fun e => negb (N.eqb (mp_owner (snd e)) x)) (h_mcupending h2a)) (h_mcuopen h2a)) x) (s_conn s)) (s_kind s) x.
Lemma after_close_sessions h2a s x : h_sessions (after_close h2a s x) = adel (h_sessions h2a) x.
Proof. unfold after_close. rewrite drop_vt_sessions, detach_conn_sessions. reflexivity. Qed.
Lemma after_close_rooms h2a s x : h_rooms (after_close h2a s x) = h_rooms h2a.
Proof. unfold after_close. rewrite drop_vt_rooms, detach_conn_rooms. reflexivity. Qed.
Lemma after_close_bus h2a s x : h_bus (after_close h2a s x) = h_bus h2a.
Proof. unfold after_close. rewrite drop_vt_bus, detach_conn_bus. reflexivity. Qed.
Lemma after_close_nextsid h2a s x : h_nextsid (after_close h2a s x) = h_nextsid h2a.
Proof. unfold after_close. rewrite drop_vt_nextsid, detach_conn_nextsid. reflexivity. Qed.

Lemma close_one_eq h x s : get_sess h x = Some s ->
  fst (close_one h x) = after_close (fst (release_mcu (fst (leave_room h x true)) x)) s x.
Proof.
  intros Hs. unfold close_one. rewrite Hs.
  destruct (leave_room h x true) as [h1 o1]. cbn [fst]. destruct (release_mcu h1 x) as [h2a o2a]. cbn [fst].
  unfold after_close. destruct (s_kind s); reflexivity.
Qed.

Lemma shr_close_one h x : shr h (fst (close_one h x)).
Proof.
  destruct (get_sess h x) as [s|] eqn:Hs; [|rewrite (close_one_dead h x Hs); apply shr_refl].
  rewrite (close_one_eq h x s Hs).
  eapply shr_trans; [apply (shr_leave_room h x true)|]. eapply shr_trans; [apply shr_release_mcu|].
  apply shr_adel with x; [apply after_close_sessions|apply after_close_rooms|apply after_close_nextsid].
Qed.

Lemma shr_close_session h x : shr h (fst (close_session h x)).
Proof.
  unfold close_session. destruct (close_one h x) as [h1 o1] eqn:Hc.
  apply (fold_acc_inv (fun hh => shr h hh) close_one).
  - intros hh k R. eapply shr_trans; [exact R|apply shr_close_one].
  - cbn [fst]. rewrite (fst_eq _ _ _ Hc). apply shr_close_one.
Qed.

Lemma shr_close_conn h c : shr h (fst (close_conn h c)).
Proof.
  unfold close_conn. destruct (aget (h_conns h) c) as [cn|]; [|apply shr_refl].
  destruct (c_sess cn) as [x|]; [|cbn [fst]; apply shr_eq; reflexivity].
  set (h1 := set_conns h (adel (h_conns h) c)).
  destruct (close_session (match get_sess h1 x with Some s => put_sess h1 x (sess_conn s None) | None => h1 end) x) as [h3 outs] eqn:Hcl.
  cbn [fst]. rewrite (fst_eq _ _ _ Hcl). eapply shr_trans; [|apply shr_close_session].
  destruct (get_sess h1 x) as [s|] eqn:Hs; [|apply shr_eq; reflexivity].
  eapply shr_trans; [apply (shr_eq h h1); reflexivity|]. apply shr_put with s; [exact Hs|]. now apply keeps_same.
Qed.

Lemma shr_deliver_to_session h x m : shr h (fst (deliver_to_session h x m)).
Proof.
  unfold deliver_to_session. destruct (get_sess h x) as [s|] eqn:Hs; [|apply shr_refl].
  match goal with |- context [let '(m', s1) := ?X in _] => destruct X as [m' s1] eqn:HX end.
  assert (K : keeps s s1).
  { destruct m; try (injection HX as <- <-; now apply keeps_same).
    destruct (filter_seen (s_seen s) l) as [keep seen']. injection HX as <- <-. now apply keeps_same. }
  destruct m' as [mm|]; cbn [fst].
  - destruct (s_conn s1) as [c|]; cbn [fst]; apply shr_put with s; auto.
  - apply shr_put with s; auto.
Qed.

Lemma shr_send_session h x m : shr h (fst (send_session h x m)).
Proof.
  unfold send_session.
  match goal with |- context [deliver_to_session h ?t m] => set (target := t) end.
  destruct (deliver_to_session h target m) as [h1 outs] eqn:Hd. pose proof (fst_eq _ _ _ Hd) as E1.
  assert (R1 : shr h h1) by (rewrite E1; apply shr_deliver_to_session).
  destruct outs as [|[c mm| | |] [|o2 outs2]]; cbn [fst]; try exact R1.
  destruct (is_closing h1 c mm); [|exact R1].
  destruct (close_conn h1 c) as [h2 outs2] eqn:Hc. cbn [fst]. rewrite (fst_eq _ _ _ Hc).
  eapply shr_trans; [exact R1|apply shr_close_conn].
Qed.

Lemma shr_send_conn h c m : shr h (fst (send_conn h c m)).
Proof.
  unfold send_conn. destruct (aget (h_conns h) c); [|apply shr_refl].
  destruct (is_closing h c m); [|apply shr_refl].
  destruct (close_conn h c) as [h2 outs2] eqn:Hc. cbn [fst]. rewrite (fst_eq _ _ _ Hc). apply shr_close_conn.
Qed.

Lemma shr_kick h rs : shr h (fst (kick_room_session h rs)).
Proof.
  unfold kick_room_session. destruct (aget (h_rs2 h) rs) as [x|]; [|apply shr_refl].
  destruct (get_sess h x) as [s'|]; [|cbn [fst]; apply shr_publish].
  destruct (leave_room h x false) as [h1 o1] eqn:Hl. pose proof (fst_eq _ _ _ Hl) as E1.
  assert (R1 : shr h h1) by (rewrite E1; apply shr_leave_room).
  match goal with |- context [let '(h2, outs2) := ?X in _] => destruct X as [h2 o2] eqn:H2 end.
  assert (R2 : shr h h2).
  { destruct (s_kind s') as [| |p v]; destruct (s_conn s') as [c'|];
      try (injection H2 as <- <-; exact R1); rewrite (fst_eq _ _ _ H2);
      (eapply shr_trans; [exact R1|apply shr_send_conn]). }
  destruct (close_session h2 x) as [h3 o3] eqn:H3. cbn [fst]. rewrite (fst_eq _ _ _ H3).
  eapply shr_trans; [exact R2|apply shr_close_session].
Qed.

Lemma shr_do_message h x s kindn to tag cb : shr h (fst (do_message h x s kindn to tag cb)).
Proof.
  unfold do_message.
  destruct to as [i|u| |].
  - destruct i as [n|n|k|n]; try (cbn [fst]; apply shr_publish).
    destruct (get_sess h n) as [t|]; [|cbn [fst]; apply shr_publish].
    destruct (cb && negb (N.eqb (s_backend t) (s_backend s))); [apply shr_refl|].
    destruct (N.eqb n x); [apply shr_refl|].
    destruct (s_kind t); apply shr_send_session.
  - destruct (N.eqb u 0); [apply shr_refl|]. destruct (N.eqb u (sess_userid h x s)); [apply shr_refl|].
    cbn [fst]. apply shr_publish.
  - destruct (s_room s); [|apply shr_refl]. cbn [fst]. apply shr_publish.
  - destruct (s_room s); [|apply shr_refl]. cbn [fst]. apply shr_publish.
Qed.

Lemma shr_recv_event h x m sender co re t : shr h (fst (recv_event h x m sender co re t)).
Proof.
  unfold recv_event. destruct (get_sess h x) as [s|]; [|apply shr_refl].
  destruct (N.eqb sender x && negb (N.eqb sender 0)); [apply shr_refl|].
  destruct (co && negb (in_call h x s)); [apply shr_refl|].
  match goal with |- context [if ?c then _ else _] => destruct c end; [apply shr_refl|]. apply shr_send_session.
Qed.

Lemma shr_delete_member hh m : shr hh (fst (delete_member hh m)).
Proof.
  unfold delete_member. destruct (get_sess hh m) as [s|]; [|apply shr_refl].
  destruct (leave_room hh m true) as [h2 o1] eqn:Hl.
  assert (R2 : shr hh h2) by (rewrite (fst_eq _ _ _ Hl); apply shr_leave_room).
  destruct (is_virtual (s_kind s)); [exact R2|].
  destruct (send_session h2 m (SRoom 0)) as [h3 o2] eqn:H3. cbn [fst]. rewrite (fst_eq _ _ _ H3).
  eapply shr_trans; [exact R2|apply shr_send_session].
Qed.

Lemma shr_set_room_same h k r r' : room_of h k = Some r -> incl (r_members r') (r_members r) ->
  shr h (set_rooms h (pset (h_rooms h) k r')).
Proof.
  intros Hr Hi. apply shr_rooms. intros k' r0 Hr'. rewrite pget_pset in Hr'. destruct (pair_eqb_spec k' k) as [->|Hne].
  - injection Hr' as <-. exists r. auto.
  - exists r0. split; [exact Hr'|apply incl_refl].
Qed.
Lemma shr_del_room h k : shr h (set_rooms h (pdel (h_rooms h) k)).
Proof.
  apply shr_rooms. intros k' r' Hr. rewrite pget_pdel in Hr. destruct (pair_eqb k' k); [discriminate|].
  exists r'. split; [exact Hr|apply incl_refl].
Qed.

Lemma shr_transient_update h k r del key val : room_of h k = Some r -> shr h (fst (transient_update h k r del key val)).
Proof.
  intros Hr. unfold transient_update.
  assert (Hn : forall d m, shr h (fst (transient_notify h k r d m))).
  { intros d m. unfold transient_notify. eapply shr_trans; [|apply shr_fold_sessions; intros hh y; apply shr_send_session].
    apply (shr_set_room_same h k r); [exact Hr|unfold room_set_transient; apply incl_refl]. }
  destruct (del || N.eqb val 0).
  - destruct (aget (r_transient r) key); [apply Hn|apply shr_refl].
  - destruct (aget (r_transient r) key) as [v|]; [destruct (N.eqb v val); [apply shr_refl|apply Hn]|apply Hn].
Qed.

Lemma shr_room_request h k q : shr h (fst (room_request h k q)).
Proof.
  unfold room_request. destruct (room_of h k) as [r|] eqn:Hroom; [|apply shr_refl].
  destruct q as [|users rs|tag|l|l|ic|tag|ok|del key val]; [| | | | | | |apply shr_refl|now apply shr_transient_update].
  - match goal with |- context [fold_sessions h ?int ?f] => set (internals := int); set (g := f) end.
    destruct (fold_sessions h internals g) as [h0 o0] eqn:H0.
    assert (R0 : shr h h0).
    { rewrite (fst_eq _ _ _ H0). apply shr_fold_sessions. intros hh y. apply shr_send_session. }
    set (h1 := set_rooms h0 (pdel (h_rooms h0) k)).
    destruct (fold_sessions h1 (r_members r) delete_member) as [h9 o9] eqn:H9. cbn [fst].
    rewrite (fst_eq _ _ _ H9). eapply shr_trans; [exact R0|].
    eapply shr_trans; [apply (shr_del_room h0 k)|].
    apply shr_fold_sessions. intros hh y. apply shr_delete_member.
  - apply shr_refl.
  - destruct (N.eqb (r_props r) (tag + 1)); [apply shr_refl|]. cbn [fst].
    eapply shr_trans; [|apply shr_publish]. apply (shr_set_room_same h k r); [exact Hroom|apply incl_refl].
  - cbn [fst]. apply shr_publish.
  - match goal with |- context [fold_left ?f l (h, [])] => set (g := f) end.
    assert (Hg : shr h (fst (fold_left g l (h, [])))).
    { assert (G : forall acc, shr h (fst acc) -> shr h (fst (fold_left g l acc))).
      { induction l as [|u l IH]; intros acc Hacc; cbn [fold_left]; [exact Hacc|]. apply IH.
        destruct acc as [hh oo]. cbn [fst] in Hacc. unfold g. destruct u as [[i icv] pm].
        destruct i as [n|y|kk|n]; try exact Hacc.
        destruct (get_sess hh y); [|exact Hacc].
        destruct (N.testbit icv 0); [cbn [fst]; eapply shr_trans; [exact Hacc|apply shr_set_incall]|].
        destruct (leave_call (set_incall hh k y false) y) as [h2 o2] eqn:H2. cbn [fst].
        rewrite (fst_eq _ _ _ H2). eapply shr_trans; [exact Hacc|].
        eapply shr_trans; [apply shr_set_incall|apply shr_leave_call]. }
      apply G. apply shr_refl. }
    destruct (fold_left g l (h, [])) as [h1 outs]. cbn [fst] in *. eapply shr_trans; [exact Hg|apply shr_publish].
  - destruct (N.testbit ic 0).
    + match goal with |- context [filter ?f (filter ?g0 (r_members r))] => set (fresh := filter f (filter g0 (r_members r))); set (joiners := filter g0 (r_members r)) end.
      destruct fresh; [apply shr_refl|].
      eapply shr_trans; [|apply shr_fold_sessions; intros hh y; apply shr_send_session].
      apply shr_fold_left_hub. intros hh y. apply shr_set_incall.
    + destruct (r_incall r) eqn:Hic; [apply shr_refl|].
      set (h1 := set_rooms h (pset (h_rooms h) k (mkroom (r_members r) [] (r_sessdata r) (r_transient r) (r_props r)))).
      assert (R1 : shr h h1) by (apply (shr_set_room_same h k r); [exact Hroom|apply incl_refl]).
      match goal with |- context [fold_sessions h1 ?lv leave_call] => destruct (fold_sessions h1 lv leave_call) as [h2 o1] eqn:H2 end.
      assert (R2 : shr h h2).
      { rewrite (fst_eq _ _ _ H2). eapply shr_trans; [exact R1|]. apply shr_fold_sessions. intros hh y. apply shr_leave_call. }
      match goal with |- context [fold_sessions h2 ?lv ?f] => destruct (fold_sessions h2 lv f) as [h3 o2] eqn:H3 end.
      cbn [fst]. rewrite (fst_eq _ _ _ H3). eapply shr_trans; [exact R2|].
      apply shr_fold_sessions. intros hh y. apply shr_send_session.
  - cbn [fst]. apply shr_publish.
Qed.

Lemma shr_deliver_pub h p : shr h (fst (deliver_pub h p)).
Proof.
  unfold deliver_pub.
  destruct (p_subj p) as [b r|b r|b u|x|]; destruct (p_msg p) as [m sender co|m|sj internal|pm| |q]; try apply shr_refl.
  - apply shr_fold_sessions. intros hh y. apply shr_recv_event.
  - apply shr_fold_sessions. intros hh y. apply shr_recv_event.
  - destruct (room_of h (b, r)) as [rm|]; [|apply shr_refl].
    match goal with |- context [match ?o with [] => _ | _ => _ end] => destruct o end; [apply shr_refl|]. cbn [fst].
    match goal with |- shr _ (fold_left ?f ?l ?h0) => apply (wf_fold_left_hub (fun hh => shr h hh) f l h0) end.
    + apply shr_publish.
    + intros hh y Hhh. destruct (get_sess hh y) as [sx|]; [|exact Hhh].
      destruct (is_virtual (s_kind sx) && negb (N.eqb (s_flags sx) 0)); [|exact Hhh].
      eapply shr_trans; [exact Hhh|apply shr_publish].
  - apply shr_room_request.
  - apply shr_fold_sessions. intros hh y. apply shr_recv_event.
  - destruct (get_sess h x) as [s|]; [|apply shr_refl]. destruct (is_virtual (s_kind s)); [apply shr_refl|]. apply shr_recv_event.
  - destruct (get_sess h x) as [s|]; [|apply shr_refl]. destruct (is_virtual (s_kind s)); [apply shr_refl|]. apply shr_recv_event.
  - destruct (get_sess h x) as [s|] eqn:Hs; [|apply shr_refl]. destruct (is_virtual (s_kind s)); [apply shr_refl|].
    eapply shr_trans; [|apply shr_revoke]. apply shr_put with s; [exact Hs|now apply keeps_same].
  - destruct (get_sess h x) as [s|]; [|apply shr_refl]. destruct (is_virtual (s_kind s)); [apply shr_refl|].
    destruct (leave_room h x false) as [h1 o1] eqn:H1.
    destruct (send_session h1 x (SBye B_room_session_reconnected)) as [h2 o2] eqn:H2.
    destruct (close_session h2 x) as [h3 o3] eqn:H3. cbn [fst].
    assert (R1 : shr h h1) by (rewrite (fst_eq _ _ _ H1); apply shr_leave_room).
    assert (R2 : shr h1 h2) by (rewrite (fst_eq _ _ _ H2); apply shr_send_session).
    assert (R3 : shr h2 h3) by (rewrite (fst_eq _ _ _ H3); apply shr_close_session).
    eapply shr_trans; [exact R1|]. eapply shr_trans; [exact R2|exact R3].
Qed.

Lemma shr_deliver_at h pos : shr h (fst (deliver_at h pos)).
Proof.
  unfold deliver_at. destruct (take_nth pos (h_bus h)) as [[p rest]|]; [|apply shr_refl].
  eapply shr_trans; [|apply shr_deliver_pub]. apply shr_eq; reflexivity.
Qed.

Lemma shr_do_api h b room q : shr h (fst (do_api h b room q)).
Proof.
  unfold do_api.
  assert (Hpub : forall hh s m, shr h hh -> shr h (publish hh s m)).
  { intros hh s m R. eapply shr_trans; [exact R|apply shr_publish]. }
  pose proof (shr_refl h) as R0.
  destruct q as [|users rs|tag|l|l|ic|tag|ok|del key val]; cbn [fst]; auto.
  - match goal with |- shr _ (fold_left ?f ?l ?h0) => apply (wf_fold_left_hub (fun hh => shr h hh) f l h0) end.
    + match goal with |- shr _ (fold_left ?f ?l ?h0) => apply (wf_fold_left_hub (fun hh => shr h hh) f l h0) end; auto.
    + intros hh y Hhh. destruct (aget (h_rs2 hh) (1000000 + y)); auto.
  - match goal with |- context [match ?o with [] => _ | _ => _ end] => destruct o end; cbn [fst]; auto.
    apply Hpub. match goal with |- shr _ (fold_left ?f ?l ?h0) => apply (wf_fold_left_hub (fun hh => shr h hh) f l h0) end; auto.
    intros hh [[i icv] pm] Hhh. destruct i; auto. destruct pm; auto.
  - match goal with |- context [match ?o with [] => _ | _ => _ end] => destruct o end; cbn [fst]; auto.
  - (* dial-out *)
    destruct ok; cbn [negb fst]; [|exact R0]. destruct (dialout_session h b) as [x|]; [|exact R0].
    destruct (send_session h x (SDialout room)) as [h1 o1] eqn:H1. cbn [fst]. apply Hpub.
    rewrite (fst_eq _ _ _ H1). apply shr_send_session.
Qed.

Lemma shr_do_tick h secs : shr h (fst (do_tick h secs)).
Proof.
  unfold do_tick.
  match goal with |- context [let '(h1, o1) := ?X in _] => destruct X as [h1 o1] eqn:H1 end.
  assert (R1 : shr h h1).
  { destruct (hub_expire_s <? secs); [|injection H1 as <- <-; apply shr_refl].
    rewrite (fst_eq _ _ _ H1). apply shr_fold_sessions. intros hh y. apply shr_close_session. }
  match goal with |- context [let '(h2, o2) := ?X in _] => destruct X as [h2 o2] eqn:H2 end.
  assert (R2 : shr h h2).
  { destruct (hub_anonymous_s <? secs); [|injection H2 as <- <-; exact R1].
    rewrite (fst_eq _ _ _ H2). eapply shr_trans; [exact R1|]. apply shr_fold_sessions. intros hh y.
    destruct (get_sess hh y) as [s|]; [|apply shr_refl].
    match goal with |- context [let '(h3, o3) := ?X in _] => destruct X as [h3 o3] eqn:H3 end.
    assert (R3 : shr hh h3).
    { destruct (s_conn s); [|injection H3 as <- <-; apply shr_refl]. rewrite (fst_eq _ _ _ H3). apply shr_send_conn. }
    destruct (close_session h3 y) as [h4 o4] eqn:H4. cbn [fst]. rewrite (fst_eq _ _ _ H4).
    eapply shr_trans; [exact R3|apply shr_close_session]. }
  match goal with |- context [let '(h3, o3) := ?X in _] => destruct X as [h3 o3] eqn:H3 end.
  cbn [fst]. destruct (hub_hello_s <? secs); [|injection H3 as <- <-; exact R2].
  rewrite (fst_eq _ _ _ H3). eapply shr_trans; [exact R2|]. apply shr_fold_sessions. intros hh y. apply shr_send_conn.
Qed.

Lemma shr_finish_create h tok p ok : shr h (fst (finish_create h tok p ok)).
Proof.
  unfold finish_create.
  assert (Hsend : forall hh x m, shr h hh -> shr h (fst (send_session hh x m))).
  { intros hh x m E. eapply shr_trans; [exact E|apply shr_send_session]. }
  assert (Hcond : forall hh (b : bool) x m, shr h hh ->
            shr h (fst (if b then send_session hh x m else (hh, [])))).
  { intros hh b x m E. destruct b; [now apply Hsend|exact E]. }
  pose proof (shr_refl h) as R0.
  destruct ok; cbn [negb].
  2:{ destruct (send_session h (mp_errto p) (SError E_client_not_found)) as [h1 o1] eqn:H1. cbn [fst].
      rewrite (fst_eq _ _ _ H1). now apply Hsend. }
  destruct (get_sess h (mp_owner p)) as [s|] eqn:Hs; [|exact R0].
  destruct (negb (N.eqb (s_rel s) (mp_rel p))).
  { destruct (send_session h (mp_errto p) (SError E_client_not_found)) as [h1 o1] eqn:H1. cbn [fst].
    rewrite (fst_eq _ _ _ H1). now apply Hsend. }
  destruct (N.eqb (mp_kind p) 0 && negb (offer_allowed (s_perms s) (mp_stream p) (N.land (mp_media p) 3))).
  { destruct (send_session h (mp_errto p) (SError E_not_allowed)) as [h1 o1] eqn:H1. cbn [fst].
    rewrite (fst_eq _ _ _ H1). now apply Hsend. }
  destruct (N.eqb (mp_kind p) 0).
  - destruct (aget (s_pubs s) (mp_stream p)).
    + match goal with |- context [let '(h1, o1) := ?X in _] => destruct X as [h1 o1] eqn:H1 end. cbn [fst].
      rewrite (fst_eq _ _ _ H1). now apply Hcond.
    + match goal with |- context [let '(h3, o3) := ?X in _] => destruct X as [h3 o3] eqn:H3 end. cbn [fst].
      rewrite (fst_eq _ _ _ H3). apply Hcond.
      eapply (shr_aset h _ (mp_owner p) s); [reflexivity|reflexivity|reflexivity|exact Hs|now apply keeps_same].
  - destruct (sub_get s (mp_pubof p) (mp_stream p)).
    + match goal with |- context [let '(h1, o1) := ?X in _] => destruct X as [h1 o1] eqn:H1 end. cbn [fst].
      rewrite (fst_eq _ _ _ H1). now apply Hcond.
    + match goal with |- context [let '(h3, o3) := ?X in _] => destruct X as [h3 o3] eqn:H3 end. cbn [fst].
      rewrite (fst_eq _ _ _ H3). apply Hcond.
      eapply (shr_aset h _ (mp_owner p) s); [reflexivity|reflexivity|reflexivity|exact Hs|now apply keeps_same].
Qed.

Lemma shr_start_create h p : shr h (fst (start_create h p)).
Proof.
  unfold start_create. destruct (h_gated h); [cbn [fst]; apply shr_eq; reflexivity|].
  match goal with |- context [let '(h1, o1) := ?X in _] => destruct X as [h1 o1] eqn:H1 end. cbn [fst].
  rewrite (fst_eq _ _ _ H1). eapply shr_trans; [|apply shr_finish_create]. apply shr_eq; reflexivity.
Qed.
Lemma shr_do_mcudone h tok ok : shr h (fst (do_mcudone h tok ok)).
Proof.
  unfold do_mcudone. destruct (aget (h_mcupending h) tok) as [p|]; [|apply shr_refl].
  eapply shr_trans; [|apply shr_finish_create]. apply shr_eq; reflexivity.
Qed.
Lemma shr_do_sendoffer h c x s i stream : shr h (fst (do_sendoffer h c x s i stream)).
Proof.
  unfold do_sendoffer.
  destruct i as [n|n|k|n]; try (destruct (negb (send_allowed (s_perms s) stream)); [apply shr_refl|apply shr_refl]).
  destruct (get_sess h n) as [t|] eqn:Ht; [|destruct (negb (send_allowed (s_perms s) stream)); [apply shr_refl|apply shr_refl]].
  destruct (N.eqb_spec (s_backend t) (s_backend s)) as [Hbt|]; cbn [negb]; [|apply shr_refl].
  destruct (N.eqb n x); [apply shr_refl|].
  destruct (negb (send_allowed (s_perms s) stream)); [apply shr_refl|].
  cbv zeta. set (r := match s_kind t with KVirtual p _ => p | _ => n end).
  destruct (get_sess h r) as [rs|] eqn:Hr; [|apply shr_refl].
  destruct (is_virtual (s_kind rs)) eqn:Hv; [apply shr_refl|].
  destruct (sub_get rs x stream); [apply shr_send_session|apply shr_start_create].
Qed.

Lemma shr_do_media h c x s to mk stream media :
  get_sess h x = Some s -> shr h (fst (do_media h c x s to mk stream media)).
Proof.
  intros Hs. unfold do_media. destruct to as [i|u| |]; try apply shr_refl.
  destruct (N.eqb mk 0).
  - destruct (negb (offer_allowed (s_perms s) stream _)); [apply shr_refl|].
    destruct (aget (s_pubs s) stream); [|apply shr_start_create].
    eapply shr_trans; [|apply shr_send_session]. apply shr_put with s; [exact Hs|now apply keeps_same].
  - destruct (N.eqb mk 1).
    + match goal with |- context [if ?c then _ else _] => destruct c end; [apply shr_refl|].
      destruct (negb (same_call h x s _)); [apply shr_refl|].
      destruct (sub_get s _ stream); [apply shr_send_session|apply shr_start_create].
    + destruct (is_cand mk); [|destruct (N.eqb mk 3); [apply shr_do_sendoffer|apply shr_refl]].
      match goal with |- context [if ?c then _ else _] => destruct c end.
      * destruct (negb (send_allowed (s_perms s) stream)); [apply shr_refl|]. destruct (aget (s_pubs s) stream); apply shr_refl.
      * destruct (sub_get s _ stream); apply shr_refl.
Qed.

(* ------------------------------------------------------------------ the tenancy invariant *)
Definition bsid (b : N) (h : hub) (sid : N) : Prop := forall s, get_sess h sid = Some s -> s_backend s = b.

Record Ten (h : hub) : Prop := {
  (* a session is in a room of its own backend *)
  t_room : forall sid s k, get_sess h sid = Some s -> s_room s = Some k -> fst k = s_backend s;
  (* a virtual session belongs to the backend of its internal client *)
  t_parent : forall vs s p v, get_sess h vs = Some s -> s_kind s = KVirtual p v -> bsid (s_backend s) h p;
  (* the members of a room are sessions of the room's backend *)
  t_member : forall k r m, room_of h k = Some r -> In m (r_members r) -> bsid (fst k) h m;
  t_keys : keys_ok h;
}.

Lemma ten_init limits gated : Ten (init limits gated).
Proof. constructor; unfold init, room_of, get_sess, keys_ok; cbn; intros; try discriminate. constructor. Qed.

Lemma ten_shr h h' : Ten h -> shr h h' -> Ten h'.
Proof.
  intros [T1 T2 T3 T4] [S R _ K]. constructor; [| | |auto].
  - intros sid s' k Hs Hk. destruct (S sid s' Hs) as (s & Hs0 & Hb & _ & [Hr|Hr]); [|congruence].
    rewrite Hb. apply (T1 sid s k Hs0). congruence.
  - intros vs s' p v Hs Hk ps' Hps. destruct (S vs s' Hs) as (s & Hs0 & Hb & Hkd & _).
    destruct (S p ps' Hps) as (ps & Hps0 & Hbp & _). rewrite Hb, Hbp. apply (T2 vs s p v Hs0); congruence.
  - intros k r' m Hr Hm s' Hs. destruct (R k r' Hr) as (r & Hr0 & Hi). destruct (S m s' Hs) as (s & Hs0 & Hb & _).
    rewrite Hb. apply (T3 k r m Hr0 (Hi m Hm) s Hs0).
Qed.

(* an existing session is updated, possibly entering a room of its backend *)
Lemma ten_update h h' sid s s1 :
  Ten h -> get_sess h sid = Some s -> h_sessions h' = aset (h_sessions h) sid s1 ->
  s_backend s1 = s_backend s -> s_kind s1 = s_kind s ->
  (forall k, s_room s1 = Some k -> fst k = s_backend s) ->
  (forall k r' m, room_of h' k = Some r' -> In m (r_members r') ->
      (m = sid /\ fst k = s_backend s) \/ exists r, room_of h k = Some r /\ In m (r_members r)) ->
  Ten h'.
Proof.
  intros [T1 T2 T3 T4] Hs Es Hb Hk Hroom Hrooms.
  assert (G : forall x t', get_sess h' x = Some t' -> exists t, get_sess h x = Some t /\ s_backend t' = s_backend t /\ s_kind t' = s_kind t /\
                 (x = sid /\ t' = s1 \/ t' = t)).
  { intros x t' Ht. unfold get_sess in *. rewrite Es, aget_aset in Ht. destruct (N.eqb_spec x sid) as [->|Hne].
    - injection Ht as <-. exists s. split; [exact Hs|]. split; [exact Hb|]. split; [exact Hk|]. left. auto.
    - exists t'. split; [exact Ht|]. auto. }
  constructor; [| | |unfold keys_ok; rewrite Es; now apply nodup_aset].
  - intros x t' k Ht Hr. destruct (G x t' Ht) as (t & Ht0 & Hbt & _ & [[-> ->]| ->]).
    + rewrite Hb. rewrite Hs in Ht0. injection Ht0 as <-. now apply Hroom.
    + now apply (T1 x t k).
  - intros vs t' p v Ht Hkd ps' Hps. destruct (G vs t' Ht) as (t & Ht0 & Hbt & Hkt & _).
    destruct (G p ps' Hps) as (ps & Hps0 & Hbp & _). rewrite Hbt, Hbp. apply (T2 vs t p v Ht0); congruence.
  - intros k r' m Hr Hm t' Ht. destruct (G m t' Ht) as (t & Ht0 & Hbt & _). rewrite Hbt.
    destruct (Hrooms k r' m Hr Hm) as [[-> Hf]|(r & Hr0 & Hm0)].
    + rewrite Hs in Ht0. injection Ht0 as <-. now symmetry.
    + apply (T3 k r m Hr0 Hm0 t Ht0).
Qed.

(* a new session under an id nobody refers to *)
Lemma ten_new h h' sid s0 :
  WF h -> Ten h -> get_sess h sid = None -> h_sessions h' = aset (h_sessions h) sid s0 ->
  (forall k, s_room s0 = Some k -> fst k = s_backend s0) ->
  (forall p v, s_kind s0 = KVirtual p v -> bsid (s_backend s0) h p) ->
  (forall k r' m, room_of h' k = Some r' -> In m (r_members r') ->
      (m = sid /\ fst k = s_backend s0) \/ exists r, room_of h k = Some r /\ In m (r_members r)) ->
  Ten h'.
Proof.
  intros W [T1 T2 T3 T4] Hn Es Hroom Hpar Hrooms.
  assert (G : forall x t', get_sess h' x = Some t' -> (x = sid /\ t' = s0) \/ (x <> sid /\ get_sess h x = Some t')).
  { intros x t' Ht. unfold get_sess in *. rewrite Es, aget_aset in Ht. destruct (N.eqb_spec x sid) as [->|Hne].
    - injection Ht as <-. now left.
    - right. auto. }
  constructor; [| | |unfold keys_ok; rewrite Es; now apply nodup_aset].
  - intros x t' k Ht Hr. destruct (G x t' Ht) as [[-> ->]|[_ Ht0]]; [now apply Hroom|now apply (T1 x t' k)].
  - intros vs t' p v Ht Hkd ps' Hps. destruct (G vs t' Ht) as [[-> ->]|[Hne Ht0]].
    + destruct (G p ps' Hps) as [[-> ->]|[_ Hps0]]; [reflexivity|]. apply (Hpar p v Hkd ps' Hps0).
    + destruct (G p ps' Hps) as [[-> ->]|[_ Hps0]].
      * destruct (wf_parent _ _ h W vs t' sid v Ht0 Hkd) as [[]|(ps & Hps0 & _)]. congruence.
      * apply (T2 vs t' p v Ht0 Hkd ps' Hps0).
  - intros k r' m Hr Hm t' Ht. destruct (Hrooms k r' m Hr Hm) as [[-> Hf]|(r & Hr0 & Hm0)].
    + destruct (G sid t' Ht) as [[_ ->]|[Hne _]]; [now symmetry|congruence].
    + destruct (G m t' Ht) as [[-> ->]|[_ Ht0]].
      * destruct (wf_members _ _ h W k r sid Hr0 Hm0) as (sx & Hsx & _). congruence.
      * apply (T3 k r m Hr0 Hm0 t' Ht0).
Qed.

Lemma ten_ext h h' : Ten h -> h_sessions h' = h_sessions h -> h_rooms h' = h_rooms h -> Ten h'.
Proof.
  intros [T1 T2 T3 T4] Es Er. constructor; [| | |unfold keys_ok; now rewrite Es].
  - intros sid s k Hs. rewrite (get_ext h h' sid Es) in Hs. now apply (T1 sid).
  - intros vs s p v Hs Hk ps Hps. rewrite (get_ext h h' vs Es) in Hs. rewrite (get_ext h h' p Es) in Hps. apply (T2 vs s p v Hs Hk ps Hps).
  - intros k r m Hr Hm s Hs. rewrite (room_ext h h' k Er) in Hr. rewrite (get_ext h h' _ Es) in Hs. apply (T3 k r m Hr Hm s Hs).
Qed.

(* ------------------------------------------------------------------ the frame of one backend *)
Definition bconn (b : N) (h : hub) (c : N) : Prop :=
  exists sid s, get_sess h sid = Some s /\ s_backend s = b /\ s_conn s = Some c.

(* a publication of backend b: its subject names b (or a session of b), and so do the sessions it carries *)
Definition pub_ok (b : N) (h : hub) (p : pub) : Prop :=
  match p_subj p with
  | SubjRoom b' _ | SubjBackendRoom b' _ | SubjUser b' _ => b' = b
  | SubjSession sid => bsid b h sid
  | SubjNobody => True
  end /\
  match p_msg p with
  | ARoomReq (AInCall l) => forall i ic pm, In (i, ic, pm) l -> match i with IdPub sid => bsid b h sid | _ => True end
  | ASessionJoined sid _ => bsid b h sid
  | _ => True
  end.

Record Fr (b : N) (oc : option N) (h h' : hub) : Prop := {
  fr_sess : forall sid s, get_sess h sid = Some s \/ get_sess h' sid = Some s -> s_backend s <> b ->
            get_sess h' sid = get_sess h sid;
  fr_room : forall k, fst k <> b -> room_of h' k = room_of h k;
  fr_conn : forall c, bconn b h' c -> Some c = oc \/ bconn b h c;
  fr_bus : forall p, In p (h_bus h') -> In p (h_bus h) \/ pub_ok b h' p;
}.

Lemma fr_refl b oc h : Fr b oc h h.
Proof. constructor; auto. Qed.

Lemma bsid_fr b oc h h' sid : Fr b oc h h' -> bsid b h sid -> bsid b h' sid.
Proof.
  intros F Hb s' Hs'. destruct (N.eq_dec (s_backend s') b) as [E|Hne]; [exact E|].
  pose proof (fr_sess _ _ _ _ F sid s' (or_intror Hs') Hne) as E. rewrite Hs' in E. symmetry in E. now apply Hb.
Qed.
Lemma pub_ok_fr b oc h h' p : Fr b oc h h' -> pub_ok b h p -> pub_ok b h' p.
Proof.
  intros F [H1 H2]. split.
  - destruct (p_subj p); auto. eapply bsid_fr; eauto.
  - destruct (p_msg p) as [| |sj it| | |q]; auto; [eapply bsid_fr; eauto|].
    destruct q; auto. intros i ic pm Hin. specialize (H2 i ic pm Hin). destruct i; auto. eapply bsid_fr; eauto.
Qed.

Lemma fr_trans b oc h1 h2 h3 : Fr b oc h1 h2 -> Fr b oc h2 h3 -> Fr b oc h1 h3.
Proof.
  intros F1 F2. constructor.
  - intros sid s [H|H] Hne.
    + pose proof (fr_sess _ _ _ _ F1 sid s (or_introl H) Hne) as E1. rewrite H in E1.
      rewrite (fr_sess _ _ _ _ F2 sid s (or_introl E1) Hne). congruence.
    + pose proof (fr_sess _ _ _ _ F2 sid s (or_intror H) Hne) as E2. rewrite H in E2. symmetry in E2.
      rewrite <- (fr_sess _ _ _ _ F1 sid s (or_intror E2) Hne). congruence.
  - intros k Hk. rewrite (fr_room _ _ _ _ F2 k Hk). now apply (fr_room _ _ _ _ F1).
  - intros c Hc. destruct (fr_conn _ _ _ _ F2 c Hc) as [E|Hc2]; [now left|]. now apply (fr_conn _ _ _ _ F1).
  - intros p Hp. destruct (fr_bus _ _ _ _ F2 p Hp) as [Hp2|Hok]; [|now right].
    destruct (fr_bus _ _ _ _ F1 p Hp2) as [Hp1|Hok]; [now left|right]. eapply pub_ok_fr; eauto.
Qed.

(* constructors *)
Lemma fr_eq b oc h h' : h_sessions h' = h_sessions h -> h_rooms h' = h_rooms h -> h_bus h' = h_bus h -> Fr b oc h h'.
Proof.
  intros Es Er Eb. constructor.
  - intros sid s _ _. now apply get_ext.
  - intros k _. now apply room_ext.
  - intros c (sid & s & Hs & Hb & Hc). right. exists sid, s. rewrite <- (get_ext h h' sid Es). auto.
  - intros p Hp. left. now rewrite <- Eb.
Qed.
Lemma fr_then_eq b oc h h1 h2 : Fr b oc h h1 -> h_sessions h2 = h_sessions h1 -> h_rooms h2 = h_rooms h1 -> h_bus h2 = h_bus h1 -> Fr b oc h h2.
Proof. intros F Es Er Eb. eapply fr_trans; [exact F|now apply fr_eq]. Qed.

(* a session of b is written: its connection is the one it had, none, or the op's own *)
Lemma fr_aset b oc h h' x s' :
  h_sessions h' = aset (h_sessions h) x s' -> h_rooms h' = h_rooms h -> h_bus h' = h_bus h ->
  bsid b h x -> s_backend s' = b ->
  (forall c, s_conn s' = Some c -> Some c = oc \/ bconn b h c) ->
  Fr b oc h h'.
Proof.
  intros Es Er Eb Hx Hb Hc. constructor.
  - intros sid s Hor Hne. unfold get_sess in *. rewrite Es, aget_aset in *. destruct (N.eqb_spec sid x) as [->|Hnx]; [|reflexivity].
    exfalso. destruct Hor as [H|H]; [apply Hne; now apply Hx|]. injection H as <-. contradiction.
  - intros k _. now apply room_ext.
  - intros c (sid & s & Hs & Hbs & Hcs). unfold get_sess in Hs. rewrite Es, aget_aset in Hs. destruct (N.eqb_spec sid x) as [->|Hnx].
    + injection Hs as <-. now apply Hc.
    + right. exists sid, s. auto.
  - intros p Hp. left. now rewrite <- Eb.
Qed.
Lemma fr_put b oc h x s s' : get_sess h x = Some s -> s_backend s = b -> s_backend s' = b ->
  (s_conn s' = s_conn s \/ s_conn s' = None \/ s_conn s' = oc) -> Fr b oc h (put_sess h x s').
Proof.
  intros Hs Hb Hb' Hc. apply (fr_aset b oc h (put_sess h x s') x s'); try reflexivity; auto.
  - intros t Ht. congruence.
  - intros c Hcs. destruct Hc as [Hc|[Hc|Hc]]; [|congruence|left; congruence].
    right. exists x, s. split; [exact Hs|]. split; [exact Hb|congruence].
Qed.
Lemma fr_adel b oc h h' x :
  h_sessions h' = adel (h_sessions h) x -> h_rooms h' = h_rooms h -> h_bus h' = h_bus h -> bsid b h x -> Fr b oc h h'.
Proof.
  intros Es Er Eb Hx. constructor.
  - intros sid s Hor Hne. unfold get_sess in *. rewrite Es, aget_adel in *. destruct (N.eqb_spec sid x) as [->|Hnx]; [|reflexivity].
    exfalso. destruct Hor as [H|H]; [apply Hne; now apply Hx|discriminate].
  - intros k _. now apply room_ext.
  - intros c (sid & s & Hs & Hbs & Hcs). unfold get_sess in Hs. rewrite Es, aget_adel in Hs. destruct (N.eqb sid x); [discriminate|].
    right. exists sid, s. auto.
  - intros p Hp. left. now rewrite <- Eb.
Qed.
Lemma fr_rooms b oc h v : (forall k, fst k <> b -> pget v k = room_of h k) -> Fr b oc h (set_rooms h v).
Proof.
  intros Hv. constructor; auto.
Qed.
Lemma fr_set_room b oc h k r : fst k = b -> Fr b oc h (set_rooms h (pset (h_rooms h) k r)).
Proof. intros Hk. apply fr_rooms. intros k' Hne. rewrite pget_pset_other; [reflexivity|congruence]. Qed.
Lemma fr_del_room b oc h k : fst k = b -> Fr b oc h (set_rooms h (pdel (h_rooms h) k)).
Proof. intros Hk. apply fr_rooms. intros k' Hne. rewrite pget_pdel_other; [reflexivity|congruence]. Qed.
Lemma fr_publish b oc h subj m : pub_ok b h (mkpub subj m (h_clock h)) -> Fr b oc h (publish h subj m).
Proof.
  intros Hok. constructor; auto.
  intros p Hp. unfold publish in Hp. cbn in Hp. apply in_app_or in Hp as [Hp|[<-|[]]]; [now left|right]. exact Hok.
Qed.

(* ------------------------------------------------------------------ outputs *)
Definition outs_ok (b : N) (oc : option N) (h : hub) (outs : list out) : Prop :=
  forall c m, In (ToConn c m) outs -> Some c = oc \/ bconn b h c.
Definition Loc (b : N) (oc : option N) (h : hub) (r : hub * list out) : Prop :=
  Fr b oc h (fst r) /\ outs_ok b oc h (snd r).

Lemma outs_ok_nil b oc h : outs_ok b oc h [].
Proof. intros c m []. Qed.
Lemma outs_ok_app b oc h o1 o2 : outs_ok b oc h o1 -> outs_ok b oc h o2 -> outs_ok b oc h (o1 ++ o2).
Proof. intros H1 H2 c m Hin. apply in_app_or in Hin as [Hin|Hin]; eauto. Qed.
Lemma outs_ok_fr b oc h h' o : Fr b oc h h' -> outs_ok b oc h' o -> outs_ok b oc h o.
Proof. intros F Ho c m Hin. destruct (Ho c m Hin) as [E|Hc]; [now left|]. now apply (fr_conn _ _ _ _ F). Qed.
Lemma outs_ok_cons_other b oc h x o : (forall c m, x <> ToConn c m) -> outs_ok b oc h o -> outs_ok b oc h (x :: o).
Proof. intros Hx Ho c m [E|Hin]; [exfalso; eapply Hx; eauto|eauto]. Qed.
Lemma outs_ok_cons_own b oc h c m o : Some c = oc -> outs_ok b oc h o -> outs_ok b oc h (ToConn c m :: o).
Proof. intros Hc Ho c' m' [E|Hin]; [injection E as <- <-; now left|eauto]. Qed.
Lemma outs_ok_cons_b b oc h c m o : bconn b h c -> outs_ok b oc h o -> outs_ok b oc h (ToConn c m :: o).
Proof. intros Hc Ho c' m' [E|Hin]; [injection E as <- <-; now right|eauto]. Qed.

Lemma loc_ret b oc h : Loc b oc h (h, []).
Proof. split; [apply fr_refl|apply outs_ok_nil]. Qed.
Lemma loc_fr b oc h h' : Fr b oc h h' -> Loc b oc h (h', []).
Proof. intros F. split; [exact F|apply outs_ok_nil]. Qed.
Lemma loc_bind b oc h r1 r2 : Loc b oc h r1 -> Loc b oc (fst r1) r2 -> Loc b oc h (fst r2, snd r1 ++ snd r2).
Proof.
  intros [F1 O1] [F2 O2]. split; cbn [fst snd].
  - eapply fr_trans; eauto.
  - apply outs_ok_app; [exact O1|]. eapply outs_ok_fr; eauto.
Qed.
Lemma loc_then_fr b oc h r h2 : Loc b oc h r -> Fr b oc (fst r) h2 -> Loc b oc h (h2, snd r).
Proof. intros [F1 O1] F2. split; cbn [fst snd]; [eapply fr_trans; eauto|exact O1]. Qed.
Lemma loc_after_fr b oc h h1 r : Fr b oc h h1 -> Loc b oc h1 r -> Loc b oc h r.
Proof. intros F1 [F2 O2]. split; [eapply fr_trans; eauto|eapply outs_ok_fr; eauto]. Qed.
Lemma loc_outs b oc h r o : Loc b oc h r -> outs_ok b oc h o -> Loc b oc h (fst r, o).
Proof. intros [F _] O. split; assumption. Qed.

Lemma pair_fst_snd {A B} (p : A * B) : p = (fst p, snd p).
Proof. destruct p; reflexivity. Qed.

(* folds *)
(* fold_acc_split: proofs/Hub_pending.v *)

Lemma loc_fold_sessions (P : hub -> Prop) b oc (f : hub -> N -> hub * list out) l : forall h,
  P h -> (forall x, In x l -> bsid b h x) ->
  (forall hh x, P hh -> bsid b hh x -> Loc b oc hh (f hh x)) ->
  (forall hh x, P hh -> P (fst (f hh x))) ->
  Loc b oc h (fold_sessions h l f).
Proof.
  induction l as [|x l IH]; intros h T Hl Hf Hs.
  - apply loc_ret.
  - rewrite fold_sessions_cons. destruct (f h x) as [h1 o1] eqn:E1.
    assert (L1 : Loc b oc h (h1, o1)) by (rewrite <- E1; apply Hf; [exact T|apply Hl; now left]).
    assert (T1 : P h1) by (rewrite (fst_eq _ _ _ E1); now apply Hs).
    assert (L2 : Loc b oc h1 (fold_sessions h1 l f)).
    { apply IH; auto. intros y Hy. apply (bsid_fr b oc h h1); [apply L1|apply Hl; now right]. }
    destruct (fold_sessions h1 l f) as [h2 o2]. apply (loc_bind b oc h (h1, o1) (h2, o2)); assumption.
Qed.
Lemma fr_fold_left_hub {A} b oc (f : hub -> A -> hub) l : forall h,
  (forall hh x, Fr b oc h hh -> In x l -> Fr b oc hh (f hh x)) -> Fr b oc h (fold_left f l h).
Proof.
  intros h Hf.
  assert (G : forall l' hh, incl l' l -> Fr b oc h hh -> Fr b oc h (fold_left f l' hh)).
  { induction l' as [|x l' IH]; intros hh Hi F; cbn [fold_left]; [exact F|].
    apply IH; [intros y Hy; apply Hi; now right|]. eapply fr_trans; [exact F|]. apply Hf; [exact F|apply Hi; now left]. }
  apply G; [apply incl_refl|apply fr_refl].
Qed.

(* ------------------------------------------------------------------ connections and sessions name each other *)
Definition claims (h : hub) (tid c : N) : Prop := exists t, get_sess h tid = Some t /\ s_conn t = Some c.
Definition attached (h : hub) (c tid : N) : Prop := exists cn, aget (h_conns h) c = Some cn /\ c_sess cn = Some tid.
(* the connection a session writes to exists and is attached to that session: a bye written for a session
   closes that session and no other *)
Definition Bij (h : hub) : Prop := forall tid c, claims h tid c -> attached h c tid.

Lemma bij_init limits gated : Bij (init limits gated).
Proof. intros tid c (t & Ht & _). unfold init, get_sess in Ht. cbn in Ht. discriminate. Qed.

Lemma attached_fun h c t1 t2 : attached h c t1 -> attached h c t2 -> t1 = t2.
Proof. intros (cn1 & H1 & E1) (cn2 & H2 & E2). congruence. Qed.

(* same connection table, claims only go *)
Record ceq (h h' : hub) : Prop := {
  ce_conns : h_conns h' = h_conns h;
  ce_claims : forall tid c, claims h' tid c -> claims h tid c;
}.
Lemma ceq_refl h : ceq h h.
Proof. constructor; auto. Qed.
Lemma ceq_trans h1 h2 h3 : ceq h1 h2 -> ceq h2 h3 -> ceq h1 h3.
Proof. intros [C1 K1] [C2 K2]. constructor; [congruence|auto]. Qed.
Lemma bij_ceq h h' : ceq h h' -> Bij h -> Bij h'.
Proof.
  intros [C K] B tid c Hc. destruct (B tid c (K tid c Hc)) as (cn & Hcn & Hs). exists cn. rewrite C. auto.
Qed.
Lemma ceq_eq h h' : h_sessions h' = h_sessions h -> h_conns h' = h_conns h -> ceq h h'.
Proof.
  intros Es Ec. constructor; [exact Ec|]. intros tid c (t & Ht & Hc). exists t. rewrite <- (get_ext h h' tid Es). auto.
Qed.
Lemma ceq_equiv h h' : equiv h h' -> ceq h h'.
Proof.
  intros E. constructor; [apply (eq_conns _ _ E)|].
  intros tid c (t' & Ht & Hc). destruct (equiv_get _ _ _ _ E Ht) as (t & Ht0 & Hco).
  apply core_some_eq' in Hco as (_ & _ & Hcc). exists t. split; [exact Ht0|congruence].
Qed.
Lemma ceq_put h x s s' : get_sess h x = Some s -> (s_conn s' = s_conn s \/ s_conn s' = None) -> ceq h (put_sess h x s').
Proof.
  intros Hs Hc. constructor; [reflexivity|]. intros tid c (t & Ht & Hct). rewrite gp in Ht.
  destruct (N.eqb_spec tid x) as [->|Hne].
  - injection Ht as <-. exists s. split; [exact Hs|]. destruct Hc as [Hc|Hc]; congruence.
  - exists t. auto.
Qed.

Lemma rs_set_conns h sid rs : h_conns (rs_set h sid rs) = h_conns h.
Proof.
  unfold rs_set. destruct (N.eqb rs 0).
  - destruct (aget (h_rs1 h) sid); reflexivity.
  - destruct (aget (h_rs1 h) sid) as [prev|]; [destruct (N.eqb prev rs)|]; reflexivity.
Qed.
Lemma room_remove_conns h k x : h_conns (room_remove h k x) = h_conns h.
Proof.
  unfold room_remove. destruct (room_of h k) as [r|]; [|reflexivity]. destruct (nmem x (r_members r)); [|reflexivity].
  unfold remove_room_if_empty. rewrite room_of_set_rooms, pget_pset_same. cbn [r_members].
  destruct (nrem x (r_members r)); reflexivity.
Qed.
Lemma set_incall_conns h k x on : h_conns (set_incall h k x on) = h_conns h.
Proof.
  unfold set_incall. destruct (room_of h k) as [r|]; [|reflexivity].
  destruct (on && negb (nmem x (r_members r))); reflexivity.
Qed.
Lemma ceq_rs_set h x rs : ceq h (rs_set h x rs).
Proof. apply ceq_eq; [apply rs_set_sessions|apply rs_set_conns]. Qed.
Lemma ceq_room_remove h k x : ceq h (room_remove h k x).
Proof. apply ceq_eq; [apply (proj1 (room_remove_proj h k x))|apply room_remove_conns]. Qed.
Lemma ceq_set_incall h k x on : ceq h (set_incall h k x on).
Proof. apply ceq_eq; [apply (proj1 (set_incall_proj h k x on))|apply set_incall_conns]. Qed.
Lemma ceq_publish h subj m : ceq h (publish h subj m).
Proof. apply ceq_eq; reflexivity. Qed.

Lemma ceq_leave_room h x notify : ceq h (fst (leave_room h x notify)).
Proof.
  unfold leave_room. destruct (get_sess h x) as [s|] eqn:Hs; [|apply ceq_refl].
  destruct (s_room s) as [k|]; [|apply ceq_refl].
  assert (Hs1 : get_sess (rs_del h x) x = Some s) by (unfold get_sess; now rewrite rs_del_sessions).
  destruct (is_virtual (s_kind s)).
  - cbn [fst]. eapply ceq_trans; [apply (ceq_rs_set h x 0)|].
    eapply ceq_trans; [|apply ceq_room_remove]. apply ceq_put with s; [exact Hs1|now left].
  - match goal with |- context [release_mcu ?hh x] => destruct (release_mcu hh x) as [h3 o2] eqn:Hr end. cbn [fst].
    eapply ceq_trans; [apply (ceq_rs_set h x 0)|].
    eapply ceq_trans; [|apply ceq_room_remove].
    eapply ceq_trans; [|rewrite (fst_eq _ _ _ Hr); apply ceq_equiv, equiv_release_mcu].
    apply ceq_put with s; [exact Hs1|now left].
Qed.

Lemma bij_leave_room h x notify : Bij h -> Bij (fst (leave_room h x notify)).
Proof. apply bij_ceq, ceq_leave_room. Qed.
Lemma bij_equiv h h' : equiv h h' -> Bij h -> Bij h'.
Proof. intros E. apply bij_ceq, ceq_equiv, E. Qed.

Lemma bij_after_close h h2a s x : Bij h -> ceq h h2a -> get_sess h x = Some s -> Bij (after_close h2a s x).
Proof.
  intros B [C K] Hs tid c (t & Ht & Hc).
  unfold get_sess in Ht. rewrite after_close_sessions, aget_adel in Ht.
  destruct (N.eqb_spec tid x) as [->|Hne]; [discriminate|].
  assert (Hcl : claims h tid c) by (apply K; exists t; auto).
  destruct (B tid c Hcl) as (cn & Hcn & Hcs). exists cn. split; [|exact Hcs].
  unfold after_close. rewrite (proj2 (proj2 (proj2 (proj2 (proj2 (proj2 (proj2 (proj2 (proj2 (drop_vt_other _ _ _)))))))))).
  rewrite detach_conn_get. cbn [scrub h_conns set_counted set_dialout set_anonymous set_expired set_clients set_sessions set_mcu].
  rewrite C. destruct (s_conn s) as [c0|] eqn:Hc0; [|exact Hcn].
  destruct (N.eqb_spec c c0) as [->|Hnc]; [|exact Hcn].
  exfalso. apply Hne. apply (attached_fun h c0); [exists cn; auto|]. apply B. exists s. auto.
Qed.

Lemma bij_close_one h x : Bij h -> Bij (fst (close_one h x)).
Proof.
  intros B. destruct (get_sess h x) as [s|] eqn:Hs; [|rewrite (close_one_dead h x Hs); exact B].
  rewrite (close_one_eq h x s Hs). apply (bij_after_close h); [exact B| |exact Hs].
  eapply ceq_trans; [apply (ceq_leave_room h x true)|]. apply ceq_equiv, equiv_release_mcu.
Qed.
Lemma bij_close_session h x : Bij h -> Bij (fst (close_session h x)).
Proof.
  intros B. unfold close_session. destruct (close_one h x) as [h1 o1] eqn:Hc.
  apply (fold_acc_inv Bij close_one).
  - intros hh k. apply bij_close_one.
  - cbn [fst]. rewrite (fst_eq _ _ _ Hc). now apply bij_close_one.
Qed.

(* the state in which close_conn closes the attached session *)
Definition conn_gone (h : hub) (c : N) (x : N) : hub :=
  let h1 := set_conns h (adel (h_conns h) c) in
  match get_sess h1 x with Some s => put_sess h1 x (sess_conn s None) | None => h1 end.
Lemma bij_conn_gone h c cn x : Bij h -> aget (h_conns h) c = Some cn -> c_sess cn = Some x -> Bij (conn_gone h c x).
Proof.
  intros B Hc Hx tid c' (t & Ht & Hct).
  assert (G : tid <> x /\ get_sess h tid = Some t).
  { unfold conn_gone in Ht. destruct (get_sess (set_conns h (adel (h_conns h) c)) x) as [s|] eqn:Hs.
    - rewrite gp in Ht. destruct (N.eqb_spec tid x) as [->|Hne]; [injection Ht as <-; discriminate|]. split; [exact Hne|exact Ht].
    - split; [|exact Ht]. intros ->. congruence. }
  destruct G as [Hne Ht0].
  destruct (B tid c' (ex_intro _ t (conj Ht0 Hct))) as (cn' & Hcn' & Hcs').
  assert (Hcc : c' <> c) by (intros ->; congruence).
  exists cn'. split; [|exact Hcs'].
  unfold conn_gone. destruct (get_sess (set_conns h (adel (h_conns h) c)) x); hsimpl; now rewrite aget_adel_other.
Qed.

Lemma bij_close_conn h c : Bij h -> Bij (fst (close_conn h c)).
Proof.
  intros B. unfold close_conn. destruct (aget (h_conns h) c) as [cn|] eqn:Hc; [|exact B].
  destruct (c_sess cn) as [x|] eqn:Hx.
  - fold (conn_gone h c x). destruct (close_session (conn_gone h c x) x) as [h3 outs] eqn:Hcl. cbn [fst].
    rewrite (fst_eq _ _ _ Hcl). apply bij_close_session. now apply (bij_conn_gone h c cn x).
  - cbn [fst]. intros tid c' (t & Ht & Hct). destruct (B tid c' (ex_intro _ t (conj Ht Hct))) as (cn' & Hcn' & Hcs').
    assert (Hcc : c' <> c) by (intros ->; congruence). exists cn'. hsimpl. now rewrite aget_adel_other.
Qed.

Lemma bij_deliver_to_session h x m : Bij h -> Bij (fst (deliver_to_session h x m)).
Proof. apply bij_equiv, equiv_deliver_to_session. Qed.

Lemma bij_send_session h x m : Bij h -> Bij (fst (send_session h x m)).
Proof.
  intros B. unfold send_session.
  match goal with |- context [deliver_to_session h ?t m] => set (target := t) end.
  destruct (deliver_to_session h target m) as [h1 outs] eqn:Hd. pose proof (fst_eq _ _ _ Hd) as E1.
  assert (B1 : Bij h1) by (rewrite E1; now apply bij_deliver_to_session).
  destruct outs as [|[c mm| | |] [|o2 outs2]]; cbn [fst]; try exact B1.
  destruct (is_closing h1 c mm); [|exact B1].
  destruct (close_conn h1 c) as [h2 outs2] eqn:Hc. cbn [fst]. rewrite (fst_eq _ _ _ Hc). now apply bij_close_conn.
Qed.
Lemma bij_send_conn h c m : Bij h -> Bij (fst (send_conn h c m)).
Proof.
  intros B. unfold send_conn. destruct (aget (h_conns h) c); [|exact B].
  destruct (is_closing h c m); [|exact B].
  destruct (close_conn h c) as [h2 outs2] eqn:Hc. cbn [fst]. rewrite (fst_eq _ _ _ Hc). now apply bij_close_conn.
Qed.

Lemma bij_kick h rs : Bij h -> Bij (fst (kick_room_session h rs)).
Proof.
  intros B. unfold kick_room_session. destruct (aget (h_rs2 h) rs) as [x|]; [|exact B].
  destruct (get_sess h x) as [s'|]; [|cbn [fst]; apply (bij_ceq h); [apply ceq_publish|exact B]].
  destruct (leave_room h x false) as [h1 o1] eqn:Hl. pose proof (fst_eq _ _ _ Hl) as E1.
  assert (B1 : Bij h1) by (rewrite E1; now apply bij_leave_room).
  match goal with |- context [let '(h2, outs2) := ?X in _] => destruct X as [h2 o2] eqn:H2 end.
  assert (B2 : Bij h2).
  { destruct (s_kind s') as [| |p v]; destruct (s_conn s') as [c'|];
      try (injection H2 as <- <-; exact B1); rewrite (fst_eq _ _ _ H2); now apply bij_send_conn. }
  destruct (close_session h2 x) as [h3 o3] eqn:H3. cbn [fst]. rewrite (fst_eq _ _ _ H3). now apply bij_close_session.
Qed.

Lemma bij_publish h subj m : Bij h -> Bij (publish h subj m).
Proof. apply bij_ceq, ceq_publish. Qed.

Lemma bij_do_message h x s kindn to tag cb : Bij h -> Bij (fst (do_message h x s kindn to tag cb)).
Proof.
  intros B. unfold do_message.
  destruct to as [i|u| |].
  - destruct i as [n|n|k|n]; try (cbn [fst]; now apply bij_publish).
    destruct (get_sess h n) as [t|]; [|cbn [fst]; now apply bij_publish].
    destruct (cb && negb (N.eqb (s_backend t) (s_backend s))); [exact B|].
    destruct (N.eqb n x); [exact B|].
    destruct (s_kind t); now apply bij_send_session.
  - destruct (N.eqb u 0); [exact B|]. destruct (N.eqb u (sess_userid h x s)); [exact B|].
    cbn [fst]. now apply bij_publish.
  - destruct (s_room s); [|exact B]. cbn [fst]. now apply bij_publish.
  - destruct (s_room s); [|exact B]. cbn [fst]. now apply bij_publish.
Qed.

Lemma bij_recv_event h x m sender co re t : Bij h -> Bij (fst (recv_event h x m sender co re t)).
Proof.
  intros B. unfold recv_event. destruct (get_sess h x) as [s|]; [|exact B].
  destruct (N.eqb sender x && negb (N.eqb sender 0)); [exact B|].
  destruct (co && negb (in_call h x s)); [exact B|].
  match goal with |- context [if ?c then _ else _] => destruct c end; [exact B|]. now apply bij_send_session.
Qed.

Lemma bij_delete_member hh m : Bij hh -> Bij (fst (delete_member hh m)).
Proof.
  intros B. unfold delete_member. destruct (get_sess hh m) as [s|]; [|exact B].
  destruct (leave_room hh m true) as [h2 o1] eqn:Hl.
  assert (B2 : Bij h2) by (rewrite (fst_eq _ _ _ Hl); now apply bij_leave_room).
  destruct (is_virtual (s_kind s)); [exact B2|].
  destruct (send_session h2 m (SRoom 0)) as [h3 o2] eqn:H3. cbn [fst]. rewrite (fst_eq _ _ _ H3). now apply bij_send_session.
Qed.

Lemma bij_set_rooms h v : Bij h -> Bij (set_rooms h v).
Proof. apply bij_ceq, ceq_eq; reflexivity. Qed.
Lemma bij_set_incall h k x on : Bij h -> Bij (set_incall h k x on).
Proof. apply bij_ceq, ceq_set_incall. Qed.
Lemma bij_leave_call h x : Bij h -> Bij (fst (leave_call h x)).
Proof. apply bij_equiv, equiv_leave_call. Qed.

Lemma bij_transient_update h k r del key val : Bij h -> Bij (fst (transient_update h k r del key val)).
Proof.
  intros B. unfold transient_update.
  assert (Hn : forall d m, Bij (fst (transient_notify h k r d m))).
  { intros d m. unfold transient_notify. apply wf_fold_sessions; [now apply bij_set_rooms|]. intros hh y. apply bij_send_session. }
  destruct (del || N.eqb val 0).
  - destruct (aget (r_transient r) key); [apply Hn|exact B].
  - destruct (aget (r_transient r) key) as [v|]; [destruct (N.eqb v val); [exact B|apply Hn]|apply Hn].
Qed.

Lemma bij_room_request h k q : Bij h -> Bij (fst (room_request h k q)).
Proof.
  intros B. unfold room_request. destruct (room_of h k) as [r|] eqn:Hroom; [|exact B].
  destruct q as [|users rs|tag|l|l|ic|tag|ok|del key val]; [| | | | | | |exact B|now apply bij_transient_update].
  - match goal with |- context [fold_sessions h ?int ?f] => set (internals := int); set (g := f) end.
    destruct (fold_sessions h internals g) as [h0 o0] eqn:H0.
    assert (B0 : Bij h0).
    { rewrite (fst_eq _ _ _ H0). apply wf_fold_sessions; [exact B|]. intros hh y. apply bij_send_session. }
    set (h1 := set_rooms h0 (pdel (h_rooms h0) k)).
    destruct (fold_sessions h1 (r_members r) delete_member) as [h9 o9] eqn:H9. cbn [fst].
    rewrite (fst_eq _ _ _ H9). apply wf_fold_sessions; [now apply bij_set_rooms|]. intros hh y. apply bij_delete_member.
  - exact B.
  - destruct (N.eqb (r_props r) (tag + 1)); [exact B|]. cbn [fst]. now apply bij_publish, bij_set_rooms.
  - cbn [fst]. now apply bij_publish.
  - match goal with |- context [fold_left ?f l (h, [])] => set (g := f) end.
    assert (Hg : Bij (fst (fold_left g l (h, [])))).
    { assert (G : forall acc, Bij (fst acc) -> Bij (fst (fold_left g l acc))).
      { induction l as [|u l IH]; intros acc Hacc; cbn [fold_left]; [exact Hacc|]. apply IH.
        destruct acc as [hh oo]. cbn [fst] in Hacc. unfold g. destruct u as [[i icv] pm].
        destruct i as [n|y|kk|n]; try exact Hacc.
        destruct (get_sess hh y); [|exact Hacc].
        destruct (N.testbit icv 0); [cbn [fst]; now apply bij_set_incall|].
        destruct (leave_call (set_incall hh k y false) y) as [h2 o2] eqn:H2. cbn [fst].
        rewrite (fst_eq _ _ _ H2). now apply bij_leave_call, bij_set_incall. }
      apply G. exact B. }
    destruct (fold_left g l (h, [])) as [h1 outs]. cbn [fst] in *. now apply bij_publish.
  - destruct (N.testbit ic 0).
    + match goal with |- context [filter ?f (filter ?g0 (r_members r))] => set (fresh := filter f (filter g0 (r_members r))); set (joiners := filter g0 (r_members r)) end.
      destruct fresh; [exact B|].
      apply wf_fold_sessions; [|intros hh y; apply bij_send_session].
      apply wf_fold_left_hub; [exact B|]. intros hh y. apply bij_set_incall.
    + destruct (r_incall r) eqn:Hic; [exact B|].
      set (h1 := set_rooms h (pset (h_rooms h) k (mkroom (r_members r) [] (r_sessdata r) (r_transient r) (r_props r)))).
      assert (B1 : Bij h1) by (now apply bij_set_rooms).
      match goal with |- context [fold_sessions h1 ?lv leave_call] => destruct (fold_sessions h1 lv leave_call) as [h2 o1] eqn:H2 end.
      assert (B2 : Bij h2).
      { rewrite (fst_eq _ _ _ H2). apply wf_fold_sessions; [exact B1|]. intros hh y. apply bij_leave_call. }
      match goal with |- context [fold_sessions h2 ?lv ?f] => destruct (fold_sessions h2 lv f) as [h3 o2] eqn:H3 end.
      cbn [fst]. rewrite (fst_eq _ _ _ H3). apply wf_fold_sessions; [exact B2|]. intros hh y. apply bij_send_session.
  - cbn [fst]. now apply bij_publish.
Qed.

Lemma bij_revoke h x : Bij h -> Bij (fst (revoke h x)).
Proof. apply bij_equiv, equiv_revoke. Qed.

Lemma bij_deliver_pub h p : Bij h -> Bij (fst (deliver_pub h p)).
Proof.
  intros B. unfold deliver_pub.
  destruct (p_subj p) as [b r|b r|b u|x|]; destruct (p_msg p) as [m sender co|m|sj internal|pm| |q]; try exact B.
  - apply wf_fold_sessions; [exact B|]. intros hh y. apply bij_recv_event.
  - apply wf_fold_sessions; [exact B|]. intros hh y. apply bij_recv_event.
  - destruct (room_of h (b, r)) as [rm|]; [|exact B].
    match goal with |- context [match ?o with [] => _ | _ => _ end] => destruct o end; [exact B|]. cbn [fst].
    apply wf_fold_left_hub; [now apply bij_publish|].
    intros hh y Hhh. destruct (get_sess hh y) as [sx|]; [|exact Hhh].
    destruct (is_virtual (s_kind sx) && negb (N.eqb (s_flags sx) 0)); [|exact Hhh]. now apply bij_publish.
  - now apply bij_room_request.
  - apply wf_fold_sessions; [exact B|]. intros hh y. apply bij_recv_event.
  - destruct (get_sess h x) as [s|]; [|exact B]. destruct (is_virtual (s_kind s)); [exact B|]. now apply bij_recv_event.
  - destruct (get_sess h x) as [s|]; [|exact B]. destruct (is_virtual (s_kind s)); [exact B|]. now apply bij_recv_event.
  - destruct (get_sess h x) as [s|] eqn:Hs; [|exact B]. destruct (is_virtual (s_kind s)); [exact B|].
    apply bij_revoke. apply (bij_ceq h); [|exact B]. apply ceq_put with s; [exact Hs|now left].
  - destruct (get_sess h x) as [s|]; [|exact B]. destruct (is_virtual (s_kind s)); [exact B|].
    destruct (leave_room h x false) as [h1 o1] eqn:H1.
    destruct (send_session h1 x (SBye B_room_session_reconnected)) as [h2 o2] eqn:H2.
    destruct (close_session h2 x) as [h3 o3] eqn:H3. cbn [fst].
    rewrite (fst_eq _ _ _ H3). apply bij_close_session. rewrite (fst_eq _ _ _ H2). apply bij_send_session.
    rewrite (fst_eq _ _ _ H1). now apply bij_leave_room.
Qed.

Lemma bij_deliver_at h pos : Bij h -> Bij (fst (deliver_at h pos)).
Proof.
  intros B. unfold deliver_at. destruct (take_nth pos (h_bus h)) as [[p rest]|]; [|exact B].
  apply bij_deliver_pub. apply (bij_ceq h); [apply ceq_eq; reflexivity|exact B].
Qed.

Lemma bij_do_api h b room q : Bij h -> Bij (fst (do_api h b room q)).
Proof.
  intros B. unfold do_api.
  destruct q as [|users rs|tag|l|l|ic|tag|ok|del key val]; cbn [fst]; try (now apply bij_publish).
  - apply wf_fold_left_hub.
    + apply wf_fold_left_hub; [exact B|]. intros hh y Hhh. now apply bij_publish.
    + intros hh y Hhh. destruct (aget (h_rs2 hh) (1000000 + y)); [now apply bij_publish|exact Hhh].
  - match goal with |- context [match ?o with [] => _ | _ => _ end] => destruct o end; cbn [fst]; [exact B|].
    apply bij_publish. apply wf_fold_left_hub; [exact B|].
    intros hh [[i icv] pm] Hhh. destruct i; try exact Hhh. destruct pm; [now apply bij_publish|exact Hhh].
  - match goal with |- context [match ?o with [] => _ | _ => _ end] => destruct o end; cbn [fst]; [exact B|now apply bij_publish].
  - (* dial-out *)
    destruct ok; cbn [negb fst]; [|exact B]. destruct (dialout_session h b) as [x|]; [|exact B].
    destruct (send_session h x (SDialout room)) as [h1 o1] eqn:H1. cbn [fst]. apply bij_publish.
    rewrite (fst_eq _ _ _ H1). now apply bij_send_session.
Qed.

Lemma bij_do_tick h secs : Bij h -> Bij (fst (do_tick h secs)).
Proof.
  intros B. unfold do_tick.
  match goal with |- context [let '(h1, o1) := ?X in _] => destruct X as [h1 o1] eqn:H1 end.
  assert (B1 : Bij h1).
  { destruct (hub_expire_s <? secs); [|injection H1 as <- <-; exact B].
    rewrite (fst_eq _ _ _ H1). apply wf_fold_sessions; [exact B|]. intros hh y. apply bij_close_session. }
  match goal with |- context [let '(h2, o2) := ?X in _] => destruct X as [h2 o2] eqn:H2 end.
  assert (B2 : Bij h2).
  { destruct (hub_anonymous_s <? secs); [|injection H2 as <- <-; exact B1].
    rewrite (fst_eq _ _ _ H2). apply wf_fold_sessions; [exact B1|]. intros hh y Bh.
    destruct (get_sess hh y) as [s|]; [|exact Bh].
    match goal with |- context [let '(h3, o3) := ?X in _] => destruct X as [h3 o3] eqn:H3 end.
    assert (B3 : Bij h3).
    { destruct (s_conn s); [|injection H3 as <- <-; exact Bh]. rewrite (fst_eq _ _ _ H3). now apply bij_send_conn. }
    destruct (close_session h3 y) as [h4 o4] eqn:H4. cbn [fst]. rewrite (fst_eq _ _ _ H4). now apply bij_close_session. }
  match goal with |- context [let '(h3, o3) := ?X in _] => destruct X as [h3 o3] eqn:H3 end.
  cbn [fst]. destruct (hub_hello_s <? secs); [|injection H3 as <- <-; exact B2].
  rewrite (fst_eq _ _ _ H3). apply wf_fold_sessions; [exact B2|]. intros hh y. apply bij_send_conn.
Qed.

Lemma bij_finish_create h tok p ok : Bij h -> Bij (fst (finish_create h tok p ok)).
Proof. apply bij_equiv, equiv_finish_create. Qed.
Lemma bij_start_create h p : Bij h -> Bij (fst (start_create h p)).
Proof. apply bij_equiv, equiv_start_create. Qed.
Lemma bij_do_mcudone h tok ok : Bij h -> Bij (fst (do_mcudone h tok ok)).
Proof. apply bij_equiv, equiv_do_mcudone. Qed.
Lemma bij_do_media h c x s to mk stream media : get_sess h x = Some s -> Bij h -> Bij (fst (do_media h c x s to mk stream media)).
Proof. intros Hs. apply bij_equiv, equiv_do_media, Hs. Qed.

(* ------------------------------------------------------------------ the invariants threaded through one op *)
Definition TI (h : hub) : Prop := Ten h /\ Bij h.
Lemma ti_next h h' : TI h -> shr h h' -> Bij h' -> TI h'.
Proof. intros [T _] S B. split; [eapply ten_shr; eauto|exact B]. Qed.

(* noconn and the noconn_* lemmas of the closing functions: proofs/Hub_pending.v *)
Lemma noconn_ok b oc h o : noconn o -> outs_ok b oc h o.
Proof. intros Hn c m Hin. exfalso. eapply Hn; eauto. Qed.
Lemma loc_noconn b oc h r : Fr b oc h (fst r) -> noconn (snd r) -> Loc b oc h r.
Proof. intros F Hn. split; [exact F|now apply noconn_ok]. Qed.

(* ------------------------------------------------------------------ frames of the functions that send nothing *)
Lemma bsid_put b h x s' y : s_backend s' = b -> bsid b h y -> bsid b (put_sess h x s') y.
Proof. intros Hb Hy t Ht. rewrite gp in Ht. destruct (N.eqb y x); [injection Ht as <-; exact Hb|now apply Hy]. Qed.

Lemma bsid_put_same b h x s' : s_backend s' = b -> bsid b (put_sess h x s') x.
Proof. intros Hb t Ht. rewrite gp_same in Ht. injection Ht as <-. exact Hb. Qed.

Lemma fr_close_tokens b oc h toks : Fr b oc h (fst (close_tokens h toks)).
Proof. unfold close_tokens. cbn [fst]. apply fr_eq; reflexivity. Qed.
Lemma fr_release_mcu b oc h x : bsid b h x -> Fr b oc h (fst (release_mcu h x)).
Proof.
  intros Hx. unfold release_mcu. destruct (get_sess h x) as [s|] eqn:Hs; [|apply fr_refl].
  assert (Hb : s_backend s = b) by now apply Hx.
  eapply fr_trans; [|apply fr_close_tokens]. apply fr_put with s; auto.
Qed.
Lemma fr_revoke b oc h x : bsid b h x -> Fr b oc h (fst (revoke h x)).
Proof.
  intros Hx. unfold revoke. destruct (get_sess h x) as [s|] eqn:Hs; [|apply fr_refl].
  assert (Hb : s_backend s = b) by now apply Hx.
  eapply fr_trans; [|apply fr_close_tokens]. apply fr_put with s; auto.
Qed.
Lemma fr_leave_call b oc h x : bsid b h x -> Fr b oc h (fst (leave_call h x)).
Proof.
  intros Hx. unfold leave_call. destruct (get_sess h x) as [s|]; [|apply fr_refl].
  destruct (s_kind s); destruct (s_room s); try apply fr_refl; now apply fr_release_mcu.
Qed.

Lemma pub_ok_room b h k m t : fst k = b -> (match m with ARoomReq _ | ASessionJoined _ _ => False | _ => True end) ->
  pub_ok b h (mkpub (SubjRoom (fst k) (snd k)) m t).
Proof. intros Hk Hm. split; cbn; [exact Hk|]. destruct m; try exact I; contradiction. Qed.

Lemma fr_room_remove b oc h k x : fst k = b -> Fr b oc h (room_remove h k x).
Proof.
  intros Hk. unfold room_remove. destruct (room_of h k) as [r|] eqn:Hr; [|apply fr_refl].
  destruct (nmem x (r_members r)); [|apply fr_refl].
  eapply fr_trans; [|apply fr_publish; now apply pub_ok_room].
  match goal with |- Fr _ _ _ (remove_room_if_empty ?hh _) => apply fr_trans with hh end; [now apply fr_set_room|].
  unfold remove_room_if_empty. match goal with |- context [room_of ?hh k] => destruct (room_of hh k) as [r1|] end; [|apply fr_refl].
  destruct (r_members r1); [|apply fr_refl]. now apply fr_del_room.
Qed.

Lemma fr_rs_set b oc h x rs : Fr b oc h (rs_set h x rs).
Proof. apply fr_eq; [apply rs_set_sessions|apply rs_set_rooms|apply rs_set_bus]. Qed.

Lemma fr_leave_room b oc h x notify : Ten h -> bsid b h x -> Fr b oc h (fst (leave_room h x notify)).
Proof.
  intros T Hx. unfold leave_room. destruct (get_sess h x) as [s|] eqn:Hs; [|apply fr_refl].
  destruct (s_room s) as [k|] eqn:Hk; [|apply fr_refl].
  assert (Hb : s_backend s = b) by now apply Hx.
  assert (Hkb : fst k = b) by (rewrite <- Hb; apply (t_room h T x s k Hs Hk)).
  assert (Hs1 : get_sess (rs_del h x) x = Some s) by (unfold get_sess; now rewrite rs_del_sessions).
  destruct (is_virtual (s_kind s)).
  - cbn [fst]. eapply fr_trans; [apply (fr_rs_set b oc h x 0)|].
    eapply fr_trans; [|now apply fr_room_remove]. apply fr_put with s; auto.
  - match goal with |- context [release_mcu ?hh x] => destruct (release_mcu hh x) as [h3 o2] eqn:Hr end. cbn [fst].
    eapply fr_trans; [apply (fr_rs_set b oc h x 0)|].
    eapply fr_trans; [|now apply fr_room_remove].
    eapply fr_trans; [|rewrite (fst_eq _ _ _ Hr); apply fr_release_mcu; apply bsid_put_same; exact Hb].
    apply fr_put with s; auto.
Qed.

Lemma fr_close_one b oc h x : Ten h -> bsid b h x -> Fr b oc h (fst (close_one h x)).
Proof.
  intros T Hx. destruct (get_sess h x) as [s|] eqn:Hs; [|rewrite (close_one_dead h x Hs); apply fr_refl].
  rewrite (close_one_eq h x s Hs).
  assert (F1 : Fr b oc h (fst (leave_room h x true))) by now apply fr_leave_room.
  assert (X1 : bsid b (fst (leave_room h x true)) x) by (eapply bsid_fr; eauto).
  assert (F2 : Fr b oc (fst (leave_room h x true)) (fst (release_mcu (fst (leave_room h x true)) x))) by now apply fr_release_mcu.
  eapply fr_trans; [exact F1|]. eapply fr_trans; [exact F2|].
  apply fr_adel with x; [apply after_close_sessions|apply after_close_rooms|apply after_close_bus|eapply bsid_fr; eauto].
Qed.

Definition kids_ok (b : N) (h : hub) (x : N) : Prop := forall k, In k (children h x) -> bsid b h k.
Lemma kids_live b h x s : Ten h -> get_sess h x = Some s -> s_backend s = b -> kids_ok b h x.
Proof.
  intros T Hs Hb k Hk t Ht. apply in_children in Hk as (_ & sk & v & Hsk & Hkd).
  rewrite Hsk in Ht. injection Ht as <-. rewrite <- Hb. symmetry. apply (t_parent h T k sk x v Hsk Hkd s Hs).
Qed.
(* the parent is gone already: its virtual sessions are those it had at the start of the op *)
Lemma kids_shr b h0 h x s : Ten h0 -> shr h0 h -> get_sess h0 x = Some s -> s_backend s = b -> kids_ok b h x.
Proof.
  intros T S Hs Hb k Hk t Ht. apply in_children in Hk as (_ & sk & v & Hsk & Hkd).
  rewrite Hsk in Ht. injection Ht as <-. destruct (sh_sess _ _ S k sk Hsk) as (sk0 & Hsk0 & Hbk & Hkk & _).
  rewrite Hbk, <- Hb. symmetry. apply (t_parent h0 T k sk0 x v Hsk0); [congruence|exact Hs].
Qed.

Lemma fr_close_session b oc h x : Ten h -> bsid b h x -> kids_ok b h x -> Fr b oc h (fst (close_session h x)).
Proof.
  intros T Hx Hk. rewrite close_session_eq. cbn [fst].
  assert (F1 : Fr b oc h (fst (close_one h x))) by now apply fr_close_one.
  eapply fr_trans; [exact F1|].
  apply (loc_fold_sessions Ten b oc close_one).
  - apply (ten_shr h); [exact T|apply shr_close_one].
  - intros k Hin. eapply bsid_fr; [exact F1|now apply Hk].
  - intros hh y Th Hy. apply loc_noconn; [now apply fr_close_one|apply noconn_close_one].
  - intros hh y Th. apply (ten_shr hh); [exact Th|apply shr_close_one].
Qed.

(* ------------------------------------------------------------------ closing a connection *)
(* the session attached to the connection is a session of b *)
Definition cb (b : N) (h : hub) (c : N) : Prop :=
  forall cn x, aget (h_conns h) c = Some cn -> c_sess cn = Some x -> exists s, get_sess h x = Some s /\ s_backend s = b.

Lemma cb_of_claim b h tid t c : Bij h -> get_sess h tid = Some t -> s_conn t = Some c -> s_backend t = b -> cb b h c.
Proof.
  intros B Ht Hc Hb cn x Hcn Hx. assert (A : attached h c tid) by (apply B; exists t; auto).
  assert (E : x = tid) by (apply (attached_fun h c); [exists cn; auto|exact A]). subst x. eauto.
Qed.

Lemma loc_close_conn b oc h c : TI h -> cb b h c -> Loc b oc h (close_conn h c).
Proof.
  intros [T B] Hcb. unfold close_conn. destruct (aget (h_conns h) c) as [cn|] eqn:Hc; [|apply loc_ret].
  destruct (c_sess cn) as [x|] eqn:Hx.
  - destruct (Hcb cn x Hc Hx) as (s & Hs & Hb).
    fold (conn_gone h c x).
    assert (Hg : conn_gone h c x = put_sess (set_conns h (adel (h_conns h) c)) x (sess_conn s None)).
    { unfold conn_gone. change (get_sess (set_conns h (adel (h_conns h) c)) x) with (get_sess h x). now rewrite Hs. }
    assert (F1 : Fr b oc h (conn_gone h c x)).
    { rewrite Hg. eapply fr_trans; [apply (fr_eq b oc h (set_conns h (adel (h_conns h) c))); reflexivity|].
      apply fr_put with s; auto. }
    assert (S1 : shr h (conn_gone h c x)).
    { rewrite Hg. eapply shr_trans; [apply (shr_eq h (set_conns h (adel (h_conns h) c))); reflexivity|].
      apply shr_put with s; [exact Hs|now apply keeps_same]. }
    assert (T1 : Ten (conn_gone h c x)) by (eapply ten_shr; eauto).
    assert (Hs1 : get_sess (conn_gone h c x) x = Some (sess_conn s None)) by (rewrite Hg; apply gp_same).
    pose proof (fr_close_session b oc (conn_gone h c x) x T1) as F2.
    pose proof (noconn_close_session (conn_gone h c x) x) as N2.
    destruct (close_session (conn_gone h c x) x) as [h3 outs]. cbn [fst snd] in *. split; cbn [fst snd].
    + eapply fr_trans; [exact F1|]. apply F2.
      * intros t Ht. rewrite Hs1 in Ht. injection Ht as <-. exact Hb.
      * apply (kids_live b _ x (sess_conn s None)); auto.
    + apply outs_ok_cons_other; [intros; discriminate|now apply noconn_ok].
  - split; cbn [fst snd]; [apply fr_eq; reflexivity|]. apply outs_ok_cons_other; [intros; discriminate|apply outs_ok_nil].
Qed.

(* ------------------------------------------------------------------ sending *)
Lemma loc_deliver_to_session b oc h x m : bsid b h x -> Loc b oc h (deliver_to_session h x m).
Proof.
  intros Hx. unfold deliver_to_session. destruct (get_sess h x) as [s|] eqn:Hs; [|apply loc_ret].
  assert (Hb : s_backend s = b) by now apply Hx.
  match goal with |- context [let '(m', s1) := ?X in _] => destruct X as [m' s1] eqn:HX end.
  assert (K : s_backend s1 = b /\ s_conn s1 = s_conn s).
  { destruct m; try (injection HX as <- <-; auto).
    destruct (filter_seen (s_seen s) l) as [keep seen']. injection HX as <- <-. auto. }
  destruct K as [Kb Kc].
  destruct m' as [mm|].
  - destruct (s_conn s1) as [c|] eqn:Hc.
    + split; cbn [fst snd]; [apply fr_put with s; auto; left; congruence|].
      apply outs_ok_cons_b; [|apply outs_ok_nil]. exists x, s. split; [exact Hs|]. split; [exact Hb|congruence].
    + apply loc_fr. apply fr_put with s; auto; left; cbn; congruence.
  - apply loc_fr. apply fr_put with s; auto.
Qed.

Lemma deliver_out_claims h x m h1 c mm : deliver_to_session h x m = (h1, [ToConn c mm]) ->
  exists t, get_sess h1 x = Some t /\ s_conn t = Some c /\ exists t0, get_sess h x = Some t0 /\ s_backend t = s_backend t0.
Proof.
  unfold deliver_to_session. destruct (get_sess h x) as [s|] eqn:Hs; [|intros H; discriminate].
  match goal with |- context [let '(m', s1) := ?X in _] => destruct X as [m' s1] eqn:HX end.
  assert (K : s_backend s1 = s_backend s).
  { destruct m; try (injection HX as <- <-; auto).
    destruct (filter_seen (s_seen s) l) as [keep seen']. injection HX as <- <-. auto. }
  destruct m' as [mm'|]; [|intros H; discriminate].
  destruct (s_conn s1) as [c'|] eqn:Hc; [|intros H; discriminate].
  intros H. injection H as <- <- <-. exists s1. split; [apply gp_same|]. split; [exact Hc|]. exists s. auto.
Qed.

Lemma ti_deliver_to_session h x m : TI h -> TI (fst (deliver_to_session h x m)).
Proof. intros TIh. apply (ti_next h); [exact TIh|apply shr_deliver_to_session|apply bij_deliver_to_session, TIh]. Qed.

Lemma loc_send_session b oc h x m : TI h -> bsid b h x -> Loc b oc h (send_session h x m).
Proof.
  intros TIh Hx. unfold send_session.
  match goal with |- context [deliver_to_session h ?t m] => set (target := t) end.
  assert (Ht : bsid b h target).
  { unfold target. destruct (get_sess h x) as [s|] eqn:Hs; [|exact Hx].
    destruct (s_kind s) as [| |p v] eqn:Hk; try exact Hx.
    rewrite <- (Hx s Hs). apply (t_parent h (proj1 TIh) x s p v Hs Hk). }
  pose proof (loc_deliver_to_session b oc h target m Ht) as L1.
  pose proof (ti_deliver_to_session h target m TIh) as TI1.
  destruct (deliver_to_session h target m) as [h1 outs] eqn:Hd. cbn [fst] in TI1.
  destruct outs as [|[c mm| | |] [|o2 outs2]]; try exact L1.
  destruct (is_closing h1 c mm); [|exact L1].
  destruct (deliver_out_claims h target m h1 c mm Hd) as (t & Ht1 & Hc1 & t0 & Ht0 & Hbt).
  assert (L2 : Loc b oc h1 (close_conn h1 c)).
  { apply loc_close_conn; [exact TI1|]. apply (cb_of_claim b h1 target t c); [apply TI1|exact Ht1|exact Hc1|].
    rewrite Hbt. now apply Ht. }
  destruct (close_conn h1 c) as [h2 outs2]. apply (loc_bind b oc h (h1, [ToConn c mm]) (h2, outs2)); assumption.
Qed.

Lemma loc_send_conn b oc h c m : TI h -> Some c = oc \/ bconn b h c -> cb b h c -> Loc b oc h (send_conn h c m).
Proof.
  intros TIh Hc Hcb. unfold send_conn. destruct (aget (h_conns h) c); [|apply loc_ret].
  assert (O : outs_ok b oc h [ToConn c m]).
  { destruct Hc as [Hc|Hc]; [apply outs_ok_cons_own|apply outs_ok_cons_b]; auto; apply outs_ok_nil. }
  destruct (is_closing h c m); [|split; [apply fr_refl|exact O]].
  pose proof (loc_close_conn b oc h c TIh Hcb) as [F2 O2]. destruct (close_conn h c) as [h2 outs2]. cbn [fst snd] in *.
  split; cbn [fst snd]; [exact F2|]. apply (outs_ok_app b oc h [ToConn c m] outs2); assumption.
Qed.

Lemma ti_send_session h x m : TI h -> TI (fst (send_session h x m)).
Proof. intros TIh. apply (ti_next h); [exact TIh|apply shr_send_session|apply bij_send_session, TIh]. Qed.
Lemma ti_send_conn h c m : TI h -> TI (fst (send_conn h c m)).
Proof. intros TIh. apply (ti_next h); [exact TIh|apply shr_send_conn|apply bij_send_conn, TIh]. Qed.
Lemma ti_leave_room h x n : TI h -> TI (fst (leave_room h x n)).
Proof. intros TIh. apply (ti_next h); [exact TIh|apply shr_leave_room|apply bij_leave_room, TIh]. Qed.
Lemma ti_close_session h x : TI h -> TI (fst (close_session h x)).
Proof. intros TIh. apply (ti_next h); [exact TIh|apply shr_close_session|apply bij_close_session, TIh]. Qed.

Lemma leave_room_keeps h x n s : get_sess h x = Some s ->
  exists s1, get_sess (fst (leave_room h x n)) x = Some s1 /\ s_conn s1 = s_conn s /\ s_kind s1 = s_kind s /\ s_backend s1 = s_backend s.
Proof.
  intros Hs. pose proof (leave_room_core h x n x) as Hq. rewrite N.eqb_refl, Hs in Hq.
  destruct (get_sess (fst (leave_room h x n)) x) as [s1|] eqn:H1.
  - exists s1. split; [reflexivity|]. destruct (sh_sess _ _ (shr_leave_room h x n) x s1 H1) as (s0 & Hs0 & Hb & Hk & _).
    rewrite Hs in Hs0. injection Hs0 as <-. cbn in Hq. unfold core, unroomed in Hq.
    destruct (s_room s); inversion Hq; auto.
  - cbn in Hq. destruct (s_room s); discriminate.
Qed.

Lemma ti_close_conn h c : TI h -> TI (fst (close_conn h c)).
Proof. intros TIh. apply (ti_next h); [exact TIh|apply shr_close_conn|apply bij_close_conn, TIh]. Qed.

(* closing a session of b that may have been closed already by the bye just written *)
Lemma loc_bye_close b oc h0 h x s0 :
  Ten h0 -> shr h0 h -> get_sess h0 x = Some s0 -> s_backend s0 = b -> TI h -> bsid b h x ->
  Loc b oc h (close_session h x).
Proof.
  intros T0 S Hs0 Hb0 TIh Hx. apply loc_noconn; [|apply noconn_close_session].
  apply fr_close_session; [apply TIh|exact Hx|]. apply (kids_shr b h0 h x s0); auto.
Qed.

Lemma loc_kick b oc h rs : TI h -> (forall x, aget (h_rs2 h) rs = Some x -> bsid b h x) ->
  Loc b oc h (kick_room_session h rs).
Proof.
  intros TIh Hrs. unfold kick_room_session. destruct (aget (h_rs2 h) rs) as [x|]; [|apply loc_ret].
  specialize (Hrs x eq_refl).
  destruct (get_sess h x) as [s'|] eqn:Hs.
  2:{ apply loc_fr. apply fr_publish. split; cbn; [|exact I]. intros t Ht. congruence. }
  assert (Hb : s_backend s' = b) by now apply Hrs.
  pose proof (fr_leave_room b oc h x false (proj1 TIh) Hrs) as F1.
  pose proof (noconn_leave_room h x false) as N1.
  pose proof (ti_leave_room h x false TIh) as TI1.
  pose proof (shr_leave_room h x false) as S1.
  destruct (leave_room_keeps h x false s' Hs) as (s1 & Hs1 & Hc1 & Hk1 & Hb1).
  destruct (leave_room h x false) as [h1 o1]. cbn [fst snd] in *.
  assert (L1 : Loc b oc h (h1, o1)) by (split; [exact F1|now apply noconn_ok]).
  assert (L2 : Loc b oc h1 (match s_kind s', s_conn s' with
                            | KVirtual _ _, _ => (h1, [])
                            | _, Some c' => send_conn h1 c' (SBye B_room_session_reconnected)
                            | _, None => (h1, []) end) /\
               TI (fst (match s_kind s', s_conn s' with
                            | KVirtual _ _, _ => (h1, [])
                            | _, Some c' => send_conn h1 c' (SBye B_room_session_reconnected)
                            | _, None => (h1, []) end)) /\
               shr h1 (fst (match s_kind s', s_conn s' with
                            | KVirtual _ _, _ => (h1, [])
                            | _, Some c' => send_conn h1 c' (SBye B_room_session_reconnected)
                            | _, None => (h1, []) end))).
  { assert (G : forall c', s_conn s' = Some c' -> Loc b oc h1 (send_conn h1 c' (SBye B_room_session_reconnected))).
    { intros c' Hc'. apply loc_send_conn; [exact TI1| |].
      - right. exists x, s1. split; [exact Hs1|]. split; congruence.
      - apply (cb_of_claim b h1 x s1 c'); [apply TI1|exact Hs1|congruence|congruence]. }
    destruct (s_kind s') as [| |p v]; destruct (s_conn s') as [c'|];
      try (split; [apply loc_ret|split; [exact TI1|apply shr_refl]]);
      (split; [now apply G|split; [now apply ti_send_conn|apply shr_send_conn]]). }
  destruct L2 as (L2 & TI2 & S2).
  match goal with |- context [let '(h2, outs2) := ?X in _] => destruct X as [h2 o2] end. cbn [fst] in *.
  assert (L12 : Loc b oc h (h2, o1 ++ o2)) by (apply (loc_bind b oc h (h1, o1) (h2, o2)); assumption).
  assert (L3 : Loc b oc h2 (close_session h2 x)).
  { apply (loc_bye_close b oc h h2 x s'); auto; [apply TIh|eapply shr_trans; eauto|].
    eapply bsid_fr; [apply L12|exact Hrs]. }
  destruct (close_session h2 x) as [h3 o3].
  pose proof (loc_bind b oc h (h2, o1 ++ o2) (h3, o3) L12 L3) as L. cbn [fst snd] in L. now rewrite <- app_assoc in L.
Qed.

Lemma ti_kick h rs : TI h -> TI (fst (kick_room_session h rs)).
Proof. intros TIh. apply (ti_next h); [exact TIh|apply shr_kick|apply bij_kick, TIh]. Qed.

Lemma pub_ok_plain b h subj m t :
  match subj with
  | SubjRoom b' _ | SubjBackendRoom b' _ | SubjUser b' _ => b' = b
  | SubjSession sid => bsid b h sid
  | SubjNobody => True end ->
  match m with ARoomReq (AInCall _) | ASessionJoined _ _ => False | _ => True end ->
  pub_ok b h (mkpub subj m t).
Proof.
  intros H1 H2. split; cbn; [exact H1|]. destruct m as [| | | | |q]; try exact I; try contradiction. destruct q; try exact I. contradiction.
Qed.

Lemma loc_do_message b oc h x s kindn to tag :
  TI h -> get_sess h x = Some s -> s_backend s = b -> Loc b oc h (do_message h x s kindn to tag true).
Proof.
  intros TIh Hs Hb. unfold do_message.
  assert (Hnobody : forall m, Loc b oc h (publish h SubjNobody (AEvent m x false), [])).
  { intros m. apply loc_fr, fr_publish. now apply pub_ok_plain. }
  destruct to as [i|u| |].
  - destruct i as [n|n|k|n]; try apply Hnobody.
    destruct (get_sess h n) as [t|] eqn:Ht; [|apply Hnobody].
    cbn [andb]. destruct (N.eqb_spec (s_backend t) (s_backend s)) as [Hbt|]; [|apply loc_ret]. cbn [negb].
    destruct (N.eqb n x); [apply loc_ret|].
    destruct (s_kind t) as [| |p v] eqn:Hk.
    + apply loc_send_session; [exact TIh|]. intros t' Ht'. congruence.
    + apply loc_send_session; [exact TIh|]. intros t' Ht'. congruence.
    + apply loc_send_session; [exact TIh|]. rewrite <- Hb, <- Hbt. apply (t_parent h (proj1 TIh) n t p v Ht Hk).
  - destruct (N.eqb u 0); [apply loc_ret|]. destruct (N.eqb u (sess_userid h x s)); [apply loc_ret|].
    apply loc_fr, fr_publish. now apply pub_ok_plain.
  - destruct (s_room s) as [k|] eqn:Hk; [|apply loc_ret].
    apply loc_fr, fr_publish. apply pub_ok_plain; [|exact I]. rewrite <- Hb. apply (t_room h (proj1 TIh) x s k Hs Hk).
  - destruct (s_room s) as [k|] eqn:Hk; [|apply loc_ret].
    apply loc_fr, fr_publish. apply pub_ok_plain; [|exact I]. rewrite <- Hb. apply (t_room h (proj1 TIh) x s k Hs Hk).
Qed.

Lemma loc_recv_event b oc h x m sender co re t : TI h -> bsid b h x -> Loc b oc h (recv_event h x m sender co re t).
Proof.
  intros TIh Hx. unfold recv_event. destruct (get_sess h x) as [s|]; [|apply loc_ret].
  destruct (N.eqb sender x && negb (N.eqb sender 0)); [apply loc_ret|].
  destruct (co && negb (in_call h x s)); [apply loc_ret|].
  match goal with |- context [if ?c then _ else _] => destruct c end; [apply loc_ret|]. now apply loc_send_session.
Qed.
Lemma ti_recv_event h x m sender co re t : TI h -> TI (fst (recv_event h x m sender co re t)).
Proof. intros TIh. apply (ti_next h); [exact TIh|apply shr_recv_event|apply bij_recv_event, TIh]. Qed.

Lemma loc_delete_member b oc hh m : TI hh -> bsid b hh m -> Loc b oc hh (delete_member hh m).
Proof.
  intros TIh Hm. unfold delete_member. destruct (get_sess hh m) as [s|]; [|apply loc_ret].
  pose proof (fr_leave_room b oc hh m true (proj1 TIh) Hm) as F1.
  pose proof (noconn_leave_room hh m true) as N1.
  pose proof (ti_leave_room hh m true TIh) as TI1.
  destruct (leave_room hh m true) as [h2 o1]. cbn [fst snd] in *.
  assert (L1 : Loc b oc hh (h2, o1)) by (split; [exact F1|now apply noconn_ok]).
  destruct (is_virtual (s_kind s)); [exact L1|].
  assert (L2 : Loc b oc h2 (send_session h2 m (SRoom 0))).
  { apply loc_send_session; [exact TI1|]. eapply bsid_fr; eauto. }
  destruct (send_session h2 m (SRoom 0)) as [h3 o2]. apply (loc_bind b oc hh (h2, o1) (h3, o2)); assumption.
Qed.
Lemma ti_delete_member hh m : TI hh -> TI (fst (delete_member hh m)).
Proof. intros TIh. apply (ti_next hh); [exact TIh|apply shr_delete_member|apply bij_delete_member, TIh]. Qed.

(* ------------------------------------------------------------------ room requests *)
Lemma fr_set_incall b oc h k x on : fst k = b -> Fr b oc h (set_incall h k x on).
Proof.
  intros Hk. unfold set_incall. destruct (room_of h k) as [r|]; [|apply fr_refl].
  destruct (on && negb (nmem x (r_members r))); [apply fr_refl|]. now apply fr_set_room.
Qed.
Lemma ti_set_rooms h v : (forall k r', pget v k = Some r' -> exists r, room_of h k = Some r /\ incl (r_members r') (r_members r)) ->
  TI h -> TI (set_rooms h v).
Proof. intros Hv TIh. apply (ti_next h); [exact TIh|now apply shr_rooms|apply bij_set_rooms, TIh]. Qed.
Lemma ti_set_incall h k x on : TI h -> TI (set_incall h k x on).
Proof. intros TIh. apply (ti_next h); [exact TIh|apply shr_set_incall|apply bij_set_incall, TIh]. Qed.
Lemma ti_leave_call h x : TI h -> TI (fst (leave_call h x)).
Proof. intros TIh. apply (ti_next h); [exact TIh|apply shr_leave_call|apply bij_leave_call, TIh]. Qed.
Lemma ti_publish h subj m : TI h -> TI (publish h subj m).
Proof. intros TIh. apply (ti_next h); [exact TIh|apply shr_publish|apply bij_publish, TIh]. Qed.

(* the update of the transient data of room k: by a session of the room (OTransient) or by a room request *)
Lemma transient_update_spec b oc h k r del key val : TI h -> room_of h k = Some r -> fst k = b ->
  TI (fst (transient_update h k r del key val)) /\ Loc b oc h (transient_update h k r del key val).
Proof.
  intros TIh Hr Hk. unfold transient_update.
  assert (Hl : forall x, In x (transient_listeners h r) -> bsid b h x).
  { intros x Hx. unfold transient_listeners in Hx. apply filter_In in Hx as [Hx _]. rewrite <- Hk.
    apply (t_member h (proj1 TIh) k r x Hr Hx). }
  assert (G : forall d m, TI (fst (transient_notify h k r d m)) /\ Loc b oc h (transient_notify h k r d m)).
  { intros d m. unfold transient_notify, room_set_transient.
    set (h1 := set_rooms h (pset (h_rooms h) k (mkroom (r_members r) (r_incall r) (r_sessdata r) d (r_props r)))).
    assert (F1 : Fr b oc h h1) by now apply fr_set_room.
    assert (TI1 : TI h1).
    { apply ti_set_rooms; [|exact TIh]. intros k' r' Hr'. rewrite pget_pset in Hr'. destruct (pair_eqb_spec k' k) as [->|Hne].
      - injection Hr' as <-. exists r. split; [exact Hr|apply incl_refl].
      - exists r'. split; [exact Hr'|apply incl_refl]. }
    split; [apply wf_fold_sessions; [exact TI1|]; intros hh x; apply ti_send_session|]. eapply loc_after_fr; [exact F1|].
    apply (loc_fold_sessions TI); [exact TI1| | |].
    - intros x Hx. eapply bsid_fr; [exact F1|now apply Hl].
    - intros hh x Th Hx. now apply loc_send_session.
    - intros hh x Th. now apply ti_send_session. }
  destruct (del || N.eqb val 0).
  - destruct (aget (r_transient r) key); [apply G|split; [exact TIh|apply loc_ret]].
  - destruct (aget (r_transient r) key) as [v0|]; [destruct (N.eqb v0 val); [split; [exact TIh|apply loc_ret]|]|]; apply G.
Qed.

Definition req_ok (b : N) (h : hub) (q : apireq) : Prop :=
  match q with
  | AInCall l => forall i ic pm, In (i, ic, pm) l -> match i with IdPub sid => bsid b h sid | _ => True end
  | _ => True
  end.

Lemma loc_room_request b oc h k q :
  TI h -> fst k = b -> (forall r, room_of h k = Some r -> incl (r_incall r) (r_members r)) -> req_ok b h q ->
  Loc b oc h (room_request h k q).
Proof.
  intros TIh Hk Hinc Hq. unfold room_request. destruct (room_of h k) as [r|] eqn:Hroom; [|apply loc_ret].
  assert (Hmem : forall m, In m (r_members r) -> bsid b h m).
  { intros m Hm. rewrite <- Hk. apply (t_member h (proj1 TIh) k r m Hroom Hm). }
  assert (Hpub : forall hh m, match m with ARoomReq (AInCall _) | ASessionJoined _ _ => False | _ => True end ->
                   Fr b oc hh (publish hh (SubjRoom (fst k) (snd k)) m)).
  { intros hh m Hm. apply fr_publish. now apply pub_ok_plain. }
  destruct q as [|users rs|tag|l|l|ic|tag|ok|del key val];
    [| | | | | | |apply loc_ret|apply (transient_update_spec b oc h k r del key val TIh Hroom Hk)].
  - (* delete *)
    match goal with |- context [fold_sessions h ?int ?f] => set (internals := int); set (g := f) end.
    assert (L0 : Loc b oc h (fold_sessions h internals g)).
    { apply (loc_fold_sessions TI); [exact TIh| | |].
      - intros x Hx. apply Hmem. unfold internals in Hx. apply filter_In in Hx. apply Hx.
      - intros hh x Th Hx. now apply loc_send_session.
      - intros hh x Th. now apply ti_send_session. }
    assert (TI0 : TI (fst (fold_sessions h internals g))).
    { apply wf_fold_sessions; [exact TIh|]. intros hh x. apply ti_send_session. }
    destruct (fold_sessions h internals g) as [h0 o0]. cbn [fst] in TI0.
    set (h1 := set_rooms h0 (pdel (h_rooms h0) k)).
    assert (F1 : Fr b oc h0 h1) by now apply fr_del_room.
    assert (TI1 : TI h1).
    { apply ti_set_rooms; [|exact TI0]. intros k' r' Hr. rewrite pget_pdel in Hr. destruct (pair_eqb k' k); [discriminate|].
      exists r'. split; [exact Hr|apply incl_refl]. }
    assert (L9 : Loc b oc h1 (fold_sessions h1 (r_members r) delete_member)).
    { apply (loc_fold_sessions TI); [exact TI1| | |].
      - intros x Hx. eapply bsid_fr; [exact F1|]. eapply bsid_fr; [apply L0|]. now apply Hmem.
      - intros hh x Th Hx. now apply loc_delete_member.
      - intros hh x Th. now apply ti_delete_member. }
    destruct (fold_sessions h1 (r_members r) delete_member) as [h9 o9].
    apply (loc_bind b oc h (h0, o0) (h9, o9)); [exact L0|]. cbn [fst]. eapply loc_after_fr; eauto.
  - apply loc_ret.
  - destruct (N.eqb (r_props r) (tag + 1)); [apply loc_ret|]. apply loc_fr.
    eapply fr_trans; [apply (fr_set_room b oc h k); exact Hk|]. now apply Hpub.
  - apply loc_fr. now apply Hpub.
  - (* incall *)
    match goal with |- context [fold_left ?f l (h, [])] => set (g := f) end.
    assert (G : forall l' acc, incl l' l -> Fr b oc h (fst acc) -> noconn (snd acc) ->
                Fr b oc h (fst (fold_left g l' acc)) /\ noconn (snd (fold_left g l' acc))).
    { induction l' as [|u l' IH]; intros acc Hi Hf Hn; cbn [fold_left]; [auto|].
      apply IH; [intros y Hy; apply Hi; now right| |]; destruct acc as [hh oo]; cbn [fst snd] in *; unfold g;
        destruct u as [[i icv] pm]; destruct i as [n|y|kk|n]; auto;
        (assert (Hy : bsid b hh y) by (eapply bsid_fr; [exact Hf|]; apply (Hq (IdPub y) icv pm); apply Hi; now left));
        destruct (get_sess hh y); auto; destruct (N.testbit icv 0); cbn [fst snd]; auto.
      - eapply fr_trans; [exact Hf|now apply fr_set_incall].
      - pose proof (fr_leave_call b oc (set_incall hh k y false) y) as F2.
        destruct (leave_call (set_incall hh k y false) y) as [h2 o2]. cbn [fst] in *.
        eapply fr_trans; [exact Hf|]. eapply fr_trans; [now apply (fr_set_incall b oc hh k y false)|]. apply F2.
        eapply bsid_fr; [now apply (fr_set_incall b oc hh k y false)|exact Hy].
      - pose proof (noconn_leave_call (set_incall hh k y false) y) as N2.
        destruct (leave_call (set_incall hh k y false) y) as [h2 o2]. cbn [snd] in *. now apply noconn_app. }
    destruct (G l (h, []) (incl_refl l) (fr_refl b oc h) noconn_nil) as [F N].
    destruct (fold_left g l (h, [])) as [h1 outs]. cbn [fst snd] in *. split; cbn [fst snd].
    + eapply fr_trans; [exact F|now apply Hpub].
    + now apply noconn_ok.
  - (* incall for everybody *)
    destruct (N.testbit ic 0).
    + match goal with |- context [filter ?f (filter ?g0 (r_members r))] => set (fresh := filter f (filter g0 (r_members r))); set (joiners := filter g0 (r_members r)) end.
      destruct fresh as [|f0 fr0] eqn:Hfresh; [apply loc_ret|]. rewrite <- Hfresh.
      assert (F1 : Fr b oc h (fold_left (fun hh m => set_incall hh k m true) fresh h)).
      { apply fr_fold_left_hub. intros hh x _ _. now apply fr_set_incall. }
      assert (TI1 : TI (fold_left (fun hh m => set_incall hh k m true) fresh h)).
      { apply wf_fold_left_hub; [exact TIh|]. intros hh x. apply ti_set_incall. }
      eapply loc_after_fr; [exact F1|].
      apply (loc_fold_sessions TI); [exact TI1| | |].
      * intros x Hx. eapply bsid_fr; [exact F1|]. apply Hmem. unfold joiners in Hx. apply filter_In in Hx. apply Hx.
      * intros hh x Th Hx. now apply loc_send_session.
      * intros hh x Th. now apply ti_send_session.
    + destruct (r_incall r) as [|i0 ir0] eqn:Hic; [apply loc_ret|]. rewrite <- Hic.
      set (h1 := set_rooms h (pset (h_rooms h) k (mkroom (r_members r) [] (r_sessdata r) (r_transient r) (r_props r)))).
      assert (F1 : Fr b oc h h1) by now apply fr_set_room.
      assert (TI1 : TI h1).
      { apply ti_set_rooms; [|exact TIh]. intros k' r' Hr. rewrite pget_pset in Hr. destruct (pair_eqb_spec k' k) as [->|Hne].
        - injection Hr as <-. exists r. split; [exact Hroom|apply incl_refl].
        - exists r'. split; [exact Hr|apply incl_refl]. }
      assert (L2 : Loc b oc h1 (fold_sessions h1 (r_incall r) leave_call)).
      { apply (loc_fold_sessions TI); [exact TI1| | |].
        - intros x Hx. eapply bsid_fr; [exact F1|]. apply Hmem. now apply (Hinc r eq_refl).
        - intros hh x Th Hx. apply loc_noconn; [now apply fr_leave_call|apply noconn_leave_call].
        - intros hh x Th. now apply ti_leave_call. }
      assert (TI2 : TI (fst (fold_sessions h1 (r_incall r) leave_call))).
      { apply wf_fold_sessions; [exact TI1|]. intros hh x. apply ti_leave_call. }
      destruct (fold_sessions h1 (r_incall r) leave_call) as [h2 o1]. cbn [fst] in TI2.
      match goal with |- context [fold_sessions h2 ?lv ?f] => set (notify := lv); set (g := f) end.
      assert (L3 : Loc b oc h2 (fold_sessions h2 notify g)).
      { apply (loc_fold_sessions TI); [exact TI2| | |].
        - intros x Hx. eapply bsid_fr; [apply L2|]. eapply bsid_fr; [exact F1|]. apply Hmem.
          unfold notify in Hx. apply filter_In in Hx. apply Hx.
        - intros hh x Th Hx. now apply loc_send_session.
        - intros hh x Th. now apply ti_send_session. }
      destruct (fold_sessions h2 notify g) as [h3 o2].
      eapply loc_after_fr; [exact F1|]. apply (loc_bind b oc h1 (h2, o1) (h3, o2)); assumption.
  - apply loc_fr. now apply Hpub.
Qed.
Lemma ti_room_request h k q : TI h -> TI (fst (room_request h k q)).
Proof. intros TIh. apply (ti_next h); [exact TIh|apply shr_room_request|apply bij_room_request, TIh]. Qed.

(* ------------------------------------------------------------------ delivery of one publication *)
Lemma room_listeners_b b h k : Ten h -> fst k = b -> forall x, In x (room_listeners h k) -> bsid b h x.
Proof.
  intros T Hk x Hx t Ht. apply room_listener_spec in Hx as (s & Hin & _ & Hr).
  pose proof (aget_in_nodup _ x s (t_keys h T) Hin) as Hg. unfold get_sess in Ht. rewrite Hg in Ht. injection Ht as <-.
  rewrite <- Hk. symmetry. apply (t_room h T x s k); [exact Hg|exact Hr].
Qed.
Lemma user_listeners_b b h u : Ten h -> forall x, In x (user_listeners h b u) -> bsid b h x.
Proof.
  intros T x Hx t Ht. apply user_listener_spec in Hx as (s & Hin & _ & Hb & _).
  pose proof (aget_in_nodup _ x s (t_keys h T) Hin) as Hg. unfold get_sess in Ht. rewrite Hg in Ht. injection Ht as <-. exact Hb.
Qed.

Lemma loc_listeners b oc h l m sender co re t : TI h -> (forall x, In x l -> bsid b h x) ->
  Loc b oc h (fold_sessions h l (fun hh x => recv_event hh x m sender co re t)).
Proof.
  intros TIh Hl. apply (loc_fold_sessions TI); [exact TIh|exact Hl| |].
  - intros hh x Th Hx. now apply loc_recv_event.
  - intros hh x Th. now apply ti_recv_event.
Qed.

Lemma loc_deliver_pub b oc h p : TI h -> WF h -> pub_ok b h p -> Loc b oc h (deliver_pub h p).
Proof.
  intros TIh W [Hsubj Hmsg]. unfold deliver_pub.
  destruct (p_subj p) as [b' r|b' r|b' u|x|]; destruct (p_msg p) as [m sender co|m|sj internal|pm| |q]; try apply loc_ret.
  - apply loc_listeners; [exact TIh|]. apply room_listeners_b; [apply TIh|exact Hsubj].
  - apply loc_listeners; [exact TIh|]. apply room_listeners_b; [apply TIh|exact Hsubj].
  - (* session joined *)
    destruct (room_of h (b', r)) as [rm|]; [|apply loc_ret].
    match goal with |- context [match ?o with [] => _ | _ => _ end] => destruct o as [|o0 os] end; [apply loc_ret|].
    apply loc_fr. cbn [p_msg] in Hmsg.
    match goal with |- Fr _ _ _ (fold_left ?f ?l ?h0) => apply fr_trans with h0; [|apply fr_fold_left_hub] end.
    + apply fr_publish. now apply pub_ok_plain.
    + intros hh y Fh _. destruct (get_sess hh y) as [sx|]; [|apply fr_refl].
      destruct (is_virtual (s_kind sx) && negb (N.eqb (s_flags sx) 0)); [|apply fr_refl].
      apply fr_publish. apply pub_ok_plain; [|exact I]. eapply bsid_fr; [exact Fh|].
      apply (bsid_fr b oc h); [|exact Hmsg]. apply fr_publish. now apply pub_ok_plain.
  - (* room request *)
    apply loc_room_request; [exact TIh|exact Hsubj| |].
    + intros r0 Hr0 y Hy. apply (wf_incall _ _ h W (b', r) r0 y Hr0 Hy).
    + destruct q; try exact I. exact Hmsg.
  - subst b'. apply loc_listeners; [exact TIh|]. apply user_listeners_b, TIh.
  - destruct (get_sess h x) as [s|]; [|apply loc_ret]. destruct (is_virtual (s_kind s)); [apply loc_ret|]. now apply loc_recv_event.
  - destruct (get_sess h x) as [s|]; [|apply loc_ret]. destruct (is_virtual (s_kind s)); [apply loc_ret|]. now apply loc_recv_event.
  - (* permissions *)
    destruct (get_sess h x) as [s|] eqn:Hs; [|apply loc_ret]. destruct (is_virtual (s_kind s)); [apply loc_ret|].
    assert (Hb : s_backend s = b) by now apply Hsubj.
    apply loc_noconn; [|apply noconn_revoke].
    eapply fr_trans; [apply (fr_put b oc h x s (sess_perms s (Some pm))); auto|].
    apply fr_revoke. now apply bsid_put_same.
  - (* kick through the bus *)
    destruct (get_sess h x) as [s|] eqn:Hs; [|apply loc_ret]. destruct (is_virtual (s_kind s)); [apply loc_ret|].
    assert (Hb : s_backend s = b) by now apply Hsubj.
    pose proof (fr_leave_room b oc h x false (proj1 TIh) Hsubj) as F1.
    pose proof (noconn_leave_room h x false) as N1.
    pose proof (ti_leave_room h x false TIh) as TI1.
    pose proof (shr_leave_room h x false) as S1.
    destruct (leave_room h x false) as [h1 o1]. cbn [fst snd] in *.
    assert (L1 : Loc b oc h (h1, o1)) by (split; [exact F1|now apply noconn_ok]).
    assert (L2 : Loc b oc h1 (send_session h1 x (SBye B_room_session_reconnected))).
    { apply loc_send_session; [exact TI1|]. eapply bsid_fr; eauto. }
    pose proof (ti_send_session h1 x (SBye B_room_session_reconnected) TI1) as TI2.
    pose proof (shr_send_session h1 x (SBye B_room_session_reconnected)) as S2.
    destruct (send_session h1 x (SBye B_room_session_reconnected)) as [h2 o2]. cbn [fst] in *.
    assert (L12 : Loc b oc h (h2, o1 ++ o2)) by (apply (loc_bind b oc h (h1, o1) (h2, o2)); assumption).
    assert (L3 : Loc b oc h2 (close_session h2 x)).
    { apply (loc_bye_close b oc h h2 x s); auto; [apply TIh|eapply shr_trans; eauto|].
      eapply bsid_fr; [apply L12|exact Hsubj]. }
    destruct (close_session h2 x) as [h3 o3].
    pose proof (loc_bind b oc h (h2, o1 ++ o2) (h3, o3) L12 L3) as L. cbn [fst snd] in L. now rewrite <- app_assoc in L.
Qed.

Lemma take_nth_incl {A} n : forall (l : list A) p rest, take_nth n l = Some (p, rest) -> In p l /\ incl rest l.
Proof.
  induction n as [|n IH]; intros [|x l] p rest H; cbn in H; try discriminate.
  - injection H as <- <-. split; [now left|]. intros y Hy. now right.
  - destruct (take_nth n l) as [[y r']|] eqn:E; [|discriminate]. injection H as <- <-.
    destruct (IH l y r' E) as [Hin Hi]. split; [now right|]. intros z [->|Hz]; [now left|right; now apply Hi].
Qed.

Lemma ten_bus h v : Ten h -> Ten (set_bus h v).
Proof. intros T. apply (ten_ext h); auto. Qed.
Lemma ti_bus h v : TI h -> TI (set_bus h v).
Proof. intros [T B]. split; [now apply ten_bus|]. apply (bij_ceq h); [apply ceq_eq; reflexivity|exact B]. Qed.

Definition bus_all (b : N) (h : hub) : Prop := forall p, In p (h_bus h) -> pub_ok b h p.

Lemma loc_deliver_at b oc h pos : TI h -> WF h ->
  (forall p rest, take_nth pos (h_bus h) = Some (p, rest) -> pub_ok b h p) -> Loc b oc h (deliver_at h pos).
Proof.
  intros TIh W Hp. unfold deliver_at. destruct (take_nth pos (h_bus h)) as [[p rest]|] eqn:E; [|apply loc_ret].
  destruct (take_nth_incl _ _ _ _ E) as [Hin Hi].
  assert (F1 : Fr b oc h (set_bus h rest)).
  { constructor; auto. }
  eapply loc_after_fr; [exact F1|]. apply loc_deliver_pub; [now apply ti_bus| |].
  - eapply wf_equiv; [apply equiv_bus|exact W].
  - apply (pub_ok_fr b oc h); [exact F1|]. now apply (Hp p rest).
Qed.
Lemma ti_deliver_at h pos : TI h -> TI (fst (deliver_at h pos)).
Proof. intros TIh. apply (ti_next h); [exact TIh|apply shr_deliver_at|apply bij_deliver_at, TIh]. Qed.

Lemma bus_all_fr b oc h h' : Fr b oc h h' -> bus_all b h -> bus_all b h'.
Proof.
  intros F Ha p Hp. destruct (fr_bus _ _ _ _ F p Hp) as [Hin|Hok]; [|exact Hok]. apply (pub_ok_fr b oc h); auto.
Qed.

(* ------------------------------------------------------------------ the side condition: no foreign room-session id *)
Definition sess_on (h : hub) (b : N) (osid : option N) : bool :=
  match osid with
  | Some sid => match get_sess h sid with Some s => N.eqb (s_backend s) b | None => true end
  | None => true
  end.
Definition conn_backend (h : hub) (c : N) : option N :=
  match aget (h_conns h) c with
  | Some cn => match c_sess cn with
               | Some sid => match get_sess h sid with Some s => Some (s_backend s) | None => None end
               | None => None end
  | None => None
  end.
(* the room-session ids the op names are held by nobody or by sessions of the op's own backend *)
Definition rs_local (h : hub) (o : op) : bool :=
  match o with
  | OJoin c room rs rep =>
      match conn_backend h c with
      | Some b => sess_on h b (aget (h_rs2 h) (1000000 + rs))
      | None => true end
  | OApi b _ _ (ADisinvite users rsessions) => forallb (fun rs => sess_on h b (aget (h_rs2 h) (1000000 + rs))) rsessions
  | OApi b _ _ (AInCall l) | OApi b _ _ (AParticipants l) => forallb (fun u => sess_on h b (resolve_rs h (fst (fst u)))) l
  | _ => true
  end.

Lemma sess_on_spec h b sid : sess_on h b (Some sid) = true -> bsid b h sid.
Proof. cbn. intros H s Hs. rewrite Hs in H. now apply N.eqb_eq. Qed.

Lemma fold_left_inv_in {A} (P : hub -> Prop) (f : hub -> A -> hub) l : forall h,
  P h -> (forall hh x, In x l -> P hh -> P (f hh x)) -> P (fold_left f l h).
Proof.
  induction l as [|x l IH]; intros h Hh Hf; cbn [fold_left]; [exact Hh|].
  apply IH; [apply Hf; [now left|exact Hh]|]. intros hh y Hy. apply Hf. now right.
Qed.

Definition resolved (h : hub) (l : list apiuser) : list apiuser :=
  flat_map (fun u => let '(i, ic, p) := u in match resolve_rs h i with Some sid => [(IdPub sid, ic, p)] | None => [] end) l.
Lemma resolved_ok b h l : forallb (fun u => sess_on h b (resolve_rs h (fst (fst u)))) l = true ->
  forall i ic pm, In (i, ic, pm) (resolved h l) -> match i with IdPub sid => bsid b h sid | _ => True end.
Proof.
  intros Hall i ic pm Hin. unfold resolved in Hin. apply in_flat_map in Hin as ([[i0 ic0] pm0] & Hu & Hin).
  rewrite forallb_forall in Hall. specialize (Hall _ Hu). cbn [fst] in Hall.
  destruct (resolve_rs h i0) as [sid|] eqn:Hr; [|contradiction]. destruct Hin as [E|[]]. injection E as <- <- <-.
  now apply sess_on_spec.
Qed.

(* Hub.GetDialoutSession looks at the backend of the candidates: what it finds is a session of b *)
Lemma dialout_session_b h b x : dialout_session h b = Some x -> bsid b h x.
Proof.
  unfold dialout_session. intros Hf. apply find_some in Hf as [_ Hok]. unfold dialout_ok in Hok.
  intros s Hs. rewrite Hs in Hok. apply andb_prop in Hok as [Hb _]. now apply N.eqb_eq in Hb.
Qed.

Lemma loc_do_api b oc h room q : TI h -> rs_local h (OApi b b room q) = true -> Loc b oc h (do_api h b room q).
Proof.
  intros TIh Hl. unfold do_api.
  assert (Hreq : forall q', match q' with AInCall _ => False | _ => True end ->
                   Loc b oc h (publish h (SubjBackendRoom b room) (ARoomReq q'), [])).
  { intros q' Hq'. apply loc_fr, fr_publish. split; cbn; [reflexivity|]. destruct q'; try exact I. contradiction. }
  destruct q as [|users rs|tag|l|l|ic|tag|ok|del key val]; try (apply Hreq; exact I).
  - (* disinvite *)
    apply loc_fr. cbn [rs_local] in Hl. rewrite forallb_forall in Hl.
    set (P := fun hh => Fr b oc h hh /\ h_rs2 hh = h_rs2 h /\ h_sessions hh = h_sessions h).
    assert (HP : P (fold_left (fun hh u => publish hh (SubjUser b u) (AEvent (SDisinvite room) 0 false)) users h)).
    { apply (wf_fold_left_hub P); [unfold P; split; [apply fr_refl|split; reflexivity]|]. intros hh u HPh. unfold P in HPh |- *.
      destruct HPh as (F & E2 & Es). split; [|split; assumption].
      eapply fr_trans; [exact F|]. apply fr_publish. now apply pub_ok_plain. }
    match goal with |- Fr _ _ _ (fold_left ?f rs ?h0) => assert (HP2 : P (fold_left f rs h0)) end; [|apply HP2].
    apply (fold_left_inv_in P); [exact HP|]. intros hh y Hy HPh. unfold P in HPh |- *. destruct HPh as (F & E2 & Es). rewrite E2.
    destruct (aget (h_rs2 h) (1000000 + y)) as [sid|] eqn:Hr; [|split; [exact F|split; assumption]].
    split; [|split; assumption]. eapply fr_trans; [exact F|]. apply fr_publish. apply pub_ok_plain; [|exact I].
    cbn. intros s Hs. rewrite (get_ext h hh sid Es) in Hs. specialize (Hl y Hy). rewrite Hr in Hl. now apply (sess_on_spec h b sid).
  - (* participants *)
    cbn [rs_local] in Hl. fold (resolved h l). pose proof (resolved_ok b h l Hl) as Hok.
    destruct (resolved h l) as [|u0 us] eqn:El; [apply loc_ret|]. rewrite <- El in *. apply loc_fr.
    match goal with |- Fr _ _ _ (publish (fold_left ?f ?ll h) _ _) => assert (F1 : Fr b oc h (fold_left f ll h)) end.
    { apply fr_fold_left_hub. intros hh [[i icv] pm] Fh Hin. destruct i as [n|sid|kk|n]; try apply fr_refl.
      destruct pm as [pmv|]; [|apply fr_refl]. apply fr_publish. apply pub_ok_plain; [|exact I]. cbn.
      eapply bsid_fr; [exact Fh|]. apply (Hok (IdPub sid) icv (Some pmv) Hin). }
    eapply fr_trans; [exact F1|]. apply fr_publish. split; cbn; [reflexivity|exact I].
  - (* incall *)
    cbn [rs_local] in Hl. fold (resolved h l). pose proof (resolved_ok b h l Hl) as Hok.
    destruct (resolved h l) as [|u0 us] eqn:El; [apply loc_ret|]. rewrite <- El in *. apply loc_fr.
    apply fr_publish. split; cbn; [reflexivity|exact Hok].
  - (* dial-out: the request goes to a dial-out session of the request's backend *)
    destruct ok; cbn [negb]; [|apply loc_ret].
    destruct (dialout_session h b) as [x|] eqn:Hd; [|apply loc_ret].
    pose proof (loc_send_session b oc h x (SDialout room) TIh (dialout_session_b h b x Hd)) as L.
    destruct (send_session h x (SDialout room)) as [h1 o1].
    apply (loc_then_fr b oc h (h1, o1)); [exact L|]. cbn [fst].
    apply fr_publish. now apply pub_ok_plain.
Qed.
Lemma ti_do_api h b room q : TI h -> TI (fst (do_api h b room q)).
Proof. intros TIh. apply (ti_next h); [exact TIh|apply shr_do_api|apply bij_do_api, TIh]. Qed.

(* ------------------------------------------------------------------ media: the requester's own session only *)
Lemma loc_finish_create b oc h tok p ok : TI h -> bsid b h (mp_owner p) -> bsid b h (mp_errto p) ->
  Loc b oc h (finish_create h tok p ok).
Proof.
  intros TIh Ho He. unfold finish_create.
  assert (Hsend : forall x m (pre : list out), noconn pre -> bsid b h x ->
            Loc b oc h (let '(h1, o1) := send_session h x m in (h1, pre ++ o1))).
  { intros x m pre Hn Hx. pose proof (loc_send_session b oc h x m TIh Hx) as [F O].
    destruct (send_session h x m) as [h1 o1]. cbn [fst snd] in *. split; cbn [fst snd]; [exact F|].
    apply outs_ok_app; [now apply noconn_ok|exact O]. }
  assert (N1 : forall t, noconn [ToMcu t]) by (intros t; apply noconn_cons; [intros; discriminate|apply noconn_nil]).
  assert (N2 : forall t t', noconn [ToMcu t; ToMcu t']) by (intros t t'; apply noconn_cons; [intros; discriminate|apply N1]).
  destruct ok; cbn [negb].
  2:{ apply (Hsend (mp_errto p) (SError E_client_not_found) [ToMcu (MFailed tok)]); auto. }
  destruct (get_sess h (mp_owner p)) as [s|] eqn:Hs; [|apply loc_noconn; [apply fr_refl|apply N1]].
  assert (Hb : s_backend s = b) by now apply Ho.
  destruct (negb (N.eqb (s_rel s) (mp_rel p))).
  { apply (Hsend (mp_errto p) (SError E_client_not_found) [ToMcu (MCreated tok); ToMcu (MClose tok)]); auto. }
  destruct (N.eqb (mp_kind p) 0 && negb (offer_allowed (s_perms s) (mp_stream p) (N.land (mp_media p) 3))).
  { apply (Hsend (mp_errto p) (SError E_not_allowed) [ToMcu (MCreated tok); ToMcu (MClose tok)]); auto. }
  assert (Hput : forall s1 (r : bool) m (pre : list out), noconn pre -> s_backend s1 = b -> s_conn s1 = s_conn s -> s_kind s1 = s_kind s -> s_room s1 = s_room s ->
            let h1 := put_sess h (mp_owner p) s1 in
            let h2 := set_mcu h1 (h_mcutok h1) (h_mcupending h1) (h_mcuopen h1 ++ [tok]) in
            Loc b oc h (let '(h3, o3) := if r then send_session h2 (mp_owner p) m else (h2, []) in (h3, pre ++ o3))).
  { intros s1 r m pre Hn Hb1 Hc1 Hk1 Hr1 h1 h2.
    assert (F2 : Fr b oc h h2).
    { apply (fr_then_eq b oc h h1 h2); try reflexivity. apply fr_put with s; auto. }
    assert (TI2 : TI h2).
    { split.
      - apply (ten_ext h1); try reflexivity. apply (ten_shr h); [apply TIh|]. apply shr_put with s; [exact Hs|apply keeps_same; congruence].
      - apply (bij_ceq h); [|apply TIh]. eapply ceq_trans; [apply (ceq_put h (mp_owner p) s s1 Hs); now left|]. apply ceq_eq; reflexivity. }
    destruct r.
    - pose proof (loc_send_session b oc h2 (mp_owner p) m TI2 (bsid_fr b oc h h2 _ F2 Ho)) as L.
      destruct (send_session h2 (mp_owner p) m) as [h3 o3].
      pose proof (loc_after_fr b oc h h2 (h3, o3) F2 L) as [F O]. split; cbn [fst snd] in *; [exact F|].
      apply outs_ok_app; [now apply noconn_ok|exact O].
    - apply loc_noconn; cbn [fst snd]; [exact F2|]. rewrite app_nil_r. exact Hn. }
  assert (Hcond : forall (r : bool) m (pre : list out), noconn pre ->
            Loc b oc h (let '(h1, o1) := if r then send_session h (mp_owner p) m else (h, []) in (h1, pre ++ o1))).
  { intros r m pre Hn. destruct r; [now apply Hsend|]. apply loc_noconn; cbn [fst snd]; [apply fr_refl|]. now rewrite app_nil_r. }
  destruct (N.eqb (mp_kind p) 0).
  - destruct (aget (s_pubs s) (mp_stream p)).
    + apply (Hcond _ _ [ToMcu (MCreated tok); ToMcu (MClose tok)]). apply N2.
    + apply (Hput _ _ _ [ToMcu (MCreated tok)]); auto.
  - destruct (sub_get s (mp_pubof p) (mp_stream p)).
    + apply (Hcond _ _ [ToMcu (MCreated tok); ToMcu (MClose tok)]). apply N2.
    + apply (Hput _ _ _ [ToMcu (MCreated tok)]); auto.
Qed.

Lemma ti_mcu h a c d : TI h -> TI (set_mcu h a c d).
Proof. intros [T B]. split; [apply (ten_ext h); auto|]. apply (bij_ceq h); [apply ceq_eq; reflexivity|exact B]. Qed.

Lemma loc_start_create b oc h p : TI h -> bsid b h (mp_owner p) -> bsid b h (mp_errto p) -> Loc b oc h (start_create h p).
Proof.
  intros TIh Ho He. unfold start_create.
  destruct (h_gated h).
  - apply loc_noconn; cbn [fst snd]; [apply fr_eq; reflexivity|]. apply noconn_cons; [intros; discriminate|apply noconn_nil].
  - match goal with |- context [finish_create ?hh ?t p true] => pose proof (loc_finish_create b oc hh t p true) as L; destruct (finish_create hh t p true) as [h1 o1] end.
    destruct L as [F O]; [now apply ti_mcu|exact Ho|exact He|]. cbn [fst snd] in *. split; cbn [fst snd].
    + eapply fr_trans; [|exact F]. apply fr_eq; reflexivity.
    + apply outs_ok_cons_other; [intros; discriminate|]. intros c m Hin. destruct (O c m Hin) as [E|(sid & s & Hs & Hb & Hc)]; [now left|right].
      exists sid, s. auto.
Qed.

Lemma loc_do_mcudone b oc h tok ok : TI h ->
  (forall p, aget (h_mcupending h) tok = Some p -> bsid b h (mp_owner p) /\ bsid b h (mp_errto p)) ->
  Loc b oc h (do_mcudone h tok ok).
Proof.
  intros TIh Hp. unfold do_mcudone. destruct (aget (h_mcupending h) tok) as [p|]; [|apply loc_ret].
  destruct (Hp p eq_refl) as [Ho He].
  match goal with |- context [finish_create ?hh ?t p ok] => pose proof (loc_finish_create b oc hh t p ok) as L; destruct (finish_create hh t p ok) as [h1 o1] end.
  destruct L as [F O]; [now apply ti_mcu|exact Ho|exact He|]. cbn [fst snd] in *. split; cbn [fst snd].
  - eapply fr_trans; [|exact F]. apply fr_eq; reflexivity.
  - intros c m Hin. destruct (O c m Hin) as [E|(sid & s & Hs & Hb & Hc)]; [now left|right]. exists sid, s. auto.
Qed.

Lemma loc_do_sendoffer b h c x s i stream : TI h -> get_sess h x = Some s -> s_backend s = b ->
  Loc b (Some c) h (do_sendoffer h c x s i stream).
Proof.
  intros TIh Hs Hb.
  assert (Hx : bsid b h x) by (intros t Ht; congruence).
  assert (Herr : forall e, Loc b (Some c) h (h, [ToConn c (SError e)])).
  { intros e. split; [apply fr_refl|]. apply outs_ok_cons_own; [reflexivity|apply outs_ok_nil]. }
  unfold do_sendoffer.
  destruct i as [n|n|k|n]; try (destruct (negb (send_allowed (s_perms s) stream)); [apply Herr|apply loc_ret]).
  destruct (get_sess h n) as [t|] eqn:Ht; [|destruct (negb (send_allowed (s_perms s) stream)); [apply Herr|apply loc_ret]].
  destruct (N.eqb_spec (s_backend t) (s_backend s)) as [Hbt|]; cbn [negb]; [|apply loc_ret].
  destruct (N.eqb n x); [apply loc_ret|].
  destruct (negb (send_allowed (s_perms s) stream)); [apply Herr|].
  cbv zeta. set (r := match s_kind t with KVirtual p _ => p | _ => n end).
  assert (Hrb : bsid b h r).
  { subst r. destruct (s_kind t) as [| |p v] eqn:Hk; [intros t' Ht'; congruence|intros t' Ht'; congruence|].
    rewrite <- Hb, <- Hbt. apply (t_parent h (proj1 TIh) n t p v Ht Hk). }
  destruct (get_sess h r) as [rs|] eqn:Hr; [|apply loc_ret].
  destruct (is_virtual (s_kind rs)) eqn:Hv; [apply loc_ret|].
  destruct (sub_get rs x stream); [apply loc_send_session; [exact TIh|exact Hrb]|apply loc_start_create; [exact TIh|exact Hrb|exact Hx]].
Qed.

Lemma loc_do_media b h c x s to mk stream media : TI h -> get_sess h x = Some s -> s_backend s = b ->
  Loc b (Some c) h (do_media h c x s to mk stream media).
Proof.
  intros TIh Hs Hb. unfold do_media.
  assert (Hx : bsid b h x) by (intros t Ht; congruence).
  assert (Herr : forall e, Loc b (Some c) h (h, [ToConn c (SError e)])).
  { intros e. split; [apply fr_refl|]. apply outs_ok_cons_own; [reflexivity|apply outs_ok_nil]. }
  destruct to as [i|u| |]; try apply loc_ret.
  destruct (N.eqb mk 0).
  - destruct (negb (offer_allowed (s_perms s) stream _)); [apply Herr|].
    destruct (aget (s_pubs s) stream).
    + match goal with |- context [put_sess h x ?s1] => set (s' := s1) end.
      assert (F1 : Fr b (Some c) h (put_sess h x s')) by (apply fr_put with s; auto).
      eapply loc_after_fr; [exact F1|]. apply loc_send_session; [|now apply bsid_put_same].
      split; [apply (ten_shr h); [apply TIh|apply shr_put with s; [exact Hs|now apply keeps_same]]|].
      apply (bij_ceq h); [apply (ceq_put h x s s' Hs); now left|apply TIh].
    + now apply loc_start_create.
  - destruct (N.eqb mk 1).
    + match goal with |- context [if ?cnd then _ else _] => destruct cnd end; [apply loc_ret|].
      destruct (negb (same_call h x s _)); [apply Herr|].
      destruct (sub_get s _ stream); [now apply loc_send_session|now apply loc_start_create].
    + destruct (is_cand mk); [|destruct (N.eqb mk 3); [now apply loc_do_sendoffer|apply loc_ret]].
      match goal with |- context [if ?cnd then _ else _] => destruct cnd end.
      * destruct (negb (send_allowed (s_perms s) stream)); [apply Herr|]. destruct (aget (s_pubs s) stream); [apply loc_ret|apply Herr].
      * destruct (sub_get s _ stream); [apply loc_ret|apply Herr].
Qed.

(* ------------------------------------------------------------------ joining *)
Lemma ti_ext h h' : TI h -> h_sessions h' = h_sessions h -> h_rooms h' = h_rooms h -> h_conns h' = h_conns h -> TI h'.
Proof. intros [T B] Es Er Ec. split; [now apply (ten_ext h)|]. apply (bij_ceq h); [now apply ceq_eq|exact B]. Qed.

Lemma join_room_spec b oc h c sid k rs perms su :
  TI h -> bsid b h sid -> fst k = b ->
  TI (fst (join_room h c sid k rs perms su)) /\ Loc b oc h (join_room h c sid k rs perms su).
Proof.
  intros TIh Hsid Hk. unfold join_room.
  pose proof (fr_leave_room b oc h sid true (proj1 TIh) Hsid) as F1.
  pose proof (noconn_leave_room h sid true) as N1.
  pose proof (ti_leave_room h sid true TIh) as TI1.
  destruct (leave_room h sid true) as [h1 o1]. cbn [fst snd] in *.
  assert (L1 : Loc b oc h (h1, o1)) by (split; [exact F1|now apply noconn_ok]).
  assert (Hsid1 : bsid b h1 sid) by (eapply bsid_fr; eauto).
  destruct (get_sess h1 sid) as [s|] eqn:Hs; [|split; [exact TI1|exact L1]].
  assert (Hb : s_backend s = b) by now apply Hsid1.
  set (r := match room_of h1 k with Some x0 => x0 | None => empty_room end).
  set (r' := mkroom (nadd sid (r_members r)) (r_incall r) (if N.eqb su 0 then r_sessdata r else aset (r_sessdata r) sid su) (r_transient r) (r_props r)).
  set (s1 := upd_sess s (Some k) rs (s_conn s) (match perms with Some p => Some p | None => s_perms s end) (s_pending s) [] (h_clock h1)).
  set (hr := set_rooms h1 (pset (h_rooms h1) k r')).
  set (h2 := set_clock (put_sess hr sid s1) (h_clock h1 + 1)).
  assert (F2 : Fr b oc h1 h2).
  { eapply fr_trans; [apply (fr_set_room b oc h1 k r' Hk)|]. fold hr.
    apply (fr_aset b oc hr h2 sid s1); try reflexivity; auto.
    intros c' Hc'. right. exists sid, s. auto. }
  assert (T2 : Ten h2).
  { apply (ten_update h1 h2 sid s s1); try reflexivity; auto; [apply TI1| |].
    - intros k0 Hk0. cbn in Hk0. injection Hk0 as <-. congruence.
    - intros k0 r0 m Hr0 Hm. change (room_of h2 k0) with (pget (pset (h_rooms h1) k r') k0) in Hr0.
      rewrite pget_pset in Hr0. destruct (pair_eqb_spec k0 k) as [->|Hne].
      + injection Hr0 as <-. cbn [r_members r'] in Hm. apply nmem_In in Hm. rewrite nmem_nadd in Hm.
        apply orb_prop in Hm as [Hm|Hm]; [apply N.eqb_eq in Hm; left; split; congruence|].
        right. apply nmem_In in Hm. unfold r, room_of in Hm. unfold room_of. destruct (pget (h_rooms h1) k) as [r0|]; [eauto|destruct Hm].
      + right. eauto. }
  assert (B2 : Bij h2).
  { apply (bij_ceq h1); [|apply TI1]. constructor; [reflexivity|].
    intros tid c' (t & Ht & Hc'). change (get_sess h2 tid) with (aget (aset (h_sessions h1) sid s1) tid) in Ht.
    rewrite aget_aset in Ht. destruct (N.eqb_spec tid sid) as [->|Hne].
    - injection Ht as <-. exists s. auto.
    - exists t. auto. }
  set (h3 := if N.eqb rs 0 then h2 else rs_set h2 sid rs).
  set (h4 := set_anonymous h3 (nrem sid (h_anonymous h3))).
  set (h5 := match s_kind s with KInternal _ true => set_dialout h4 (nrem sid (h_dialout h4)) | _ => h4 end).
  assert (E5 : h_sessions h5 = h_sessions h2 /\ h_rooms h5 = h_rooms h2 /\ h_bus h5 = h_bus h2 /\ h_conns h5 = h_conns h2).
  { assert (E3 : h_sessions h3 = h_sessions h2 /\ h_rooms h3 = h_rooms h2 /\ h_bus h3 = h_bus h2 /\ h_conns h3 = h_conns h2).
    { unfold h3. destruct (N.eqb rs 0); [auto|]. rewrite rs_set_sessions, rs_set_rooms, rs_set_bus, rs_set_conns. auto. }
    destruct E3 as (A1 & A2 & A3 & A4). unfold h5. destruct (s_kind s) as [|f d|]; try destruct d; cbn; auto. }
  destruct E5 as (E5s & E5r & E5b & E5c).
  assert (TI5 : TI h5) by (apply (ti_ext h2); auto; split; assumption).
  assert (F5 : Fr b oc h1 h5) by (apply (fr_then_eq b oc h1 h2 h5); auto).
  assert (Hsid5 : bsid b h5 sid) by (eapply bsid_fr; eauto).
  pose proof (loc_send_session b oc h5 sid (SRoom (snd k)) TI5 Hsid5) as L7.
  pose proof (ti_send_session h5 sid (SRoom (snd k)) TI5) as TI7.
  destruct (send_session h5 sid (SRoom (snd k))) as [h7 o2]. cbn [fst] in TI7.
  assert (L17 : Loc b oc h1 (h7, o2)) by (eapply loc_after_fr; eauto).
  assert (L07 : Loc b oc h (h7, o1 ++ o2)) by (apply (loc_bind b oc h (h1, o1) (h7, o2)); assumption).
  destruct (room_of h7 k); [|split; [exact TI7|exact L07]].
  assert (Hsid7 : bsid b h7 sid) by (eapply bsid_fr; [apply L17|exact Hsid1]).
  set (uid := if N.eqb (s_user s) 0 then su else s_user s).
  set (h9 := if nmem sid (r_members r) then h7 else publish h7 (SubjRoom (fst k) (snd k)) (ARoomEvent (SJoin [(sid, uid)]))).
  assert (F9 : Fr b oc h7 h9).
  { unfold h9. destruct (nmem sid (r_members r)); [apply fr_refl|]. apply fr_publish. now apply pub_ok_plain. }
  assert (TI9 : TI h9) by (unfold h9; destruct (nmem sid (r_members r)); [exact TI7|now apply ti_publish]).
  assert (L10 : Loc b oc h9 (if nmem sid (r_members r) then (h9, [])
                              else match r_transient r with [] => (h9, []) | d => send_session h9 sid (STransient (TInit d)) end) /\
                TI (fst (if nmem sid (r_members r) then (h9, [])
                              else match r_transient r with [] => (h9, []) | d => send_session h9 sid (STransient (TInit d)) end))).
  { destruct (nmem sid (r_members r)); [split; [apply loc_ret|exact TI9]|].
    destruct (r_transient r); [split; [apply loc_ret|exact TI9]|].
    split; [apply loc_send_session; [exact TI9|eapply bsid_fr; eauto]|now apply ti_send_session]. }
  destruct L10 as [L10 TI10].
  match goal with |- context [let '(h10, outs3) := ?X in _] => destruct X as [h10 o3] end. cbn [fst] in *.
  assert (L79 : Loc b oc h7 (h10, o3)) by (eapply loc_after_fr; eauto).
  assert (Hsid10 : bsid b h10 sid) by (eapply bsid_fr; [apply L79|exact Hsid7]).
  split; [now apply ti_publish|].
  pose proof (loc_bind b oc h (h7, o1 ++ o2) (h10, o3) L07 L79) as L. cbn [fst snd] in L. rewrite <- app_assoc in L.
  eapply loc_then_fr with (r := (h10, o1 ++ o2 ++ o3)); [exact L|]. cbn [fst].
  apply fr_publish. split; cbn; [exact Hk|exact Hsid10].
Qed.

Lemma bsid_shr b h h' x : shr h h' -> bsid b h x -> bsid b h' x.
Proof. intros S Hx t Ht. destruct (sh_sess _ _ S x t Ht) as (t0 & Ht0 & Hb & _). rewrite Hb. now apply Hx. Qed.

Definition kick_ok (b : N) (h : hub) (rs : N) : Prop := forall x, aget (h_rs2 h) (1000000 + rs) = Some x -> bsid b h x.

Lemma do_join_spec b oc h c sid s rn rs rep :
  TI h -> get_sess h sid = Some s -> s_backend s = b ->
  TI (fst (do_join h c sid s rn rs rep)) /\ (kick_ok b h rs -> Loc b oc h (do_join h c sid s rn rs rep)).
Proof.
  intros TIh Hs Hb. assert (Hsid : bsid b h sid) by (intros t Ht; congruence).
  unfold do_join. destruct (N.eqb rn 0).
  - destruct (s_room s); [|split; [exact TIh|intros _; apply loc_ret]].
    pose proof (fr_leave_room b oc h sid true (proj1 TIh) Hsid) as F1.
    pose proof (noconn_leave_room h sid true) as N1.
    pose proof (ti_leave_room h sid true TIh) as TI1.
    destruct (leave_room h sid true) as [h1 o1]. cbn [fst snd] in *.
    assert (L1 : Loc b oc h (h1, o1)) by (split; [exact F1|now apply noconn_ok]).
    assert (L2 : Loc b oc h1 (send_session h1 sid (SRoom 0))) by (apply loc_send_session; [exact TI1|eapply bsid_fr; eauto]).
    pose proof (ti_send_session h1 sid (SRoom 0) TI1) as TI2.
    destruct (send_session h1 sid (SRoom 0)) as [h2 o2]. cbn [fst] in *.
    pose proof (loc_bind b oc h (h1, o1) (h2, o2) L1 L2) as L. cbn [fst snd] in L.
    destruct (N.eqb (s_user s) 0 && negb (is_internal (s_kind s))); [|split; [exact TI2|intros _; exact L]].
    split; [apply (ti_ext h2); auto|]. intros _. eapply loc_then_fr with (r := (h2, o1 ++ o2)); [exact L|]. apply fr_eq; reflexivity.
  - set (k := (s_backend s, rn)). set (rsv := if N.eqb rs 0 then 0 else 1000000 + rs).
    assert (Hk : fst k = b) by exact Hb.
    destruct (match room_of h k with Some r => nmem sid (r_members r) | None => false end).
    + set (newrs := if N.eqb rs 0 then 2000000 + sid else rsv).
      set (h1 := if N.eqb (s_rs s) newrs then h else put_sess (rs_set h sid newrs) sid (sess_rs s newrs)).
      assert (F1 : Fr b oc h h1).
      { unfold h1. destruct (N.eqb (s_rs s) newrs); [apply fr_refl|].
        eapply fr_trans; [apply (fr_rs_set b oc h sid newrs)|].
        apply fr_put with s; auto. unfold get_sess. rewrite rs_set_sessions. exact Hs. }
      assert (TI1 : TI h1).
      { unfold h1. destruct (N.eqb (s_rs s) newrs); [exact TIh|].
        assert (Hs' : get_sess (rs_set h sid newrs) sid = Some s) by (unfold get_sess; rewrite rs_set_sessions; exact Hs).
        apply (ti_next h); [exact TIh| |].
        - eapply shr_trans; [apply (shr_rs_set h sid newrs)|]. apply shr_put with s; [exact Hs'|now apply keeps_same].
        - apply (bij_ceq h); [|apply TIh]. eapply ceq_trans; [apply (ceq_rs_set h sid newrs)|]. apply ceq_put with s; [exact Hs'|now left]. }
      pose proof (loc_send_session b oc h1 sid (SError E_already_joined) TI1 (bsid_fr b oc h h1 sid F1 Hsid)) as L2.
      pose proof (ti_send_session h1 sid (SError E_already_joined) TI1) as TI2.
      destruct (send_session h1 sid (SError E_already_joined)) as [h2 o2]. cbn [fst] in *.
      split; [exact TI2|intros _; eapply loc_after_fr; eauto].
    + destruct (is_internal (s_kind s)).
      { destruct (join_room_spec b oc h c sid k rsv None 0 TIh Hsid Hk) as [TJ LJ]. split; [exact TJ|intros _; exact LJ]. }
      set (req := ToBackend (s_backend s, 1, 0, rn, (if N.eqb rs 0 then 2000000 + sid else rsv), 1)).
      assert (K : TI (fst (if N.eqb rs 0 || N.eqb (s_rs s) rsv then (h, []) else kick_room_session h rsv)) /\
                  shr h (fst (if N.eqb rs 0 || N.eqb (s_rs s) rsv then (h, []) else kick_room_session h rsv)) /\
                  (kick_ok b h rs -> Loc b oc h (if N.eqb rs 0 || N.eqb (s_rs s) rsv then (h, []) else kick_room_session h rsv))).
      { destruct (N.eqb rs 0) eqn:E0; cbn [orb]; [split; [exact TIh|split; [apply shr_refl|intros _; apply loc_ret]]|].
        destruct (N.eqb (s_rs s) rsv); [split; [exact TIh|split; [apply shr_refl|intros _; apply loc_ret]]|].
        split; [now apply ti_kick|]. split; [apply shr_kick|]. intros Hko. apply loc_kick; [exact TIh|].
        unfold rsv; try rewrite E0; exact Hko. }
      destruct K as (TI1 & S1 & L1).
      match goal with |- context [let '(h1, outs1) := ?X in _] => destruct X as [h1 o1] end. cbn [fst] in *.
      assert (Hsid1 : bsid b h1 sid) by (eapply bsid_shr; eauto).
      assert (Hreq : forall r0, Loc b oc h r0 -> Loc b oc h (fst r0, req :: snd r0)).
      { intros r0 [F O]. split; cbn [fst snd]; [exact F|]. apply outs_ok_cons_other; [intros; discriminate|exact O]. }
      destruct (get_sess h1 sid); [|split; [exact TI1|intros Hko; apply (Hreq (h1, o1)), L1, Hko]].
      destruct rep as [perms su|code].
      * destruct (join_room_spec b oc h1 c sid k rsv perms su TI1 Hsid1 Hk) as [TJ LJ].
        destruct (join_room h1 c sid k rsv perms su) as [h2 o2]. cbn [fst] in *.
        split; [exact TJ|]. intros Hko. apply (Hreq (h2, o1 ++ o2)). apply (loc_bind b oc h (h1, o1) (h2, o2)); auto.
      * pose proof (loc_send_session b oc h1 sid (SError code) TI1 Hsid1) as L2.
        pose proof (ti_send_session h1 sid (SError code) TI1) as TI2.
        destruct (send_session h1 sid (SError code)) as [h2 o2]. cbn [fst] in *.
        split; [exact TI2|]. intros Hko. apply (Hreq (h2, o1 ++ o2)). apply (loc_bind b oc h (h1, o1) (h2, o2)); auto.
Qed.

(* ------------------------------------------------------------------ hello *)
Definition unattached (h : hub) (c : N) : Prop := forall cn0, aget (h_conns h) c = Some cn0 -> c_sess cn0 = None.
Definition own_outs (c : N) (outs : list out) : Prop := forall c' m, In (ToConn c' m) outs -> c' = c.
Lemma own_outs_ok b c h outs : own_outs c outs -> outs_ok b (Some c) h outs.
Proof. intros H c' m Hin. left. now rewrite (H c' m Hin). Qed.

(* only the op's own connection entry changes, and it is attached to nobody before *)
Lemma bij_conns_other h h' c : Bij h -> unattached h c -> h_sessions h' = h_sessions h ->
  (forall c', c' <> c -> aget (h_conns h') c' = aget (h_conns h) c') -> Bij h'.
Proof.
  intros B Hu Es Ec tid c' (t & Ht & Hc). rewrite (get_ext h h' tid Es) in Ht.
  destruct (B tid c' (ex_intro _ t (conj Ht Hc))) as (cn0 & Hcn & Hcs).
  assert (Hne : c' <> c) by (intros ->; rewrite (Hu cn0 Hcn) in Hcs; discriminate).
  exists cn0. rewrite (Ec c' Hne). auto.
Qed.
Lemma conn_only_spec b c h h' outs : TI h -> unattached h c ->
  h_sessions h' = h_sessions h -> h_rooms h' = h_rooms h -> h_bus h' = h_bus h ->
  (forall c', c' <> c -> aget (h_conns h') c' = aget (h_conns h) c') -> own_outs c outs ->
  TI h' /\ Loc b (Some c) h (h', outs).
Proof.
  intros [T B] Hu Es Er Eb Ec Ho. split; [split|split].
  - now apply (ten_ext h).
  - now apply (bij_conns_other h h' c).
  - now apply fr_eq.
  - now apply own_outs_ok.
Qed.

Lemma register_proj h c cn b k u :
  let r := register h c cn b k u in
  h_rooms (fst r) = h_rooms h /\ h_bus (fst r) = h_bus h /\
  ((h_sessions (fst r) = h_sessions h /\ h_conns (fst r) = aset (h_conns h) c (mkconn (c_addr cn) None true) /\
    snd r = [ToConn c (SError E_session_limit)]) \/
   (h_sessions (fst r) = aset (h_sessions h) (next_id h) (new_session b k u c) /\
    h_conns (fst r) = aset (h_conns h) c (mkconn (c_addr cn) (Some (next_id h)) false) /\
    snd r = [ToConn c (SHello (next_id h) u)])).
Proof.
  unfold register.
  match goal with |- context [if ?cnd then (_, [ToConn c (SError E_session_limit)]) else _] => destruct cnd end.
  - cbn. split; [reflexivity|]. split; [reflexivity|]. left. auto.
  - destruct (negb (is_internal k) && negb (N.eqb (limit_of h b) 0));
      destruct (N.eqb u 0 && negb (is_internal k)); destruct k as [|f d|p v]; try destruct d;
      (split; [reflexivity|]); (split; [reflexivity|]); right; repeat split; reflexivity.
Qed.

Lemma register_spec b h c cn k u : WF h -> TI h -> is_virtual k = false -> unattached h c ->
  TI (fst (register h c cn b k u)) /\ Loc b (Some c) h (register h c cn b k u).
Proof.
  intros W TIh Hv Hu. destruct (register_proj h c cn b k u) as (Er & Eb & [(Es & Ec & Eo)|(Es & Ec & Eo)]).
  - rewrite (pair_fst_snd (register h c cn b k u)) at 2. rewrite Eo.
    apply conn_only_spec; auto.
    + intros c' Hne. rewrite Ec. now apply aget_aset_other.
    + intros c' m [E|[]]. now injection E as <- _.
  - set (sid := next_id h) in *. set (new := new_session b k u c) in *.
    assert (Hfresh : get_sess h sid = None) by apply next_id_fresh.
    split; [split|split].
    + apply (ten_new h _ sid new W (proj1 TIh) Hfresh Es).
      * intros k0 Hk0. discriminate.
      * intros p v Hk0. cbn in Hk0. subst k. discriminate.
      * intros k0 r' m Hr Hm. right. rewrite (room_ext h _ k0 Er) in Hr. eauto.
    + intros tid c' (t & Ht & Hc). unfold get_sess in Ht. rewrite Es, aget_aset in Ht. unfold attached. rewrite Ec.
      destruct (N.eqb_spec tid sid) as [->|Hne].
      * injection Ht as <-. cbn in Hc. injection Hc as <-. rewrite aget_aset_same. eexists. split; reflexivity.
      * destruct (proj2 TIh tid c' (ex_intro _ t (conj Ht Hc))) as (cn0 & Hcn & Hcs).
        assert (Hcc : c' <> c) by (intros ->; rewrite (Hu cn0 Hcn) in Hcs; discriminate).
        exists cn0. rewrite aget_aset_other by exact Hcc. auto.
    + apply (fr_aset b (Some c) h _ sid new Es Er Eb).
      * intros t Ht. congruence.
      * reflexivity.
      * intros c' Hc'. cbn in Hc'. left. congruence.
    + rewrite Eo. apply own_outs_ok. intros c' m [E|[]]. now injection E as <- _.
Qed.

Definition hello_on (b : N) (h : hub) (hl : hello) : Prop :=
  match hl with
  | HV1 b' _ _ | HV2 b' _ _ | HInternal b' _ _ _ => b' = b
  | HResume (IdPriv n) => bsid b h n
  | HResume _ => True
  end.

Lemma unattached_ext h h' c : h_conns h' = h_conns h -> unattached h c -> unattached h' c.
Proof. intros E Hu cn0. rewrite E. apply Hu. Qed.

(* what happens to the connection the resumed session was on *)
Lemma resume_pre h c n s r : get_sess h n = Some s -> Bij h -> unattached h c ->
  let P := match s_conn s with
           | Some c' =>
               if N.eqb c' c then (h, [])
               else send_conn (match aget (h_conns h) c' with
                               | Some cn' => set_conns h (aset (h_conns h) c' (mkconn (c_addr cn') None (c_expect cn')))
                               | None => h end) c' (SBye r)
           | None => (h, [])
           end in
  h_sessions (fst P) = h_sessions h /\ h_rooms (fst P) = h_rooms h /\ h_bus (fst P) = h_bus h /\
  h_nextsid (fst P) = h_nextsid h /\
  (forall c'', s_conn s <> Some c'' -> aget (h_conns (fst P)) c'' = aget (h_conns h) c'') /\
  (forall c'' m, In (ToConn c'' m) (snd P) -> s_conn s = Some c'').
Proof.
  intros Hs B Hu. cbv zeta.
  destruct (s_conn s) as [c'|] eqn:Hc; [|repeat split; auto; intros c'' m []].
  destruct (N.eqb_spec c' c) as [->|Hne]; [repeat split; auto; intros c'' m []|].
  destruct (B n c' (ex_intro _ s (conj Hs Hc))) as (cn' & Hcn & Hcs). rewrite Hcn.
  unfold send_conn. cbn [h_conns set_conns]. rewrite aget_aset_same. cbn [is_closing].
  unfold close_conn. cbn [h_conns set_conns]. rewrite aget_aset_same. cbn [c_sess fst snd].
  repeat split; try reflexivity.
  - intros c'' Hne''. cbn [h_conns set_conns]. assert (c'' <> c') by congruence.
    rewrite aget_adel_other by assumption. now rewrite aget_aset_other by assumption.
  - intros c'' m [E|[E|[]]]; [injection E as <- _; reflexivity|discriminate].
Qed.

Lemma do_hello_spec b h c cn hl : WF h -> TI h -> unattached h c -> hello_on b h hl ->
  TI (fst (do_hello h c cn hl)) /\ Loc b (Some c) h (do_hello h c cn hl).
Proof.
  intros W TIh Hu Hon. unfold do_hello.
  assert (Hexp : forall hh outs, h_sessions hh = h_sessions h -> h_rooms hh = h_rooms h -> h_bus hh = h_bus h ->
            h_conns hh = h_conns h -> own_outs c outs ->
            TI (set_conns hh (aset (h_conns hh) c (mkconn (c_addr cn) None true))) /\
            Loc b (Some c) h (set_conns hh (aset (h_conns hh) c (mkconn (c_addr cn) None true)), outs)).
  { intros hh outs Es Er Eb Ec Ho. apply conn_only_spec; auto.
    intros c' Hne. cbn [h_conns set_conns]. rewrite Ec. now apply aget_aset_other. }
  assert (Hown1 : forall m, own_outs c [ToConn c m]) by (intros m c' m' [E|[]]; now injection E as <- _).
  assert (Hown2 : forall q m, own_outs c [ToBackend q; ToConn c m]) by (intros q m c' m' [E|[E|[]]]; [discriminate|now injection E as <- _]).
  destruct hl as [b' u rej|b' u t|b' tok f d|i]; cbn [hello_on] in Hon.
  - subst b'. destruct (h_nb h <=? b); [now apply Hexp|]. destruct rej; [now apply Hexp|].
    destruct (register_spec b h c cn KClient u W TIh eq_refl Hu) as [TR [F O]].
    destruct (register h c cn b KClient u) as [h1 outs]. cbn [fst snd] in *. split; [exact TR|].
    split; [exact F|]. apply outs_ok_cons_other; [intros; discriminate|exact O].
  - subst b'. destruct (v2_check (h_nb h) b t); [now apply register_spec|now apply Hexp].
  - subst b'. destruct (N.eqb tok 4); [now apply Hexp|].
    destruct (throttled h (c_addr cn) ACT_INTERNAL); [now apply Hexp|].
    destruct (negb (N.eqb tok 0)); [now apply (Hexp (record_failure h (c_addr cn) ACT_INTERNAL))|].
    destruct (h_nb h <=? b); [now apply (Hexp (record_failure h (c_addr cn) ACT_INTERNAL))|].
    now apply register_spec.
  - destruct (throttled h (c_addr cn) ACT_RESUME).
    { apply conn_only_spec; auto. }
    destruct i as [n|n|k|n]; try (apply conn_only_spec; auto; fail).
    destruct (get_sess h n) as [s|] eqn:Hs; [|apply conn_only_spec; auto].
    destruct (is_virtual (s_kind s)) eqn:Hv; [apply conn_only_spec; auto|].
    assert (Hb : s_backend s = b) by now apply Hon.
    destruct (resume_pre h c n s B_session_resumed Hs (proj2 TIh) Hu) as (Es1 & Er1 & Eb1 & En1 & Ec1 & Eo1).
    match goal with |- context [let '(h1, outs1) := ?X in _] => destruct X as [h1 outs1] end. cbn [fst snd] in *.
    set (s1 := sess_pending (sess_conn s (Some c)) []).
    match goal with |- context [(?hh, outs1 ++ _)] => set (h5 := hh) end.
    assert (E5s : h_sessions h5 = aset (h_sessions h) n s1) by (cbn; now rewrite Es1).
    assert (E5r : h_rooms h5 = h_rooms h) by (cbn; exact Er1).
    assert (E5b : h_bus h5 = h_bus h) by (cbn; exact Eb1).
    assert (E5c : h_conns h5 = aset (h_conns h1) c (mkconn (c_addr cn) (Some n) false)) by reflexivity.
    match goal with |- context [if _ then _ else (h5, ?oo)] => set (outs5 := oo) end.
    assert (S5 : TI h5 /\ Loc b (Some c) h (h5, outs5)).
    { split; [split|split]; cbn [fst].
    + apply (ten_shr h); [apply TIh|]. apply (shr_aset h h5 n s s1); [exact E5s|exact E5r|exact En1|exact Hs|now apply keeps_same].
    + intros tid c' (t & Ht & Hc). unfold get_sess in Ht. rewrite E5s, aget_aset in Ht. unfold attached. rewrite E5c.
      destruct (N.eqb_spec tid n) as [->|Hne].
      * injection Ht as <-. cbn in Hc. injection Hc as <-. rewrite aget_aset_same. eexists. split; reflexivity.
      * destruct (proj2 TIh tid c' (ex_intro _ t (conj Ht Hc))) as (cn0 & Hcn & Hcs).
        assert (Hcc : c' <> c) by (intros ->; rewrite (Hu cn0 Hcn) in Hcs; discriminate).
        assert (Hcs' : s_conn s <> Some c').
        { intros Hsc. apply Hne. apply (attached_fun h c'); [exists cn0; auto|]. apply (proj2 TIh). exists s. auto. }
        exists cn0. rewrite aget_aset_other by exact Hcc. rewrite (Ec1 c' Hcs'). auto.
    + apply (fr_aset b (Some c) h h5 n s1 E5s E5r E5b); [exact Hon|exact Hb|].
      intros c' Hc'. cbn in Hc'. left. congruence.
    + cbn [snd]. apply outs_ok_app.
      * intros c' m Hin. right. exists n, s. split; [exact Hs|]. split; [exact Hb|]. now apply (Eo1 c' m).
      * apply own_outs_ok. intros c' m [E|Hin]; [now injection E as <- _|].
        unfold flush in Hin. apply in_map_iff in Hin as (m0 & E & _). now injection E as <- _. }
    destruct (queue_closes s); [|exact S5].
    (* the queue closes the connection: the session attached a moment ago (of backend b) is closed *)
    destruct S5 as [T5 L5].
    assert (Hcb : cb b h5 c).
    { intros cn1 x Hc1 Hx. rewrite E5c, aget_aset_same in Hc1. injection Hc1 as <-. cbn in Hx. injection Hx as <-.
      exists s1. split; [unfold get_sess; rewrite E5s; apply aget_aset_same|exact Hb]. }
    pose proof (ti_close_conn h5 c T5) as T6.
    pose proof (loc_bind b (Some c) h (h5, outs5) (close_conn h5 c) L5 (loc_close_conn b (Some c) h5 c T5 Hcb)) as L6.
    destruct (close_conn h5 c) as [h6 o6]. cbn [fst snd] in *. split; [exact T6|exact L6].
Qed.

(* ------------------------------------------------------------------ virtual sessions *)
Lemma ti_close_one h x : TI h -> TI (fst (close_one h x)).
Proof. intros TIh. apply (ti_next h); [exact TIh|apply shr_close_one|apply bij_close_one, TIh]. Qed.

Lemma vt_bsid b h sid s v vs : WF h -> Ten h -> get_sess h sid = Some s -> s_backend s = b ->
  pget (h_vtable h) (sid, v) = Some vs -> bsid b h vs.
Proof.
  intros W T Hs Hb Hv t Ht. destruct (wf_vt _ _ h W sid v vs Hv) as (sp & Hsp & Hk).
  rewrite Hsp in Ht. injection Ht as <-. rewrite <- Hb. symmetry. apply (t_parent h T vs sp sid v Hsp Hk s Hs).
Qed.

Lemma ti_put_keep h x s s' : TI h -> get_sess h x = Some s -> keeps s s' -> s_conn s' = s_conn s -> TI (put_sess h x s').
Proof.
  intros TIh Hs K Hc. apply (ti_next h); [exact TIh|now apply shr_put with s|].
  apply (bij_ceq h); [|apply TIh]. apply ceq_put with s; auto.
Qed.

Lemma do_internal_spec b h c sid s q : WF h -> TI h -> get_sess h sid = Some s -> s_backend s = b ->
  TI (fst (do_internal h c sid s q)) /\ Loc b (Some c) h (do_internal h c sid s q).
Proof.
  intros W TIh Hs Hb. set (oc := Some c). unfold do_internal.
  assert (Hsid : bsid b h sid) by (intros t Ht; congruence).
  destruct q as [v rn user flags incall|v rn flags incall|v rn|ic].
  - (* add *)
    set (k := (s_backend s, rn)). assert (Hk : fst k = b) by exact Hb.
    destruct (room_of h k) as [r|] eqn:Hroom; [|split; [exact TIh|apply loc_ret]].
    set (vs := next_id h). set (h0 := set_nextsid h vs).
    assert (Hprev : pget (h_vtable h0) (sid, v) = pget (h_vtable h) (sid, v)) by reflexivity.
    match goal with |- context [mksess (s_backend s) (KVirtual sid v) user (Some k) (2000000 + vs) None None [] [] 0 ?ic ?fl [] [] [] 0] =>
      set (icv := ic); set (flv := fl); set (vsess := mksess (s_backend s) (KVirtual sid v) user (Some k) (2000000 + vs) None None [] [] 0 ic fl [] [] [] 0) end.
    set (r' := mkroom (nadd vs (r_members r)) (r_incall r) (r_sessdata r) (r_transient r) (r_props r)).
    set (hr := set_rooms h0 (pset (h_rooms h0) k r')).
    set (h1 := put_sess hr vs vsess).
    assert (Hfresh : get_sess h vs = None) by apply next_id_fresh.
    assert (T1 : Ten h1).
    { apply (ten_new h h1 vs vsess W (proj1 TIh) Hfresh); [reflexivity| | |].
      - intros k0 Hk0. cbn in Hk0. injection Hk0 as <-. reflexivity.
      - intros p0 v0 Hk0. cbn in Hk0. injection Hk0 as <- <-. intros t Ht. cbn. congruence.
      - intros k0 r0 m Hr0 Hm. change (room_of h1 k0) with (pget (pset (h_rooms h) k r') k0) in Hr0.
        rewrite pget_pset in Hr0. destruct (pair_eqb_spec k0 k) as [->|Hne].
        + injection Hr0 as <-. cbn [r_members r'] in Hm. apply nmem_In in Hm. rewrite nmem_nadd in Hm.
          apply orb_prop in Hm as [Hm|Hm]; [apply N.eqb_eq in Hm; left; split; [exact Hm|reflexivity]|].
          right. apply nmem_In in Hm. eauto.
        + right. eauto. }
    assert (B1 : Bij h1).
    { apply (bij_ceq h); [|apply TIh]. constructor; [reflexivity|].
      intros tid c' (t & Ht & Hc'). change (get_sess h1 tid) with (aget (aset (h_sessions h) vs vsess) tid) in Ht.
      rewrite aget_aset in Ht. destruct (N.eqb_spec tid vs) as [->|Hne]; [injection Ht as <-; discriminate|]. exists t. auto. }
    assert (F1 : Fr b oc h h1).
    { eapply fr_trans; [apply (fr_eq b oc h h0); reflexivity|].
      eapply fr_trans; [apply (fr_set_room b oc h0 k r' Hk)|]. fold hr.
      apply (fr_aset b oc hr h1 vs vsess); try reflexivity.
      - intros t Ht. change (get_sess hr vs) with (get_sess h vs) in Ht. congruence.
      - exact Hb.
      - intros c' Hc'. discriminate. }
    assert (Hvs1 : bsid b h1 vs) by (intros t Ht; unfold h1 in Ht; rewrite gp_same in Ht; injection Ht as <-; exact Hb).
    set (h2 := set_vtable h1 (pset (h_vtable h1) (sid, v) vs)).
    set (h5 := rs_set h2 vs (2000000 + vs)).
    assert (E5 : h_sessions h5 = h_sessions h1 /\ h_rooms h5 = h_rooms h1 /\ h_bus h5 = h_bus h1 /\ h_conns h5 = h_conns h1).
    { unfold h5. rewrite rs_set_sessions, rs_set_rooms, rs_set_bus, rs_set_conns. auto. }
    destruct E5 as (E5s & E5r & E5b & E5c).
    assert (TI5 : TI h5) by (apply (ti_ext h1); auto; split; assumption).
    assert (F5 : Fr b oc h1 h5) by (apply fr_eq; auto).
    set (h6 := publish h5 (SubjRoom (fst k) (snd k)) (ARoomEvent (SJoin [(vs, user)]))).
    set (h7 := publish h6 (SubjRoom (fst k) (snd k)) (AEvent (SPart 0) 0 false)).
    set (h8 := if N.eqb flv 0 then h7 else publish h7 (SubjRoom (fst k) (snd k)) (AEvent (SFlags vs flv) 0 false)).
    set (h9 := publish h8 (SubjBackendRoom (fst k) (snd k)) (ASessionJoined vs false)).
    assert (F8 : Fr b oc h5 h8).
    { apply fr_trans with h6; [apply fr_publish; now apply pub_ok_plain|].
      apply fr_trans with h7; [apply fr_publish; now apply pub_ok_plain|].
      unfold h8. destruct (N.eqb flv 0); [apply fr_refl|]. apply fr_publish. now apply pub_ok_plain. }
    assert (TI8 : TI h8).
    { unfold h8. destruct (N.eqb flv 0); [|apply ti_publish]; apply ti_publish, ti_publish, TI5. }
    assert (F18 : Fr b oc h1 h8) by (eapply fr_trans; eauto).
    assert (F9 : Fr b oc h8 h9).
    { apply fr_publish. split; cbn; [exact Hk|]. eapply bsid_fr; eauto. }
    assert (TI9 : TI h9) by now apply ti_publish.
    assert (F09 : Fr b oc h h9) by (eapply fr_trans; [exact F1|]; eapply fr_trans; eauto).
    set (Y := match pget (h_vtable h) (sid, v) with Some pv => close_one h9 pv | None => (h9, []) end).
    assert (L10 : TI (fst Y) /\ Fr b oc h9 (fst Y) /\ noconn (snd Y)).
    { unfold Y. destruct (pget (h_vtable h) (sid, v)) as [pv|] eqn:Hpv; [|split; [exact TI9|split; [apply fr_refl|apply noconn_nil]]].
      split; [now apply ti_close_one|]. split; [|apply noconn_close_one].
      apply fr_close_one; [apply TI9|]. eapply bsid_fr; [exact F09|]. apply (vt_bsid b h sid s v pv W (proj1 TIh) Hs Hb Hpv). }
    destruct L10 as (TI10 & F10 & N10).
    match goal with |- context [let '(h10, outs10) := ?X in _] => change X with Y end.
    destruct Y as [h10 o10]. cbn [fst snd] in *.
    split; [exact TI10|]. apply loc_noconn; cbn [fst snd]; [eapply fr_trans; eauto|].
    apply noconn_cons; [intros; discriminate|exact N10].
  - (* update *)
    set (k := (s_backend s, rn)). assert (Hk : fst k = b) by exact Hb.
    destruct (room_of h k) as [r|]; [|split; [exact TIh|apply loc_ret]].
    destruct (pget (h_vtable h) (sid, v)) as [vs|] eqn:Hv; [|split; [exact TIh|apply loc_ret]].
    destruct (get_sess h vs) as [t|] eqn:Ht; [|split; [exact TIh|apply loc_ret]].
    assert (Hvs : bsid b h vs) by (apply (vt_bsid b h sid s v vs W (proj1 TIh) Hs Hb Hv)).
    assert (Hbt : s_backend t = b) by now apply Hvs.
    match goal with |- context [put_sess h vs ?s1] => set (t1 := s1) end.
    set (h1 := put_sess h vs t1).
    assert (F1 : Fr b oc h h1) by (apply fr_put with t; auto).
    assert (TI1 : TI h1) by (apply (ti_put_keep h vs t t1); auto; now apply keeps_same).
    match goal with |- context [if ?fc then publish h1 ?sj ?m else h1] => set (h2 := if fc then publish h1 sj m else h1) end.
    assert (F2 : Fr b oc h1 h2 /\ TI h2).
    { unfold h2. match goal with |- context [if ?fc then _ else _] => destruct fc end; [|split; [apply fr_refl|exact TI1]].
      split; [apply fr_publish; now apply pub_ok_plain|now apply ti_publish]. }
    destruct F2 as [F2 TI2].
    match goal with |- context [if ?icc then publish (set_incall h2 k vs ?on) ?sj ?m else h2] =>
      assert (F3 : Fr b oc h2 (if icc then publish (set_incall h2 k vs on) sj m else h2) /\
                   TI (if icc then publish (set_incall h2 k vs on) sj m else h2)) end.
    { match goal with |- context [if ?icc then _ else _] => destruct icc end; [|split; [apply fr_refl|exact TI2]].
      split; [|now apply ti_publish, ti_set_incall].
      eapply fr_trans; [now apply (fr_set_incall b oc h2 k vs)|]. apply fr_publish. now apply pub_ok_plain. }
    destruct F3 as [F3 TI3]. cbn [fst]. split; [exact TI3|]. apply loc_fr.
    eapply fr_trans; [exact F1|]. eapply fr_trans; eauto.
  - (* remove *)
    set (k := (s_backend s, rn)).
    destruct (room_of h k) as [r|]; [|split; [exact TIh|apply loc_ret]].
    destruct (pget (h_vtable h) (sid, v)) as [vs|] eqn:Hv; [|split; [exact TIh|apply loc_ret]].
    assert (Hvs : bsid b h vs) by (apply (vt_bsid b h sid s v vs W (proj1 TIh) Hs Hb Hv)).
    set (h1 := set_vtable h (pdel (h_vtable h) (sid, v))).
    assert (TI1 : TI h1) by (apply (ti_ext h); auto).
    split; [now apply ti_close_one|]. apply loc_noconn; [|apply noconn_close_one].
    eapply fr_trans; [apply (fr_eq b oc h h1); reflexivity|]. apply fr_close_one; [apply TI1|exact Hvs].
  - (* in-call flags of the internal session itself *)
    destruct (N.eqb ic (s_incall s)); [split; [exact TIh|apply loc_ret]|].
    match goal with |- context [put_sess h sid ?s1] => set (s1' := s1) end.
    set (h1 := put_sess h sid s1').
    assert (F1 : Fr b oc h h1) by (apply fr_put with s; auto).
    assert (TI1 : TI h1) by (apply (ti_put_keep h sid s s1'); auto; now apply keeps_same).
    destruct (s_room s) as [k0|] eqn:Hr; [|split; [exact TI1|now apply loc_fr]].
    assert (Hk0 : fst k0 = b) by (rewrite <- Hb; apply (t_room h (proj1 TIh) sid s k0 Hs Hr)).
    destruct (N.testbit ic 0).
    + cbn [fst]. split; [now apply ti_publish, ti_set_incall|]. apply loc_fr.
      eapply fr_trans; [exact F1|]. eapply fr_trans; [now apply (fr_set_incall b oc h1 k0 sid true)|].
      apply fr_publish. now apply pub_ok_plain.
    + set (hi := set_incall h1 k0 sid false).
      assert (Fi : Fr b oc h1 hi) by now apply fr_set_incall.
      assert (TIi : TI hi) by now apply ti_set_incall.
      pose proof (fr_leave_call b oc hi sid) as F2. pose proof (noconn_leave_call hi sid) as N2.
      pose proof (ti_leave_call hi sid TIi) as TI2.
      destruct (leave_call hi sid) as [h2 o2]. cbn [fst snd] in *.
      split; [now apply ti_publish|]. apply loc_noconn; cbn [fst snd]; [|exact N2].
      eapply fr_trans; [exact F1|]. eapply fr_trans; [exact Fi|]. eapply fr_trans; [apply F2|].
      * eapply bsid_fr; [exact Fi|]. eapply bsid_fr; [exact F1|exact Hsid].
      * apply fr_publish. now apply pub_ok_plain.
Qed.

(* ------------------------------------------------------------------ one step keeps the invariants *)
Lemma with_session_spec (P : hub * list out -> Prop) h c f :
  P (h, []) -> P (h, [ToConn c (SError E_hello_expected)]) ->
  (forall cn sid s, aget (h_conns h) c = Some cn -> c_sess cn = Some sid -> get_sess h sid = Some s -> P (f cn sid s)) ->
  P (with_session h c f).
Proof.
  intros H0 H1 Hf. unfold with_session. destruct (aget (h_conns h) c) as [cn|] eqn:Hc; [|exact H0].
  destruct (c_sess cn) as [sid|] eqn:Hs; [|exact H1]. destruct (get_sess h sid) as [s|] eqn:Hg; [|exact H1]. now apply (Hf cn sid s).
Qed.

Lemma hello_on_ex h hl : exists b, hello_on b h hl.
Proof.
  destruct hl as [b u r|b u t|b t f d|i]; try (exists b; reflexivity).
  destruct i as [n|n|k|n]; try (exists 0; exact I).
  destruct (get_sess h n) as [s|] eqn:Hs; [exists (s_backend s); intros t Ht; cbn; congruence|exists 0; intros t Ht; cbn in *; congruence].
Qed.

Lemma ti_revoke h x : TI h -> TI (fst (revoke h x)).
Proof. intros TIh. apply (ti_next h); [exact TIh|apply shr_revoke|apply bij_revoke, TIh]. Qed.

Lemma ti_fold_send h l m : TI h -> TI (fst (fold_sessions h l (fun hh x => send_session hh x m))).
Proof. intros TIh. apply wf_fold_sessions; [exact TIh|]. intros hh x. apply ti_send_session. Qed.

Lemma step_transient h c kindn key val :
  step h (OTransient c kindn key val) =
  with_session h c (fun cn sid s =>
    match s.(s_room) with
    | None => (h, [ToConn c (SError E_not_in_room)])
    | Some k => if 2 <=? kindn then (h, [ToConn c (SError E_ignored)])
                else if negb (allowed_transient s) then (h, [ToConn c (SError E_not_allowed)])
                else match room_of h k with None => (h, []) | Some r => transient_update h k r (N.eqb kindn 1) key val end
    end).
Proof. reflexivity. Qed.

Lemma drop_state h c cn sid s : aget (h_conns h) c = Some cn -> c_sess cn = Some sid -> get_sess h sid = Some s ->
  let h2 := put_sess (set_conns h (adel (h_conns h) c)) sid (sess_conn s None) in
  let h3 := set_clients h2 (nrem sid (h_clients h2)) in
  step h (ODrop c) = (set_expired h3 (nadd sid (h_expired h3)), [Closed c]).
Proof.
  intros Hc Hs Hg. cbn [step]. rewrite Hc, Hs.
  change (get_sess (set_conns h (adel (h_conns h) c)) sid) with (get_sess h sid). rewrite Hg. reflexivity.
Qed.

Theorem ti_step h o : WF h -> TI h -> TI (fst (step h o)).
Proof.
  intros W TIh. destruct o as [c addr|c hl|c rn rs rep|c to tag|c to tag|c|c|secs|b signas room q|c q|c to mk stream media|tok ok|c kindn key val|pos|c hl late].
  - (* connect *)
    cbn [step]. destruct (aget (h_conns h) c) as [cn|] eqn:Hc; [exact TIh|]. cbn [fst].
    apply (conn_only_spec 0 c h _ [] TIh); try reflexivity.
    + intros cn0 Hcn0. congruence.
    + intros c' Hne. cbn [h_conns set_conns]. now apply aget_aset_other.
    + intros c' m [].
  - (* hello *)
    cbn [step]. destruct (aget (h_conns h) c) as [cn|] eqn:Hc; [|exact TIh]. destruct (c_sess cn) eqn:Hs; [exact TIh|].
    match goal with |- context [do_hello ?hh c cn hl] => set (h' := hh) end.
    assert (Hu : unattached h c) by (intros cn0 Hcn0; congruence).
    assert (TI' : TI h').
    { apply (conn_only_spec 0 c h h' [] TIh Hu); try reflexivity.
      - intros c' Hne. cbn [h' h_conns set_conns]. now apply aget_aset_other.
      - intros c' m []. }
    assert (Hu' : unattached h' c).
    { intros cn0 Hcn0. unfold h' in Hcn0. cbn [h_conns set_conns] in Hcn0. rewrite aget_aset_same in Hcn0. now injection Hcn0 as <-. }
    assert (W' : WF h') by (apply wf_set_conn_nosess; [exact W|reflexivity]).
    destruct (hello_on_ex h' hl) as [b Hon]. apply (do_hello_spec b h' c cn hl W' TI' Hu' Hon).
  - (* join *)
    cbn [step]. apply (with_session_spec (fun r => TI (fst r))); try exact TIh.
    intros cn sid s Hc Hs Hg. destruct (do_join_spec (s_backend s) None h c sid s rn rs rep TIh Hg eq_refl) as [TJ _].
    destruct (do_join h c sid s rn rs rep) as [h1 o1]. cbn [fst] in TJ.
    destruct rep as [[p|] su|code]; try exact TJ.
    destruct (get_sess h1 sid) as [s1|]; [|exact TJ].
    match goal with |- context [if ?cnd then _ else _] => destruct cnd end; [|exact TJ].
    pose proof (ti_revoke h1 sid TJ) as TR. destruct (revoke h1 sid) as [h2 o2]. exact TR.
  - cbn [step]. apply (with_session_spec (fun r => TI (fst r))); try exact TIh.
    intros cn sid s Hc Hs Hg. apply (ti_next h); [exact TIh|apply shr_do_message|apply bij_do_message, TIh].
  - cbn [step]. apply (with_session_spec (fun r => TI (fst r))); try exact TIh.
    intros cn sid s Hc Hs Hg. destruct (allowed_control s); [|exact TIh].
    apply (ti_next h); [exact TIh|apply shr_do_message|apply bij_do_message, TIh].
  - (* bye *)
    cbn [step]. destruct (aget (h_conns h) c) as [cn|]; [|exact TIh]. destruct (c_sess cn); [|exact TIh]. now apply ti_send_conn.
  - (* drop *)
    destruct (aget (h_conns h) c) as [cn|] eqn:Hc; [|cbn [step]; rewrite Hc; exact TIh].
    destruct (c_sess cn) as [sid|] eqn:Hs.
    + destruct (get_sess h sid) as [s|] eqn:Hg.
      * rewrite (drop_state h c cn sid s Hc Hs Hg). cbn [fst].
        assert (E : put_sess (set_conns h (adel (h_conns h) c)) sid (sess_conn s None) = conn_gone h c sid).
        { unfold conn_gone. change (get_sess (set_conns h (adel (h_conns h) c)) sid) with (get_sess h sid). now rewrite Hg. }
        rewrite E. apply (ti_ext (conn_gone h c sid)); try reflexivity. split.
        -- apply (ten_shr h); [apply TIh|]. rewrite <- E.
           eapply shr_trans; [apply (shr_eq h (set_conns h (adel (h_conns h) c))); reflexivity|].
           apply shr_put with s; [exact Hg|now apply keeps_same].
        -- apply (bij_conn_gone h c cn sid); [apply TIh|exact Hc|exact Hs].
      * cbn [step]. rewrite Hc, Hs. change (get_sess (set_conns h (adel (h_conns h) c)) sid) with (get_sess h sid). rewrite Hg. cbn [fst].
        split; [apply (ten_ext h); [apply TIh|reflexivity|reflexivity]|].
        intros tid c' (t & Ht & Hct). change (get_sess h tid = Some t) in Ht.
        destruct (proj2 TIh tid c' (ex_intro _ t (conj Ht Hct))) as (cn' & Hcn' & Hcs').
        assert (Hcc : c' <> c) by (intros ->; rewrite Hc in Hcn'; injection Hcn' as <-; congruence).
        exists cn'. cbn [h_conns set_conns]. now rewrite aget_adel_other.
    + cbn [step]. rewrite Hc, Hs. cbn [fst].
      split; [apply (ten_ext h); [apply TIh|reflexivity|reflexivity]|].
      intros tid c' (t & Ht & Hct). destruct (proj2 TIh tid c' (ex_intro _ t (conj Ht Hct))) as (cn' & Hcn' & Hcs').
      assert (Hcc : c' <> c) by (intros ->; congruence).
      exists cn'. cbn [h_conns set_conns]. now rewrite aget_adel_other.
  - cbn [step]. apply (ti_next h); [exact TIh|apply shr_do_tick|apply bij_do_tick, TIh].
  - cbn [step]. destruct (negb (N.eqb b signas) || (h_nb h <=? b)); [exact TIh|now apply ti_do_api].
  - cbn [step]. apply (with_session_spec (fun r => TI (fst r))); try exact TIh.
    intros cn sid s Hc Hs Hg. destruct (is_internal (s_kind s)); [|exact TIh].
    apply (do_internal_spec (s_backend s) h c sid s q W TIh Hg eq_refl).
  - cbn [step]. apply (with_session_spec (fun r => TI (fst r))); try exact TIh.
    intros cn sid s Hc Hs Hg. apply (ti_next h); [exact TIh|now apply shr_do_media|now apply bij_do_media; [|apply TIh]].
  - cbn [step]. apply (ti_next h); [exact TIh|apply shr_do_mcudone|apply bij_do_mcudone, TIh].
  - rewrite step_transient. apply (with_session_spec (fun r => TI (fst r))); try exact TIh.
    intros cn sid s Hc Hs Hg. destruct (s_room s) as [k|] eqn:Hr; [|exact TIh].
    destruct (2 <=? kindn); [exact TIh|].
    destruct (negb (allowed_transient s)); [exact TIh|]. destruct (room_of h k) as [r|] eqn:Hroom; [|exact TIh].
    apply (transient_update_spec (fst k) None h k r (N.eqb kindn 1) key val TIh Hroom eq_refl).
  - cbn [step]. now apply ti_deliver_at.
  - (* aborted hello *)
    cbn [step]. destruct (aget (h_conns h) c) as [cn|]; [|exact TIh]. destruct (c_sess cn); [exact TIh|].
    destruct hl as [b u rej|b u t|b t f d|i]; try exact TIh.
    + destruct rej; [exact TIh|]. destruct (h_nb h <=? b); [exact TIh|].
      match goal with |- context [close_conn ?hh c] => pose proof (ti_close_conn hh c) as TC; destruct (close_conn hh c) as [h2 o2] end.
      cbn [fst] in *. apply TC. destruct late; [apply (ti_ext h); auto|exact TIh].
    + now apply ti_close_conn.
Qed.

(* ------------------------------------------------------------------ one step touches one backend *)
Definition own_conn (o : op) : option N :=
  match o with
  | OConnect c _ | OHello c _ | OJoin c _ _ _ | OMsg c _ _ | OCtl c _ _ | OBye c | ODrop c | OInternal c _
  | OMedia c _ _ _ _ | OTransient c _ _ _ | OHelloAborted c _ _ => Some c
  | OTick _ | OApi _ _ _ _ | OMcuDone _ _ | ODeliver _ => None
  end.
(* the session attached to the connection, if any, is a session of b *)
Definition conn_on (b : N) (h : hub) (c : N) : Prop :=
  forall cn sid s, aget (h_conns h) c = Some cn -> c_sess cn = Some sid -> get_sess h sid = Some s -> s_backend s = b.
(* the op acts on behalf of backend b.  The clock, deliveries and completions of the media server
   are not attributable to a backend (deliver_local, mcudone_local below). *)
Definition op_on (b : N) (h : hub) (o : op) : Prop :=
  match o with
  | OApi b' _ _ _ => b' = b
  | OHello c hl => conn_on b h c /\ (unattached h c -> hello_on b h hl)
  | OConnect c _ | OHelloAborted c _ _ => conn_on b h c
  | OJoin c _ _ _ | OMsg c _ _ | OCtl c _ _ | OBye c | ODrop c | OInternal c _ | OMedia c _ _ _ _ | OTransient c _ _ _ => conn_on b h c
  | OTick _ | ODeliver _ | OMcuDone _ _ => False
  end.

Lemma loc_own b c h m : Loc b (Some c) h (h, [ToConn c m]).
Proof. split; [apply fr_refl|]. apply outs_ok_cons_own; [reflexivity|apply outs_ok_nil]. Qed.

Lemma close_unattached h c cn : aget (h_conns h) c = Some cn -> c_sess cn = None ->
  close_conn h c = (set_conns h (adel (h_conns h) c), [Closed c]).
Proof. intros Hc Hs. unfold close_conn. now rewrite Hc, Hs. Qed.

Theorem step_local b h o : WF h -> TI h -> rs_local h o = true -> op_on b h o -> Loc b (own_conn o) h (step h o).
Proof.
  intros W TIh Hl Hon.
  destruct o as [c addr|c hl|c rn rs rep|c to tag|c to tag|c|c|secs|b' signas room q|c q|c to mk stream media|tok ok|c kindn key val|pos|c hl late];
    cbn [own_conn op_on] in *; try contradiction.
  - (* connect *)
    cbn [step]. destruct (aget (h_conns h) c) as [cn|]; [apply loc_ret|].
    split; cbn [fst snd]; [apply fr_eq; reflexivity|]. apply outs_ok_cons_own; [reflexivity|apply outs_ok_nil].
  - (* hello *)
    cbn [step]. destruct (aget (h_conns h) c) as [cn|] eqn:Hc; [|apply loc_ret]. destruct (c_sess cn) eqn:Hs; [apply loc_ret|].
    match goal with |- context [do_hello ?hh c cn hl] => set (h' := hh) end.
    assert (Hu : unattached h c) by (intros cn0 Hcn0; congruence).
    destruct (conn_only_spec b c h h' [] TIh Hu) as [TI' [F' _]]; try reflexivity.
    { intros c' Hne. cbn [h' h_conns set_conns]. now apply aget_aset_other. }
    { intros c' m []. }
    assert (Hu' : unattached h' c).
    { intros cn0 Hcn0. unfold h' in Hcn0. cbn [h_conns set_conns] in Hcn0. rewrite aget_aset_same in Hcn0. now injection Hcn0 as <-. }
    assert (W' : WF h') by (apply wf_set_conn_nosess; [exact W|reflexivity]).
    eapply loc_after_fr; [exact F'|]. apply (do_hello_spec b h' c cn hl W' TI' Hu'). exact (proj2 Hon Hu).
  - (* join *)
    cbn [step]. apply (with_session_spec (Loc b (Some c) h)); [apply loc_ret|apply loc_own|].
    intros cn sid s Hc Hs Hg. assert (Hb : s_backend s = b) by (apply (Hon cn sid s); auto).
    destruct (do_join_spec b (Some c) h c sid s rn rs rep TIh Hg Hb) as [TJ LJ].
    assert (Hko : kick_ok b h rs).
    { cbn [rs_local] in Hl. unfold conn_backend in Hl. rewrite Hc, Hs, Hg, Hb in Hl. intros x Hx. rewrite Hx in Hl. now apply sess_on_spec. }
    specialize (LJ Hko). destruct (do_join h c sid s rn rs rep) as [h1 o1]. cbn [fst] in TJ.
    destruct rep as [[p|] su|code]; try exact LJ.
    destruct (get_sess h1 sid) as [s1|]; [|exact LJ].
    match goal with |- context [if ?cnd then _ else _] => destruct cnd end; [|exact LJ].
    assert (L2 : Loc b (Some c) h1 (revoke h1 sid)).
    { apply loc_noconn; [|apply noconn_revoke]. apply fr_revoke. eapply bsid_fr; [apply LJ|]. intros t Ht. congruence. }
    destruct (revoke h1 sid) as [h2 o2]. apply (loc_bind b (Some c) h (h1, o1) (h2, o2)); assumption.
  - cbn [step]. apply (with_session_spec (Loc b (Some c) h)); [apply loc_ret|apply loc_own|].
    intros cn sid s Hc Hs Hg. apply loc_do_message; auto. apply (Hon cn sid s); auto.
  - cbn [step]. apply (with_session_spec (Loc b (Some c) h)); [apply loc_ret|apply loc_own|].
    intros cn sid s Hc Hs Hg. destruct (allowed_control s); [|apply loc_ret]. apply loc_do_message; auto. apply (Hon cn sid s); auto.
  - (* bye *)
    cbn [step]. destruct (aget (h_conns h) c) as [cn|] eqn:Hc; [|apply loc_ret]. destruct (c_sess cn) as [sid|] eqn:Hs; [|apply loc_own].
    apply loc_send_conn; [exact TIh|now left|]. intros cn0 x Hcn0 Hx. rewrite Hc in Hcn0. injection Hcn0 as <-.
    destruct (wf_conns _ _ h W c cn x Hc Hx) as (s & Hg & _). exists s. split; [exact Hg|]. apply (Hon cn x s); auto.
  - (* drop *)
    destruct (aget (h_conns h) c) as [cn|] eqn:Hc; [|cbn [step]; rewrite Hc; apply loc_ret].
    destruct (c_sess cn) as [sid|] eqn:Hs.
    + destruct (get_sess h sid) as [s|] eqn:Hg.
      * rewrite (drop_state h c cn sid s Hc Hs Hg). apply loc_noconn; cbn [fst snd]; [|apply noconn_cons; [intros; discriminate|apply noconn_nil]].
        assert (Hb : s_backend s = b) by (apply (Hon cn sid s); auto).
        match goal with |- Fr _ _ _ (set_expired (set_clients ?h2 _) _) => apply (fr_then_eq b (Some c) h h2); try reflexivity end.
        eapply fr_trans; [apply (fr_eq b (Some c) h (set_conns h (adel (h_conns h) c))); reflexivity|]. apply fr_put with s; auto.
      * cbn [step]. rewrite Hc, Hs. change (get_sess (set_conns h (adel (h_conns h) c)) sid) with (get_sess h sid). rewrite Hg.
        apply loc_noconn; cbn [fst snd]; [apply fr_eq; reflexivity|apply noconn_cons; [intros; discriminate|apply noconn_nil]].
    + cbn [step]. rewrite Hc, Hs. apply loc_noconn; cbn [fst snd]; [apply fr_eq; reflexivity|apply noconn_cons; [intros; discriminate|apply noconn_nil]].
  - (* room API *)
    subst b'. cbn [step]. destruct (negb (N.eqb b signas) || (h_nb h <=? b)); [apply loc_ret|]. apply loc_do_api; [exact TIh|exact Hl].
  - cbn [step]. apply (with_session_spec (Loc b (Some c) h)); [apply loc_ret|apply loc_own|].
    intros cn sid s Hc Hs Hg. destruct (is_internal (s_kind s)); [|apply loc_ret].
    apply (do_internal_spec b h c sid s q W TIh Hg). apply (Hon cn sid s); auto.
  - cbn [step]. apply (with_session_spec (Loc b (Some c) h)); [apply loc_ret|apply loc_own|].
    intros cn sid s Hc Hs Hg. apply loc_do_media; auto. apply (Hon cn sid s); auto.
  - rewrite step_transient. apply (with_session_spec (Loc b (Some c) h)); [apply loc_ret|apply loc_own|].
    intros cn sid s Hc Hs Hg. assert (Hb : s_backend s = b) by (apply (Hon cn sid s); auto).
    destruct (s_room s) as [k|] eqn:Hr; [|apply loc_own].
    destruct (2 <=? kindn); [apply loc_own|].
    destruct (negb (allowed_transient s)); [apply loc_own|]. destruct (room_of h k) as [r|] eqn:Hroom; [|apply loc_ret].
    apply (transient_update_spec b (Some c) h k r (N.eqb kindn 1) key val TIh Hroom). rewrite <- Hb. apply (t_room h (proj1 TIh) sid s k Hg Hr).
  - (* aborted hello *)
    cbn [step]. destruct (aget (h_conns h) c) as [cn|] eqn:Hc; [|apply loc_ret]. destruct (c_sess cn) eqn:Hs; [apply loc_ret|].
    destruct hl as [b' u rej|b' u t|b' t f d|i]; try apply loc_ret.
    + destruct rej; [apply loc_ret|]. destruct (h_nb h <=? b'); [apply loc_ret|].
      match goal with |- context [close_conn ?hh c] => rewrite (close_unattached hh c cn) end;
        [|destruct late; exact Hc|exact Hs].
      apply loc_noconn; cbn [fst snd]; [destruct late; apply fr_eq; reflexivity|].
      apply noconn_cons; [intros; discriminate|]. apply noconn_cons; [intros; discriminate|apply noconn_nil].
    + rewrite (close_unattached h c cn Hc Hs). apply loc_noconn; cbn [fst snd]; [apply fr_eq; reflexivity|].
      apply noconn_cons; [intros; discriminate|apply noconn_nil].
Qed.

(* deliveries: a publication of backend b reaches sessions of b only *)
Theorem deliver_local b oc h pos : WF h -> TI h ->
  (forall p rest, take_nth (N.to_nat pos) (h_bus h) = Some (p, rest) -> pub_ok b h p) ->
  Loc b oc h (step h (ODeliver pos)).
Proof. intros W TIh Hp. cbn [step]. now apply loc_deliver_at. Qed.

(* completions at the media server: only the session the object is created for is told and changed *)
Theorem mcudone_local b oc h tok ok : TI h ->
  (forall p, aget (h_mcupending h) tok = Some p -> bsid b h (mp_owner p) /\ bsid b h (mp_errto p)) ->
  Loc b oc h (step h (OMcuDone tok ok)).
Proof. intros TIh Hp. cbn [step]. now apply loc_do_mcudone. Qed.

Lemma drain_local b oc fuel : forall h, WF h -> TI h -> bus_all b h ->
  Loc b oc h (drain fuel h) /\ bus_all b (fst (drain fuel h)).
Proof.
  induction fuel as [|f IH]; intros h W TIh Ha; cbn [drain]; [split; [apply loc_ret|exact Ha]|].
  destruct (h_bus h) as [|p0 rest0] eqn:Hbus; [split; [apply loc_ret|exact Ha]|].
  assert (L1 : Loc b oc h (deliver_at h 0)).
  { apply loc_deliver_at; auto. intros p rest E. destruct (take_nth_incl _ _ _ _ E) as [Hin _]. now apply Ha. }
  pose proof (wf_deliver_at h 0 W) as W1. pose proof (ti_deliver_at h 0 TIh) as TI1.
  destruct (deliver_at h 0) as [h1 o1]. cbn [fst] in *.
  assert (Ha1 : bus_all b h1) by (apply (bus_all_fr b oc h); [apply L1|exact Ha]).
  destruct (IH h1 W1 TI1 Ha1) as [L2 Ha2]. destruct (drain f h1) as [h2 o2]. cbn [fst] in *.
  split; [|exact Ha2]. apply (loc_bind b oc h (h1, o1) (h2, o2)); assumption.
Qed.

Theorem qstep_local b h o : WF h -> TI h -> rs_local h o = true -> op_on b h o -> bus_all b h ->
  Loc b (own_conn o) h (qstep h o) /\ bus_all b (fst (qstep h o)).
Proof.
  intros W TIh Hl Hon Ha. unfold qstep.
  pose proof (step_local b h o W TIh Hl Hon) as L1.
  pose proof (wf_step h o W) as W1. pose proof (ti_step h o W TIh) as TI1.
  destruct (step h o) as [h1 o1]. cbn [fst] in *.
  assert (Ha1 : bus_all b h1) by (apply (bus_all_fr b (own_conn o) h); [apply L1|exact Ha]).
  destruct (drain_local b (own_conn o) 500 h1 W1 TI1 Ha1) as [L2 Ha2]. destruct (drain 500 h1) as [h2 o2]. cbn [fst] in *.
  split; [|exact Ha2]. apply (loc_bind b (own_conn o) h (h1, o1) (h2, o2)); assumption.
Qed.

(* ------------------------------------------------------------------ the invariants hold in every reachable state *)
Lemma ti_init limits gated : TI (init limits gated).
Proof. split; [apply ten_init|apply bij_init]. Qed.
Lemma ti_drain fuel : forall h, TI h -> TI (fst (drain fuel h)).
Proof.
  induction fuel as [|f IH]; intros h TIh; cbn [drain]; [exact TIh|]. destruct (h_bus h); [exact TIh|].
  pose proof (ti_deliver_at h 0 TIh) as TI1. destruct (deliver_at h 0) as [h1 o1]. cbn [fst] in *.
  specialize (IH h1 TI1). destruct (drain f h1) as [h2 o2]. exact IH.
Qed.
Theorem ti_qstep h o : WF h -> TI h -> TI (fst (qstep h o)).
Proof.
  intros W TIh. unfold qstep. pose proof (ti_step h o W TIh) as TI1. destruct (step h o) as [h1 o1]. cbn [fst] in *.
  pose proof (ti_drain 500 h1 TI1) as TI2. destruct (drain 500 h1) as [h2 o2]. exact TI2.
Qed.
Theorem ti_run ops : forall h, WF h -> TI h -> TI (run h ops).
Proof. induction ops as [|o r IH]; intros h W TIh; cbn [run]; [exact TIh|]. apply IH; [now apply wf_step|now apply ti_step]. Qed.
Theorem ti_qrun ops : forall h, WF h -> TI h -> TI (qrun h ops).
Proof. induction ops as [|o r IH]; intros h W TIh; cbn [qrun]; [exact TIh|]. apply IH; [now apply wf_qstep|now apply ti_qstep]. Qed.
Theorem ti_reachable limits gated ops : TI (run (init limits gated) ops).
Proof. apply ti_run; [apply wf_init|apply ti_init]. Qed.
Theorem ti_reachable_q limits gated ops : TI (qrun (init limits gated) ops).
Proof. apply ti_qrun; [apply wf_init|apply ti_init]. Qed.

(* ------------------------------------------------------------------ isolation_partial *)
(* what an op of backend b leaves alone *)
Definition isolated (b : N) (oc : option N) (h : hub) (r : hub * list out) : Prop :=
  (* (a) sessions of other backends: the whole record is unchanged, none appears, none disappears *)
  (forall sid s, s_backend s <> b -> get_sess h sid = Some s \/ get_sess (fst r) sid = Some s -> get_sess (fst r) sid = get_sess h sid) /\
  (* (b) messages go to the op's own connection or to connections of sessions of b *)
  (forall c m, In (ToConn c m) (snd r) -> Some c = oc \/ bconn b h c) /\
  (* (c) rooms of other backends are unchanged *)
  (forall b' rn, b' <> b -> room_of (fst r) (b', rn) = room_of h (b', rn)) /\
  (* what it queues for later delivery are publications of b *)
  (forall p, In p (h_bus (fst r)) -> In p (h_bus h) \/ pub_ok b (fst r) p).

Lemma isolated_of_loc b oc h r : Loc b oc h r -> isolated b oc h r.
Proof.
  intros [F O]. split; [|split; [|split]].
  - intros sid s Hne Hor. now apply (fr_sess _ _ _ _ F sid s).
  - exact O.
  - intros b' rn Hne. now apply (fr_room _ _ _ _ F (b', rn)).
  - apply (fr_bus _ _ _ _ F).
Qed.

Theorem isolation_partial_step b h o : WF h -> TI h -> rs_local h o = true -> op_on b h o ->
  isolated b (own_conn o) h (step h o).
Proof. intros W TIh Hl Hon. now apply isolated_of_loc, step_local. Qed.

Theorem isolation_partial b h o : WF h -> TI h -> rs_local h o = true -> op_on b h o -> bus_all b h ->
  isolated b (own_conn o) h (qstep h o) /\ bus_all b (fst (qstep h o)).
Proof. intros W TIh Hl Hon Ha. destruct (qstep_local b h o W TIh Hl Hon Ha) as [L A]. split; [now apply isolated_of_loc|exact A]. Qed.

Theorem isolation_deliver b h pos : WF h -> TI h ->
  (forall p rest, take_nth (N.to_nat pos) (h_bus h) = Some (p, rest) -> pub_ok b h p) ->
  isolated b None h (step h (ODeliver pos)).
Proof. intros W TIh Hp. now apply isolated_of_loc, deliver_local. Qed.

(* in reachable states *)
Corollary isolation_partial_reachable b limits gated ops o :
  let h := qrun (init limits gated) ops in
  rs_local h o = true -> op_on b h o -> bus_all b h -> isolated b (own_conn o) h (qstep h o).
Proof. intros h Hl Hon Ha. apply isolation_partial; auto; [apply wf_reachable_q|apply ti_reachable_q]. Qed.

(* ------------------------------------------------------------------ what another tenant sees: nothing *)
Lemma bconn_disjoint h b b0 c : Bij h -> bconn b h c -> bconn b0 h c -> b = b0.
Proof.
  intros B (x & s & Hs & Hb & Hc) (y & t & Ht & Hbt & Hct).
  assert (E : x = y) by (apply (attached_fun h c); apply B; [exists s|exists t]; auto). subst y. congruence.
Qed.
Lemma own_conn_free h b b0 o : Bij h -> op_on b h o -> b0 <> b -> forall c, Some c = own_conn o -> ~ bconn b0 h c.
Proof.
  intros B Hon Hne c Hc (x & s & Hs & Hb & Hcs).
  destruct (B x c (ex_intro _ s (conj Hs Hcs))) as (cn & Hcn & Hx).
  assert (Hco : conn_on b h c).
  { destruct o; cbn [own_conn op_on] in *; try discriminate; injection Hc as ->; try exact Hon; try contradiction. apply Hon. }
  apply Hne. rewrite <- Hb. apply (Hco cn x s); auto.
Qed.

Theorem isolation_victim b b0 h o : WF h -> TI h -> rs_local h o = true -> op_on b h o -> bus_all b h -> b0 <> b ->
  forall c m, In (ToConn c m) (snd (qstep h o)) -> ~ bconn b0 h c.
Proof.
  intros W TIh Hl Hon Ha Hne c m Hin. destruct (qstep_local b h o W TIh Hl Hon Ha) as [[_ O] _].
  destruct (O c m Hin) as [Hc|Hc].
  - now apply (own_conn_free h b b0 o (proj2 TIh) Hon Hne).
  - intros Hc0. apply Hne. symmetry. now apply (bconn_disjoint h b b0 c (proj2 TIh)).
Qed.

(* ------------------------------------------------------------------ histories *)
Fixpoint qrun_outs (h : hub) (ops : list op) : list out :=
  match ops with [] => [] | o :: r => snd (qstep h o) ++ qrun_outs (fst (qstep h o)) r end.
(* every op names no foreign room-session id, and the bus is drained when it starts *)
Fixpoint locals (h : hub) (ops : list op) : Prop :=
  match ops with [] => True | o :: r => rs_local h o = true /\ h_bus h = [] /\ locals (fst (qstep h o)) r end.
(* every op acts for a backend other than b0 *)
Fixpoint others (b0 : N) (h : hub) (ops : list op) : Prop :=
  match ops with [] => True | o :: r => (exists b, b <> b0 /\ op_on b h o) /\ others b0 (fst (qstep h o)) r end.

Record same_tenant (b0 : N) (h h' : hub) : Prop := {
  st_sess : forall sid s, s_backend s = b0 -> get_sess h sid = Some s \/ get_sess h' sid = Some s -> get_sess h' sid = get_sess h sid;
  st_room : forall rn, room_of h' (b0, rn) = room_of h (b0, rn);
}.
Lemma same_tenant_refl b0 h : same_tenant b0 h h.
Proof. constructor; auto. Qed.
Lemma same_tenant_trans b0 h1 h2 h3 : same_tenant b0 h1 h2 -> same_tenant b0 h2 h3 -> same_tenant b0 h1 h3.
Proof.
  intros [S1 R1] [S2 R2]. constructor.
  - intros sid s Hb [H|H].
    + pose proof (S1 sid s Hb (or_introl H)) as E1. rewrite H in E1. rewrite (S2 sid s Hb (or_introl E1)). congruence.
    + pose proof (S2 sid s Hb (or_intror H)) as E2. rewrite H in E2. symmetry in E2.
      rewrite <- (S1 sid s Hb (or_intror E2)). congruence.
  - intros rn. rewrite R2. apply R1.
Qed.
Lemma same_tenant_fr b b0 oc h h' : b0 <> b -> Fr b oc h h' -> same_tenant b0 h h'.
Proof.
  intros Hne F. constructor.
  - intros sid s Hb Hor. apply (fr_sess _ _ _ _ F sid s Hor). congruence.
  - intros rn. now apply (fr_room _ _ _ _ F (b0, rn)).
Qed.
Lemma same_tenant_bconn b0 h h' c : same_tenant b0 h h' -> bconn b0 h c -> bconn b0 h' c.
Proof.
  intros [S _] (x & s & Hs & Hb & Hc). exists x, s. split; [|auto]. rewrite (S x s Hb (or_introl Hs)). exact Hs.
Qed.

Lemma bus_all_nil b h : h_bus h = [] -> bus_all b h.
Proof. intros E p Hp. rewrite E in Hp. destruct Hp. Qed.

(* a history of ops of other backends, none of which names a room-session id of a foreign session:
   the sessions and rooms of backend b0 at the end are those of the beginning, and no message of the
   whole history went to a connection of b0 *)
Theorem isolation_history b0 ops : forall h, WF h -> TI h -> locals h ops -> others b0 h ops ->
  same_tenant b0 h (qrun h ops) /\
  (forall c m, In (ToConn c m) (qrun_outs h ops) -> ~ bconn b0 h c).
Proof.
  induction ops as [|o r IH]; intros h W TIh Hl Ho; cbn [qrun qrun_outs].
  - split; [apply same_tenant_refl|intros c m []].
  - destruct Hl as (Hl & Hb & Hlr). destruct Ho as ((b & Hne & Hon) & Hor).
    pose proof (bus_all_nil b h Hb) as Ha.
    destruct (qstep_local b h o W TIh Hl Hon Ha) as [[F O] _].
    assert (S1 : same_tenant b0 h (fst (qstep h o))) by (apply (same_tenant_fr b b0 (own_conn o)); auto).
    destruct (IH (fst (qstep h o)) (wf_qstep h o W) (ti_qstep h o W TIh) Hlr Hor) as [S2 O2].
    split; [eapply same_tenant_trans; eauto|].
    intros c m Hin. apply in_app_or in Hin as [Hin|Hin].
    + now apply (isolation_victim b b0 h o W TIh Hl Hon Ha (fun E => Hne (eq_sym E)) c m).
    + intros Hc. apply (O2 c m Hin). now apply (same_tenant_bconn b0 h).
Qed.

Corollary isolation_history_reachable b0 limits gated pre ops :
  let h := qrun (init limits gated) pre in
  locals h ops -> others b0 h ops ->
  same_tenant b0 h (qrun h ops) /\ (forall c m, In (ToConn c m) (qrun_outs h ops) -> ~ bconn b0 h c).
Proof. intros h. apply isolation_history; [apply wf_reachable_q|apply ti_reachable_q]. Qed.

(* ------------------------------------------------------------------ the hypotheses as executable tests *)
Definition attributable (o : op) : bool := match o with OTick _ | ODeliver _ | OMcuDone _ _ => false | _ => true end.
(* the backend an op acts for: that of the session attached to its connection; for a hello on a
   connection without session the backend it names (the backend of the session it resumes) *)
Definition op_tenant (h : hub) (o : op) : option N :=
  match o with
  | OApi b _ _ _ => Some b
  | OTick _ | ODeliver _ | OMcuDone _ _ => None
  | OHello c hl =>
      match conn_backend h c with
      | Some b => Some b
      | None => match hl with
                | HV1 b _ _ | HV2 b _ _ | HInternal b _ _ _ => Some b
                | HResume (IdPriv n) => match get_sess h n with Some s => Some (s_backend s) | None => None end
                | HResume _ => None
                end
      end
  | OConnect c _ | OHelloAborted c _ _ | OJoin c _ _ _ | OMsg c _ _ | OCtl c _ _ | OBye c | ODrop c | OInternal c _
  | OMedia c _ _ _ _ | OTransient c _ _ _ => conn_backend h c
  end.

Lemma conn_backend_on h c b : WF h -> match conn_backend h c with Some b' => b' = b | None => True end -> conn_on b h c.
Proof.
  intros W Hcb cn sid s Hc Hs Hg. unfold conn_backend in Hcb. rewrite Hc, Hs, Hg in Hcb. exact Hcb.
Qed.
Lemma conn_backend_unattached h c b : WF h -> conn_backend h c = Some b -> ~ unattached h c.
Proof.
  intros W Hcb Hu. unfold conn_backend in Hcb. destruct (aget (h_conns h) c) as [cn|] eqn:Hc; [|discriminate].
  rewrite (Hu cn Hc) in Hcb. discriminate.
Qed.

Lemma op_tenant_on h o b : WF h -> attributable o = true ->
  match op_tenant h o with Some b' => b' = b | None => True end -> op_on b h o.
Proof.
  intros W Ha Ht.
  destruct o as [c addr|c hl|c rn rs rep|c to tag|c to tag|c|c|secs|b' signas room q|c q|c to mk stream media|tok ok|c kindn key val|pos|c hl late];
    cbn [attributable] in Ha; try discriminate; cbn [op_on op_tenant] in *; try (now apply conn_backend_on); try exact Ht.
  destruct (conn_backend h c) as [b1|] eqn:Hcb.
  - subst b1. split; [apply conn_backend_on; [exact W|now rewrite Hcb]|]. intros Hu. exfalso. now apply (conn_backend_unattached h c b W Hcb).
  - split; [apply conn_backend_on; [exact W|now rewrite Hcb]|]. intros _.
    destruct hl as [b1 u r|b1 u t|b1 t f d|i]; cbn [hello_on]; try exact Ht.
    destruct i as [n|n|k|n]; try exact I. intros s Hs. rewrite Hs in Ht. exact Ht.
Qed.

Fixpoint hist_ok (b0 : N) (h : hub) (ops : list op) : bool :=
  match ops with
  | [] => true
  | o :: r =>
      rs_local h o && (match h_bus h with [] => true | _ => false end) && attributable o &&
      (match op_tenant h o with Some b => negb (N.eqb b b0) | None => true end) &&
      hist_ok b0 (fst (qstep h o)) r
  end.

Lemma hist_ok_spec b0 ops : forall h, WF h -> hist_ok b0 h ops = true -> locals h ops /\ others b0 h ops.
Proof.
  induction ops as [|o r IH]; intros h W H; cbn [hist_ok locals others] in *; [auto|].
  apply andb_prop in H as [H Hr]. apply andb_prop in H as [H Ht]. apply andb_prop in H as [H Ha]. apply andb_prop in H as [Hl Hb].
  destruct (IH (fst (qstep h o)) (wf_qstep h o W) Hr) as [L O].
  split; [split; [exact Hl|split; [destruct (h_bus h); [reflexivity|discriminate]|exact L]]|].
  split; [|exact O].
  destruct (op_tenant h o) as [b|] eqn:Hot.
  - exists b. split; [apply negb_true_iff in Ht; now apply N.eqb_neq|]. apply op_tenant_on; auto. now rewrite Hot.
  - exists (b0 + 1). split; [lia|]. apply op_tenant_on; auto. now rewrite Hot.
Qed.

(* the executable form of the history theorem *)
Theorem isolation_history_checked b0 limits gated pre ops :
  let h := qrun (init limits gated) pre in
  hist_ok b0 h ops = true ->
  same_tenant b0 h (qrun h ops) /\ (forall c m, In (ToConn c m) (qrun_outs h ops) -> ~ bconn b0 h c).
Proof.
  intros h Hok. destruct (hist_ok_spec b0 ops h (wf_reachable_q limits gated pre) Hok) as [L O].
  now apply isolation_history_reachable.
Qed.

(* ------------------------------------------------------------------ the hypotheses are satisfiable *)
(* two tenants with the same room id (5), the same user ids (7, 8); the Nextcloud session ids
   are disjoint per backend (11, 12 on backend 0; 21, 22 on backend 1) *)
Definition two_tenants_setup : list op :=
  [OConnect 1 0; OConnect 2 0; OConnect 3 0; OConnect 4 0; OConnect 5 0;
   OHello 1 (HV1 0 7 false); OHello 2 (HV1 1 7 false); OHello 3 (HV1 0 8 false); OHello 4 (HV1 1 8 false);
   OHello 5 (HInternal 0 0 true false);
   OJoin 1 5 11 (RepOk None 0); OJoin 2 5 21 (RepOk None 0); OJoin 3 5 12 (RepOk None 0); OJoin 4 5 22 (RepOk None 0);
   OJoin 5 5 0 (RepOk None 0)].
(* what backend 0, its clients and its internal client do afterwards *)
Definition tenant0_ops : list op :=
  [OMsg 1 RRoom 3; OMsg 1 (RUser 8) 4; OCtl 3 (RSession (IdPub 1)) 5; OMsg 1 (RSession (IdPub 2)) 6;
   OApi 0 0 5 (AParticipants [(IdRS 11, 1, Some 24)]); OApi 0 0 5 (AInCall [(IdRS 12, 1, None)]);
   OApi 0 0 5 (AInCallAll 1); OApi 0 0 5 (AMessage 9); OApi 0 0 5 (AUpdate 1);
   OTransient 3 0 1 2;
   OInternal 5 (IAdd 1 5 9 None None); OInternal 5 (IUpdate 1 5 (Some 2) None); OInternal 5 (IRemove 1 5);
   OMedia 1 (RSession (IdPub 1)) 0 0 3;
   ODrop 3; OMsg 1 RRoom 7; OConnect 6 0; OHello 6 (HResume (IdPriv 3));
   OJoin 1 0 0 (RepOk None 0); OJoin 1 5 11 (RepOk None 0);
   OApi 0 0 5 (ADisinvite [8] [12]);
   OApi 0 0 5 ADelete; OBye 1; OBye 5].

Definition conn_msgs (c : N) (outs : list out) : list smsg :=
  flat_map (fun o => match o with ToConn c' m => if N.eqb c c' then [m] else [] | _ => [] end) outs.

(* the whole history satisfies the side condition, and tenant 1 is a bystander of the second part *)
Example two_tenants_local :
  hist_ok 2 (init [0; 0] false) (two_tenants_setup ++ tenant0_ops) = true /\
  hist_ok 1 (qrun (init [0; 0] false) two_tenants_setup) tenant0_ops = true.
Proof. split; vm_compute; reflexivity. Qed.

(* not vacuous: the sessions of tenant 0 do get what tenant 0 does, those of tenant 1 nothing *)
Example two_tenants_traffic :
  let h := qrun (init [0; 0] false) two_tenants_setup in
  let outs := qrun_outs h tenant0_ops in
  (length (conn_msgs 1 outs) >= 5)%nat /\ (length (conn_msgs 3 outs) >= 5)%nat /\ (length (conn_msgs 6 outs) >= 3)%nat /\
  conn_msgs 2 outs = [] /\ conn_msgs 4 outs = [] /\
  get_sess (qrun h tenant0_ops) 2 = get_sess h 2 /\ get_sess (qrun h tenant0_ops) 4 = get_sess h 4 /\
  room_of (qrun h tenant0_ops) (1, 5) = room_of h (1, 5) /\ room_of h (1, 5) <> None /\
  room_of h (0, 5) <> None /\ room_of (qrun h tenant0_ops) (0, 5) = None.
Proof. vm_compute. repeat split; try reflexivity; try discriminate; repeat constructor. Qed.

Example two_tenants_isolated :
  let h := qrun (init [0; 0] false) two_tenants_setup in
  same_tenant 1 h (qrun h tenant0_ops) /\ (forall c m, In (ToConn c m) (qrun_outs h tenant0_ops) -> ~ bconn 1 h c).
Proof. apply (isolation_history_checked 1 [0; 0] false two_tenants_setup tenant0_ops). vm_compute. reflexivity. Qed.

(* the side condition is what the two known findings violate: the second tenant names the Nextcloud
   session id 5 held by a session of the first *)
Definition shared_rs_pre : list op :=
  [OConnect 1 0; OConnect 2 0; OHello 1 (HV1 0 1 false); OHello 2 (HV1 1 1 false); OJoin 1 1 5 (RepOk None 0)].
Example kick_not_local : rs_local (qrun (init [0; 0] false) shared_rs_pre) (OJoin 2 7 5 (RepOk None 0)) = false.
Proof. vm_compute. reflexivity. Qed.
Example api_not_local :
  rs_local (qrun (init [0; 0] false) shared_rs_pre) (OApi 1 1 9 (AParticipants [(IdRS 5, 0, Some 24)])) = false.
Proof. vm_compute. reflexivity. Qed.
(* and without it the statement fails: the session of backend 0 is closed by the join on backend 1,
   its permissions are changed by the API call of backend 1 *)
Lemma isolation_refuted_without_rs_local :
  let h := qrun (init [0; 0] false) shared_rs_pre in
  (exists s, get_sess h 1 = Some s /\ s_backend s = 0) /\
  get_sess (fst (qstep h (OJoin 2 7 5 (RepOk None 0)))) 1 = None /\
  (exists s s', get_sess h 1 = Some s /\
     get_sess (fst (qstep h (OApi 1 1 9 (AParticipants [(IdRS 5, 0, Some 24)])))) 1 = Some s' /\ s_perms s = None /\ s_perms s' = Some 24).
Proof. vm_compute. split; [eexists; split; reflexivity|]. split; [reflexivity|]. eexists. eexists. repeat split; reflexivity. Qed.

(* ------------------------------------------------------------------ the dial-out request of the room API *)
(* what a dial-out request writes is the request itself *)
Lemma send_dialout_outs h x r c m : In (ToConn c m) (snd (send_session h x (SDialout r))) -> m = SDialout r.
Proof.
  unfold send_session. match goal with |- context [deliver_to_session h ?t _] => generalize t end. intros t.
  unfold deliver_to_session. destruct (get_sess h t) as [s|]; [|intros []].
  cbv beta iota zeta. destruct (s_conn s) as [c'|]; cbn [snd In is_closing].
  - intros [E|[]]. now injection E.
  - intros [].
Qed.

Lemma dialout_session_none h b :
  (forall sid s, In sid (h_dialout h) -> get_sess h sid = Some s -> s_backend s = b -> s_conn s = None) ->
  dialout_session h b = None.
Proof.
  intros Hno. destruct (dialout_session h b) as [x|] eqn:Hd; [|reflexivity]. exfalso.
  unfold dialout_session in Hd. apply find_some in Hd as [Hin Hok]. unfold dialout_ok in Hok.
  destruct (get_sess h x) as [s|] eqn:Hs; [|discriminate]. apply andb_prop in Hok as [Hb Hc].
  apply N.eqb_eq in Hb. rewrite (Hno x s Hin Hs Hb) in Hc. discriminate.
Qed.

(* A dial-out request of backend b (whoever signed it, whatever room and number): every message it causes
   is the request itself, written to a connection of a session of b; no session of another backend changes,
   appears or disappears; and when b has no connected dial-out client - whatever clients OTHER backends
   have - nothing happens at all. *)
Theorem dialout_own_backend h b signas room ok : TI h ->
  let r := step h (OApi b signas room (ADialout ok)) in
  (forall c m, In (ToConn c m) (snd r) -> m = SDialout room /\ bconn b h c) /\
  (forall sid s, s_backend s <> b -> get_sess h sid = Some s \/ get_sess (fst r) sid = Some s ->
     get_sess (fst r) sid = get_sess h sid) /\
  ((forall sid s, In sid (h_dialout h) -> get_sess h sid = Some s -> s_backend s = b -> s_conn s = None) -> r = (h, [])).
Proof.
  intros TIh. cbv zeta. cbn [step].
  destruct (negb (N.eqb b signas) || (h_nb h <=? b)).
  { split; [intros c m []|]. split; [reflexivity|reflexivity]. }
  pose proof (loc_do_api b None h room (ADialout ok) TIh eq_refl) as [F O].
  split; [|split].
  - intros c m Hin. split.
    + revert Hin. unfold do_api. destruct ok; cbn [negb]; [|intros []].
      destruct (dialout_session h b) as [x|]; [|intros []].
      pose proof (send_dialout_outs h x room c m) as Hs. destruct (send_session h x (SDialout room)) as [h1 o1].
      cbn [snd] in *. exact Hs.
    + destruct (O c m Hin) as [E|Hc]; [discriminate|exact Hc].
  - intros sid s Hne Hs. apply (fr_sess _ _ _ _ F sid s Hs Hne).
  - intros Hno. unfold do_api. destruct ok; cbn [negb]; [|reflexivity]. now rewrite (dialout_session_none h b Hno).
Qed.

(* not vacuous: tenant 0 has a connected dial-out client; a request of tenant 1 reaches nobody, a request of
   tenant 0 reaches that client; once tenant 1 has a client of its own, its request reaches that one *)
Example dialout_two_tenants :
  let h := qrun (init [0; 0] false) [OConnect 1 0; OConnect 2 0; OHello 1 (HInternal 0 0 false true)] in
  snd (qstep h (OApi 1 1 5 (ADialout true))) = [] /\
  snd (qstep h (OApi 0 0 5 (ADialout true))) = [ToConn 1 (SDialout 5)] /\
  snd (qstep h (OApi 0 0 5 (ADialout false))) = [] /\
  snd (qstep (fst (qstep h (OHello 2 (HInternal 1 0 false true)))) (OApi 1 1 5 (ADialout true))) = [ToConn 2 (SDialout 5)].
Proof. vm_compute. repeat split; reflexivity. Qed.
