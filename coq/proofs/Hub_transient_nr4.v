(* NR lemmas for the room requests other than delete / transient and for the delivery of plain publications *)
From Coq Require Import List NArith Bool Lia.
From Verif Require Import model.Hub proofs.Hub_basics proofs.Hub_wf proofs.Hub_easy proofs.Hub_pending proofs.Hub_transient_frame proofs.Hub_transient_nr proofs.Hub_transient_nr2.
Import ListNotations.
Open Scope N_scope.

Lemma nr_fold_left_acc {A} ex h0 (f : hub * list out -> A -> hub * list out) l :
  (forall hh oo a, NR ex h0 hh -> qouts oo -> nres ex h0 (f (hh, oo) a)) ->
  forall hh oo, NR ex h0 hh -> qouts oo -> nres ex h0 (fold_left f l (hh, oo)).
Proof.
  intros Hf. induction l as [|a l IH]; intros hh oo B S; cbn [fold_left]; [split; assumption|].
  pose proof (Hf hh oo a B S) as [B1 S1]. destruct (f (hh, oo) a) as [h1 o1]. now apply IH.
Qed.

Lemma nr_room_request ex h0 h k q : match q with ADelete | ATransient _ _ _ => False | _ => True end ->
  NR ex h0 h -> nres ex h0 (room_request h k q).
Proof.
  intros Hq B. unfold room_request. destruct (room_of h k) as [r|] eqn:Hr; [|split; [exact B|apply qouts_nil]].
  destruct q; try destruct Hq; try (ngo; fail).
  - (* AInCall *)
    match goal with |- nres _ _ (let '(h1, outs) := ?X in _) =>
      assert (Hc : nres ex h0 X) by (apply nr_fold_left_acc; [intros; ngo|exact B|apply qouts_nil]);
      destruct X as [h1 outs]; destruct Hc end.
    ngo.
Qed.
#[export] Hint Resolve nr_room_request : nrdb.

Definition pub_plain (p : pub) : Prop :=
  match p_msg p with
  | AEvent m _ _ | ARoomEvent m => rmsg m = false
  | ARoomReq q => match q with ADelete | ATransient _ _ _ => False | _ => True end
  | _ => True
  end.

Lemma nr_deliver_kick ex h0 h sid : NR ex h0 h ->
  nres ex h0 (let '(h1, o1) := leave_room h sid false in
              let '(h2, o2) := send_session h1 sid (SBye B_room_session_reconnected) in
              let '(h3, o3) := close_session h2 sid in (h3, o1 ++ o2 ++ o3)).
Proof.
  intros B. set (ex' := fun y => ex y \/ y = sid).
  assert (B' : NR ex' h0 h) by (eapply nr_weaken; [|exact B]; intros y Hy; now left).
  pose proof (nr_leave_room ex' h0 h sid false (or_introl (or_intror eq_refl)) B') as [B1 Q1].
  destruct (leave_room h sid false) as [h1 o1]. cbn [fst snd] in *.
  pose proof (nr_send_irr ex' h0 h1 sid (SBye B_room_session_reconnected) eq_refl B1) as [B2 Q2].
  destruct (send_session h1 sid (SBye B_room_session_reconnected)) as [h2 o2]. cbn [fst snd] in *.
  pose proof (nr_close_session ex' h0 h2 sid B2) as [B3 Q3].
  assert (D : get_sess (fst (close_session h2 sid)) sid = None) by apply close_session_gone.
  destruct (close_session h2 sid) as [h3 o3]. cbn [fst snd] in *. split; cbn [fst snd].
  - apply (nr_drop_gen ex ex'); [exact B3|]. intros y [Hy| ->]; [now left|now right].
  - repeat apply qouts_app; assumption.
Qed.

Lemma nr_deliver_pub ex h0 h p : pub_plain p -> NR ex h0 h -> nres ex h0 (deliver_pub h p).
Proof.
  intros Pp B. destruct p as [subj msg t]. unfold pub_plain in Pp. cbn [p_msg] in Pp.
  unfold deliver_pub. cbn [p_subj p_msg p_time].
  destruct subj; destruct msg; try (split; [exact B|apply qouts_nil]); try (ngo; fail).
  destruct (get_sess h sid) as [s|]; [|split; [exact B|apply qouts_nil]].
  destruct (is_virtual (s_kind s)); [split; [exact B|apply qouts_nil]|]. now apply nr_deliver_kick.
Qed.
