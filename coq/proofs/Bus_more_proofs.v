(* More proofs about model/Bus.v: nothing after unregister, provenance
   ("nothing foreign"), publishers and the dispatcher never wait for consumers. *)
From Coq Require Import List Arith NArith Bool String Ascii Lia.
From Verif Require Import model.Bus proofs.Bus_proofs.
Import ListNotations.

(* ======================================================================== *)
(* A. nothing after unregister                                               *)
(* ======================================================================== *)
Section After.
Context (i : nat) (l : lid) (knd : kind) (key : string).

(* the message whose callback for l has been decided (mutex released) but not
   yet made *)
Definition late (x : sub) : list msg :=
  match infl x, cur x with
  | Some (m, _), Some c => if N.eqb c l then [m] else []
  | _, _ => []
  end.
Definition late_of (ox : option sub) : list msg := match ox with Some x => late x | None => [] end.
Definition U (t : st) : list msg := delivered i l t ++ late_of (nth_error (subs t) i).

(* l is not a listener of subscriber i and no registration of l on it is under way *)
Definition NotReg (t : st) : Prop :=
  emu t <> Some (i, l) /\
  exists x, nth_error (subs t) i = Some x /\ skind x = knd /\ skey x = key /\ memb l (ls x) = false.

(* ops other than registering l for this subject *)
Definition noreg (o : op) : bool :=
  match o with
  | Register tg l' => negb (N.eqb l' l && kind_eqb (tkind tg) knd && String.eqb (subject_of tg) key)
  | _ => true
  end.

Lemma after_frame t j f e' dl' :
  NotReg t -> e' <> Some (i, l) ->
  (j = i -> forall x, nth_error (subs t) i = Some x -> memb l (ls x) = false ->
            skind (f x) = skind x /\ skey (f x) = skey x /\ memb l (ls (f x)) = false /\ late (f x) = late x) ->
  delivered_of i l dl' = delivered_of i l (dlog t) ->
  let t' := mkSt (q t) (disp t) (upd j f (subs t)) e' dl' (drops t) in
  NotReg t' /\ U t' = U t.
Proof.
  intros [He (x & Hx & Hk & Hs & Hm)] He' Hf Hdl t'. unfold NotReg, U, delivered. cbn [subs emu dlog t'].
  rewrite nth_upd, Hx. destruct (Nat.eqb j i) eqn:E.
  - apply Nat.eqb_eq in E. destruct (Hf E x Hx Hm) as (F1 & F2 & F3 & F4). cbn [option_map late_of].
    split; [split; [exact He'|]; exists (f x); rewrite F1, F2; auto|]. now rewrite Hdl, F4.
  - split; [split; [exact He'|]; eauto 10|]. now rewrite Hdl.
Qed.

Lemma after_step t o : NotReg t -> noreg o = true -> NotReg (step t o) /\ U (step t o) = U t.
Proof.
  intros HN Hno. destruct (enabled t o) eqn:En; [|rewrite step_disabled by exact En; auto].
  rewrite (step_enabled _ _ En). pose proof HN as [He (x & Hx & Hk & Hs & Hm)].
  assert (Hsame : forall q' d' dr', NotReg (mkSt q' d' (subs t) (emu t) (dlog t) dr') /\
                                   U (mkSt q' d' (subs t) (emu t) (dlog t) dr') = U t).
  { intros. split; [split; [exact He|]; cbn [subs]; eauto 10|reflexivity]. }
  destruct o as [tg m| |j|j|j l'|j|j|tg l'| |tg l'|j].
  - cbn zeta. destruct (bad_subject (subject_of tg)); [auto|apply Hsame].
  - destruct (q t) as [|[s m] r]; [auto|apply Hsame].
  - destruct (disp t) as [[[s m] tg]|]; [|auto]. cbn zeta.
    destruct (nth_error (subs t) j) as [y|] eqn:Hy; [|apply Hsame].
    destruct (List.length (chan y) <? chan_cap); [|apply Hsame].
    assert (H := after_frame t j (set_chan (chan y ++ [m])) (emu t) (dlog t) HN He).
    cbn zeta in H. destruct H as [H1 H2]; [|reflexivity|].
    + intros _ x0 _ Hm0. cbn. auto.
    + split; [|exact H2]. destruct H1 as [H1a (x' & Hx' & H1b)]. split; [exact H1a|]. cbn [subs] in *. eauto.
  - destruct (nth_error (subs t) j) as [y|] eqn:Hy; [|auto].
    destruct (chan y) as [|m c] eqn:Hc; [auto|].
    cbn [enabled] in En. rewrite Hy in En. apply andb_true_iff in En as [_ En].
    destruct (infl y) eqn:Hiy; [discriminate|]. destruct (cur y) eqn:Hcy; [discriminate|].
    apply (after_frame t j _ (emu t) (dlog t) HN He); [|reflexivity].
    intros -> x0 Hx0 Hm0. rewrite Hy in Hx0. injection Hx0 as <-. cbn. repeat split; auto.
    unfold late. cbn. now rewrite Hiy, Hcy.
  - destruct (nth_error (subs t) j) as [y|] eqn:Hy; [|auto].
    destruct (infl y) as [[m vis]|] eqn:Hiy; [|auto]. cbn zeta.
    cbn [enabled] in En. rewrite Hy, Hiy in En. destruct (cur y) eqn:Hcy; [discriminate|].
    apply (after_frame t j _ (emu t) (dlog t) HN He); [|reflexivity].
    intros -> x0 Hx0 Hm0. rewrite Hy in Hx0. injection Hx0 as <-.
    destruct (memb l' (ls y)) eqn:Hml; cbn; repeat split; auto.
    + unfold late. cbn. rewrite Hiy, Hcy. destruct (N.eqb l' l) eqn:E; [|reflexivity].
      apply N.eqb_eq in E. subst l'. congruence.
    + unfold late. cbn. now rewrite Hiy, Hcy.
  - destruct (nth_error (subs t) j) as [y|] eqn:Hy; [|auto].
    destruct (infl y) as [[m vis]|] eqn:Hiy; [|auto]. destruct (cur y) as [c|] eqn:Hcy; [|auto].
    destruct (Nat.eq_dec j i) as [->|Hji].
    + rewrite Hx in Hy. injection Hy as <-.
      split.
      * split; [exact He|]. cbn [subs]. rewrite (nth_upd_same _ _ _ _ Hx). eexists; split; [reflexivity|]. cbn. auto.
      * unfold U, delivered. cbn [subs dlog]. rewrite (nth_upd_same _ _ _ _ Hx), Hx. cbn [late_of].
        rewrite delivered_of_app. unfold delivered_of at 2. cbn [filter fst snd]. rewrite Nat.eqb_refl.
        unfold late. cbn [infl cur set_cur]. rewrite Hiy, Hcy.
        destruct (N.eqb c l); cbn [andb map snd]; rewrite <- ?app_assoc, ?app_nil_r; reflexivity.
    + apply (after_frame t j _ (emu t) _ HN He); [intros; contradiction|].
      rewrite delivered_of_app. unfold delivered_of at 2. cbn [filter fst snd].
      assert (Nat.eqb j i = false) as -> by (now apply Nat.eqb_neq). cbn [andb map]. now rewrite app_nil_r.
  - cbn [enabled] in En. destruct (nth_error (subs t) j) as [y|] eqn:Hy; [|discriminate].
    destruct (infl y) as [[m [|? ?]]|] eqn:Hiy; try discriminate. destruct (cur y) eqn:Hcy; [discriminate|].
    apply (after_frame t j _ (emu t) (dlog t) HN He); [|reflexivity].
    intros -> x0 Hx0 Hm0. rewrite Hy in Hx0. injection Hx0 as <-. cbn. repeat split; auto.
    unfold late. cbn. now rewrite Hiy, Hcy.
  - cbn zeta. destruct (find_open (tkind tg) (subject_of tg) (subs t) 0) as [j|] eqn:Hf.
    + apply fo_sound0 in Hf as (y & Hy & Hyk & Hys & _).
      apply (after_frame t j _ (emu t) (dlog t) HN He); [|reflexivity].
      intros -> x0 Hx0 Hm0. rewrite Hy in Hx0. injection Hx0 as <-. rewrite Hx in Hy. injection Hy as <-.
      destruct (add_listener_same l' x) as (E1 & E2 & E3 & E4 & E5 & _).
      split; [exact E1|]. split; [exact E2|]. split; [|unfold late; now rewrite E4, E5].
      rewrite add_listener_ls. destruct (memb l' (ls x)) eqn:Hml; [exact Hm|].
      rewrite memb_app, Hm. cbn. unfold memb. cbn. rewrite orb_false_r.
      destruct (N.eqb l l') eqn:E; [|reflexivity]. apply N.eqb_eq in E. subst l'.
      cbn [noreg] in Hno. rewrite <- Hyk, <- Hys, Hk, Hs, N.eqb_refl, kind_eqb_refl, String.eqb_refl in Hno. discriminate.
    + destruct (bad_subject (subject_of tg)); [auto|].
      split.
      * split.
        -- cbn [emu]. intros E. injection E as E _.
           assert (Hnone : nth_error (subs t) (List.length (subs t)) = None) by (apply nth_error_None; lia).
           rewrite E in Hnone. congruence.
        -- cbn [subs]. rewrite (nth_app_old _ _ _ _ Hx). eauto 10.
      * unfold U, delivered. cbn [subs dlog]. now rewrite (nth_app_old _ _ _ _ Hx), Hx.
  - cbn [enabled] in En. destruct (emu t) as [[j l']|] eqn:Hem; [|discriminate].
    apply (after_frame t j _ None (dlog t) HN); [discriminate| |reflexivity].
    intros -> x0 Hx0 Hm0. rewrite Hx in Hx0. injection Hx0 as <-.
    destruct (add_listener_same l' x) as (E1 & E2 & E3 & E4 & E5 & _).
    split; [exact E1|]. split; [exact E2|]. split; [|unfold late; now rewrite E4, E5].
    rewrite add_listener_ls. destruct (memb l' (ls x)) eqn:Hml; [exact Hm|].
    rewrite memb_app, Hm. cbn. unfold memb. cbn. rewrite orb_false_r.
    destruct (N.eqb l l') eqn:E; [|reflexivity]. apply N.eqb_eq in E. subst l'. congruence.
  - destruct (find_open (tkind tg) (subject_of tg) (subs t) 0) as [j|] eqn:Hf; [|auto].
    match goal with |- context [upd j ?f _] => set (F := f) end.
    apply (after_frame t j F (emu t) (dlog t) HN He); [|reflexivity].
    intros -> x0 Hx0 Hm0. unfold F.
    assert (Hm' : memb l (remove_l l' (ls x0)) = false).
    { apply memb_false. rewrite In_remove_l. apply memb_false in Hm0. tauto. }
    destruct (remove_l l' (ls x0)) eqn:Er; cbn; repeat split; auto.
  - apply (after_frame t j _ (emu t) (dlog t) HN He); [|reflexivity].
    intros -> x0 Hx0 Hm0. cbn. repeat split; auto.
Qed.

(* Once l is not (or no longer) a listener of subscriber i, then -- whatever
   happens, as long as l is not registered for that subject again -- the only
   callback l can still get through i is the one that had already been decided
   when the unregistration returned. *)
Theorem nothing_after_unregister ops : forall t,
  NotReg t -> forallb noreg ops = true -> NotReg (run ops t) /\ U (run ops t) = U t.
Proof.
  induction ops as [|o ops IH]; intros t HN Hk; cbn [run fold_left forallb] in *; [auto|].
  apply andb_true_iff in Hk as [Hk1 Hk2].
  destruct (after_step t o HN Hk1) as [HN' HU]. destruct (IH _ HN' Hk2) as [HN'' HU'].
  split; auto. unfold run in *. congruence.
Qed.

End After.

(* ======================================================================== *)
(* B. provenance                                                             *)
(* ======================================================================== *)

(* kind and subject of a subscriber never change; subscribers are never removed *)
Definition sub_sig (ss : list sub) (j : nat) : option (kind * string) :=
  option_map (fun x => (skind x, skey x)) (nth_error ss j).

Lemma sig_upd ss j0 f j :
  (forall x, skind (f x) = skind x /\ skey (f x) = skey x) ->
  sub_sig (upd j0 f ss) j = sub_sig ss j.
Proof.
  intros Hf. unfold sub_sig. rewrite nth_upd. destruct (Nat.eqb j0 j); [|reflexivity].
  destruct (nth_error ss j) as [x|]; [|reflexivity]. cbn. destruct (Hf x) as [-> ->]. reflexivity.
Qed.
Lemma sig_app ss y j ks : sub_sig ss j = Some ks -> sub_sig (ss ++ [y]) j = Some ks.
Proof.
  unfold sub_sig. destruct (nth_error ss j) as [x|] eqn:E; [|discriminate].
  intros H. now rewrite (nth_app_old _ _ _ _ E).
Qed.

Lemma sig_stable t o j ks : sub_sig (subs t) j = Some ks -> sub_sig (subs (step t o)) j = Some ks.
Proof.
  intros H. destruct (enabled t o) eqn:En; [|rewrite step_disabled by exact En; auto].
  rewrite (step_enabled _ _ En).
  destruct o as [tg m| |j0|j0|j0 l'|j0|j0|tg l'| |tg l'|j0].
  - cbn zeta. destruct (bad_subject (subject_of tg)); auto.
  - destruct (q t) as [|[s m] r]; auto.
  - destruct (disp t) as [[[s m] tg]|]; [|auto]. cbn zeta.
    destruct (nth_error (subs t) j0) as [y|]; [|auto].
    destruct (List.length (chan y) <? chan_cap); [|auto]. cbn [subs]. rewrite sig_upd; auto.
  - destruct (nth_error (subs t) j0) as [y|]; [|auto]. destruct (chan y); [auto|].
    cbn [subs]. rewrite sig_upd; auto.
  - destruct (nth_error (subs t) j0) as [y|] eqn:Hy; [|auto]. destruct (infl y) as [[m vis]|]; [|auto].
    cbn zeta. cbn [subs]. unfold sub_sig in *. rewrite nth_upd. destruct (Nat.eqb j0 j) eqn:E; [|auto].
    apply Nat.eqb_eq in E. subst j0. rewrite Hy in *. cbn [option_map] in *. rewrite <- H.
    destruct (memb l' (ls y)); reflexivity.
  - destruct (nth_error (subs t) j0) as [y|]; [|auto]. destruct (infl y) as [[m vis]|]; [|auto].
    destruct (cur y); [|auto]. cbn [subs]. rewrite sig_upd; auto.
  - cbn [subs]. rewrite sig_upd; auto.
  - cbn zeta. destruct (find_open (tkind tg) (subject_of tg) (subs t) 0).
    + cbn [subs]. rewrite sig_upd; auto. intros x. destruct (add_listener_same l' x) as (E1 & E2 & _). auto.
    + destruct (bad_subject (subject_of tg)); [auto|]. cbn [subs]. now apply sig_app.
  - destruct (emu t) as [[j1 l']|]; [|auto]. cbn [subs]. rewrite sig_upd; auto.
    intros x. destruct (add_listener_same l' x) as (E1 & E2 & _). auto.
  - destruct (find_open (tkind tg) (subject_of tg) (subs t) 0); [|auto].
    cbn [subs]. rewrite sig_upd; auto. intros x. destruct (remove_l l' (ls x)); auto.
  - cbn [subs]. rewrite sig_upd; auto.
Qed.

Lemma sig_some ss j x : nth_error ss j = Some x -> sub_sig ss j = Some (skind x, skey x).
Proof. unfold sub_sig. now intros ->. Qed.
Lemma sig_inv ss j k s : sub_sig ss j = Some (k, s) -> exists x, nth_error ss j = Some x /\ skind x = k /\ skey x = s.
Proof.
  unfold sub_sig. destruct (nth_error ss j) as [x|]; [|discriminate]. cbn. intros H. injection H as <- <-. eauto.
Qed.

Section Prov.
Context (done : list op).   (* the ops applied so far *)

Definition Pm (s : string) (m : msg) : Prop :=
  exists tp, In (Publish tp m) done /\ subject_of tp = s.
Definition Pl (k : kind) (s : string) (l : lid) : Prop :=
  exists tr, In (Register tr l) done /\ tkind tr = k /\ subject_of tr = s.

Definition PSub (x : sub) : Prop :=
  (forall m, In m (chan x) -> Pm (skey x) m) /\
  (forall m vis, infl x = Some (m, vis) -> Pm (skey x) m /\ forall l, In l vis -> Pl (skind x) (skey x) l) /\
  (forall l, In l (ls x) -> Pl (skind x) (skey x) l) /\
  (forall c, cur x = Some c -> Pl (skind x) (skey x) c).

Definition Prov (t : st) : Prop :=
  (forall s m, In (s, m) (q t) -> Pm s m) /\
  (forall s m tg, disp t = Some (s, m, tg) ->
     Pm s m /\ forall j, In j tg -> exists k, sub_sig (subs t) j = Some (k, s)) /\
  (forall j x, nth_error (subs t) j = Some x -> PSub x) /\
  (forall j l, emu t = Some (j, l) -> exists k s, sub_sig (subs t) j = Some (k, s) /\ Pl k s l) /\
  (forall j l m, In (j, l, m) (dlog t) ->
     exists k s, sub_sig (subs t) j = Some (k, s) /\ Pm s m /\ Pl k s l).

Lemma psub_upd ss j0 f :
  (forall j x, nth_error ss j = Some x -> PSub x) ->
  (forall x, nth_error ss j0 = Some x -> PSub x -> PSub (f x)) ->
  forall j x, nth_error (upd j0 f ss) j = Some x -> PSub x.
Proof.
  intros Hall Hf j x. rewrite nth_upd. destruct (Nat.eqb j0 j) eqn:E.
  - apply Nat.eqb_eq in E. subst j0. destruct (nth_error ss j) as [y|] eqn:Hy; [|discriminate].
    cbn. intros H. injection H as <-. apply Hf; auto. eapply Hall; eauto.
  - apply Hall.
Qed.

Ltac disp_keep Hd Hd' :=
  let E := fresh "E" in intros ? ? ? E; split; [apply (Hd _ _ _ E) | eapply Hd'; eauto].

Lemma prov_step t o : Prov t -> In o done -> Prov (step t o).
Proof.
  intros HP Hin. destruct (enabled t o) eqn:En; [|rewrite step_disabled by exact En; auto].
  pose proof HP as (Hq & Hd & Hs & He & Hl).
  (* facts about subscriber signatures carry over to the next state *)
  assert (Hd' : forall s m tg, disp t = Some (s, m, tg) ->
            forall j, In j tg -> exists k, sub_sig (subs (step t o)) j = Some (k, s)).
  { intros s m tg E j Hj. destruct (Hd s m tg E) as [_ H]. destruct (H j Hj) as [k Hk]. exists k. now apply sig_stable. }
  assert (He' : forall j l, emu t = Some (j, l) ->
            exists k s, sub_sig (subs (step t o)) j = Some (k, s) /\ Pl k s l).
  { intros j l E. destruct (He j l E) as (k & s & H1 & H2). exists k, s. split; [now apply sig_stable|exact H2]. }
  assert (Hl' : forall j l m, In (j, l, m) (dlog t) ->
            exists k s, sub_sig (subs (step t o)) j = Some (k, s) /\ Pm s m /\ Pl k s l).
  { intros j l m E. destruct (Hl j l m E) as (k & s & H1 & H2). exists k, s. split; [now apply sig_stable|exact H2]. }
  revert Hd' He' Hl'. rewrite (step_enabled _ _ En). intros Hd' He' Hl'.
  destruct o as [tg m| |j0|j0|j0 l'|j0|j0|tg l'| |tg l'|j0].
  - (* Publish *)
    cbn zeta in *. destruct (bad_subject (subject_of tg)); [exact HP|].
    split; [|split; [|split; [|split]]]; cbn [q disp subs emu dlog] in *; auto; try solve [disp_keep Hd Hd'].
    + intros s m0 H. apply in_app_or in H as [H|[H|[]]]; [auto|]. injection H as <- <-. exists tg. auto.
  - (* Dispatch *)
    destruct (q t) as [|[s m] r] eqn:Eq; [exact HP|].
    split; [|split; [|split; [|split]]]; cbn [q disp subs emu dlog] in *; auto; try solve [disp_keep Hd Hd'].
    + intros s0 m0 H. apply Hq. now right.
    + intros s0 m0 tg0 E. injection E as <- <- <-. split; [apply Hq; now left|].
      intros j Hj. apply targets_spec in Hj as (x & Hx & Hsx & _). exists (skind x).
      rewrite (sig_some _ _ _ Hx). now rewrite Hsx.
  - (* Send *)
    cbn [enabled] in En. destruct (disp t) as [[[s m] tg]|] eqn:Ed; [|exact HP]. cbn zeta in *.
    destruct (Hd s m tg eq_refl) as [Hpm Htg].
    assert (Hdisp : forall ss', (forall j, In j tg -> exists k, sub_sig ss' j = Some (k, s)) ->
              forall s0 m0 tg0, Some (s, m, remove_n j0 tg) = Some (s0, m0, tg0) ->
              Pm s0 m0 /\ forall j, In j tg0 -> exists k, sub_sig ss' j = Some (k, s0)).
    { intros ss' H s0 m0 tg0 E. injection E as <- <- <-. split; [exact Hpm|].
      intros j Hj. apply In_remove_n in Hj as [Hj _]. auto. }
    destruct (nth_error (subs t) j0) as [y|] eqn:Hy.
    + destruct (List.length (chan y) <? chan_cap).
      * split; [|split; [|split; [|split]]]; cbn [q disp subs emu dlog] in *; auto; try solve [disp_keep Hd Hd'].
        -- apply Hdisp. eapply Hd'; eauto.
        -- apply psub_upd; [exact Hs|]. intros x Hx (P1 & P2 & P3 & P4). rewrite Hy in Hx. injection Hx as <-.
           unfold PSub. cbn. split; [|split; [exact P2|split; [exact P3|exact P4]]].
           intros m0 H. apply in_app_or in H as [H|[<-|[]]]; [auto|].
           apply memn_In in En. destruct (Htg j0 En) as [k Hk]. apply sig_inv in Hk as (y' & Hy' & _ & Hsy).
           rewrite Hy in Hy'. injection Hy' as <-. now rewrite Hsy.
      * split; [|split; [|split; [|split]]]; cbn [q disp subs emu dlog] in *; auto; try solve [disp_keep Hd Hd'];
        try (apply Hdisp; eapply Hd'; eauto).
    + split; [|split; [|split; [|split]]]; cbn [q disp subs emu dlog] in *; auto; try solve [disp_keep Hd Hd'];
      try (apply Hdisp; eapply Hd'; eauto).
  - (* Begin *)
    destruct (nth_error (subs t) j0) as [y|] eqn:Hy; [|exact HP].
    destruct (chan y) as [|m c] eqn:Hc; [exact HP|].
    split; [|split; [|split; [|split]]]; cbn [q disp subs emu dlog] in *; auto; try solve [disp_keep Hd Hd'].
    + apply psub_upd; [exact Hs|]. intros x Hx (P1 & P2 & P3 & P4). rewrite Hy in Hx. injection Hx as <-.
      unfold PSub. cbn. split; [|split; [|split]]; auto.
      * intros m0 H. apply P1. rewrite Hc. now right.
      * intros m0 vis E. injection E as <- <-. split; [apply P1; rewrite Hc; now left|exact P3].
  - (* Pick *)
    destruct (nth_error (subs t) j0) as [y|] eqn:Hy; [|exact HP].
    destruct (infl y) as [[m vis]|] eqn:Hiy; [|exact HP]. cbn zeta in *.
    cbn [enabled] in En. rewrite Hy, Hiy in En. destruct (cur y) eqn:Hcy; [discriminate|].
    split; [|split; [|split; [|split]]]; cbn [q disp subs emu dlog] in *; auto; try solve [disp_keep Hd Hd'].
    + apply psub_upd; [exact Hs|]. intros x Hx (P1 & P2 & P3 & P4). rewrite Hy in Hx. injection Hx as <-.
      destruct (P2 _ _ Hiy) as [P2a P2b].
      destruct (memb l' (ls y)); unfold PSub; cbn; (split; [exact P1|]; split; [|split; [exact P3|]]).
      * intros m0 vis0 E. injection E as <- <-. split; [exact P2a|]. intros l0 H. apply In_remove_l in H as [H _]. auto.
      * intros c E. injection E as <-. apply P2b. now apply memb_In.
      * intros m0 vis0 E. injection E as <- <-. split; [exact P2a|]. intros l0 H. apply In_remove_l in H as [H _]. auto.
      * rewrite Hcy. discriminate.
  - (* Call *)
    destruct (nth_error (subs t) j0) as [y|] eqn:Hy; [|exact HP].
    destruct (infl y) as [[m vis]|] eqn:Hiy; [|exact HP]. destruct (cur y) as [c|] eqn:Hcy; [|exact HP].
    destruct (Hs _ _ Hy) as (P1 & P2 & P3 & P4). destruct (P2 _ _ Hiy) as [P2a P2b].
    split; [|split; [|split; [|split]]]; cbn [q disp subs emu dlog] in *; auto; try solve [disp_keep Hd Hd'].
    + apply psub_upd; [exact Hs|]. intros x Hx _. rewrite Hy in Hx. injection Hx as <-.
      unfold PSub. cbn. split; [exact P1|]. split; [exact P2|]. split; [exact P3|]. discriminate.
    + intros j l0 m0 H. apply in_app_or in H as [H|[H|[]]]; [auto|]. injection H as <- <- <-.
      exists (skind y), (skey y). split; [|split; [exact P2a|apply P4; exact Hcy]].
      rewrite sig_upd by auto. now apply sig_some.
  - (* End_ *)
    split; [|split; [|split; [|split]]]; cbn [q disp subs emu dlog] in *; auto; try solve [disp_keep Hd Hd'].
    + apply psub_upd; [exact Hs|]. intros x Hx (P1 & P2 & P3 & P4).
      unfold PSub. cbn. split; [exact P1|]. split; [discriminate|]. split; [exact P3|exact P4].
  - (* Register *)
    cbn zeta in *. destruct (find_open (tkind tg) (subject_of tg) (subs t) 0) as [j|] eqn:Hf.
    + apply fo_sound0 in Hf as (y & Hy & Hyk & Hys & _).
      split; [|split; [|split; [|split]]]; cbn [q disp subs emu dlog] in *; auto; try solve [disp_keep Hd Hd'].
      * apply psub_upd; [exact Hs|]. intros x Hx (P1 & P2 & P3 & P4). rewrite Hy in Hx. injection Hx as <-.
        destruct (add_listener_same l' y) as (E1 & E2 & E3 & E4 & E5 & _).
        unfold PSub. rewrite E1, E2, E3, E4, E5. split; [exact P1|]. split; [exact P2|]. split; [|exact P4].
        intros l0. rewrite add_listener_ls. destruct (memb l' (ls y)); [apply P3|].
        intros H. apply in_app_or in H as [H|[<-|[]]]; [auto|]. exists tg. auto.
    + destruct (bad_subject (subject_of tg)); [exact HP|].
      split; [|split; [|split; [|split]]]; cbn [q disp subs emu dlog] in *; auto; try solve [disp_keep Hd Hd'].
      * intros j x H. apply nth_app_new in H as [H|[_ ->]]; [eauto|].
        unfold PSub, new_sub. cbn. repeat split; intros; try contradiction; discriminate.
      * intros j l0 E. injection E as <- <-. exists (tkind tg), (subject_of tg). split.
        -- unfold sub_sig. rewrite nth_error_app2 by lia. rewrite Nat.sub_diag. reflexivity.
        -- exists tg. auto.
  - (* RegFinish *)
    destruct (emu t) as [[j l']|] eqn:Hem; [|exact HP].
    destruct (He j l' eq_refl) as (k & s & Hsig & Hpl). apply sig_inv in Hsig as (y & Hy & Hyk & Hys).
    split; [|split; [|split; [|split]]]; cbn [q disp subs emu dlog] in *; auto; try solve [disp_keep Hd Hd'].
    + apply psub_upd; [exact Hs|]. intros x Hx (P1 & P2 & P3 & P4). rewrite Hy in Hx. injection Hx as <-.
      destruct (add_listener_same l' y) as (E1 & E2 & E3 & E4 & E5 & _).
      unfold PSub. rewrite E1, E2, E3, E4, E5. split; [exact P1|]. split; [exact P2|]. split; [|exact P4].
      intros l0. rewrite add_listener_ls. destruct (memb l' (ls y)); [apply P3|].
      intros H. apply in_app_or in H as [H|[<-|[]]]; [auto|]. now rewrite Hyk, Hys.
    + discriminate.
  - (* Unregister *)
    destruct (find_open (tkind tg) (subject_of tg) (subs t) 0) as [j|] eqn:Hf; [|exact HP].
    split; [|split; [|split; [|split]]]; cbn [q disp subs emu dlog] in *; auto; try solve [disp_keep Hd Hd'].
    + apply psub_upd; [exact Hs|]. intros x Hx (P1 & P2 & P3 & P4).
      assert (P3' : forall l0, In l0 (remove_l l' (ls x)) -> Pl (skind x) (skey x) l0).
      { intros l0 H. apply In_remove_l in H as [H _]. auto. }
      destruct (remove_l l' (ls x)) eqn:Er; unfold PSub; cbn; (split; [exact P1|]; split; [exact P2|]; split; [|exact P4]).
      * intros ? [].
      * exact P3'.
  - (* Exit *)
    split; [|split; [|split; [|split]]]; cbn [q disp subs emu dlog] in *; auto; try solve [disp_keep Hd Hd'].
    + apply psub_upd; [exact Hs|]. intros x Hx P. exact P.
Qed.

End Prov.

Lemma Pm_mono d d' s m : (forall o, In o d -> In o d') -> Pm d s m -> Pm d' s m.
Proof. intros H (tp & H1 & H2). exists tp. auto. Qed.
Lemma Pl_mono d d' k s l : (forall o, In o d -> In o d') -> Pl d k s l -> Pl d' k s l.
Proof. intros H (tr & H1 & H2). exists tr. auto. Qed.

Lemma prov_mono d d' t : (forall o, In o d -> In o d') -> Prov d t -> Prov d' t.
Proof.
  intros H (Hq & Hd & Hs & He & Hl).
  split; [|split; [|split; [|split]]].
  - intros s m Hin. eapply Pm_mono; eauto.
  - intros s m tg E. destruct (Hd s m tg E) as [H1 H2]. split; [eapply Pm_mono; eauto|exact H2].
  - intros j x Hx. destruct (Hs j x Hx) as (P1 & P2 & P3 & P4). unfold PSub. repeat split.
    + intros m Hm. eapply Pm_mono; eauto.
    + destruct (P2 _ _ H0) as [Q _]. eapply Pm_mono; eauto.
    + intros l Hl0. destruct (P2 _ _ H0) as [_ Q]. eapply Pl_mono; eauto.
    + intros l Hl0. eapply Pl_mono; eauto.
    + intros c Hc. eapply Pl_mono; eauto.
  - intros j l E. destruct (He j l E) as (k & s & H1 & H2). exists k, s. split; [exact H1|eapply Pl_mono; eauto].
  - intros j l m Hin. destruct (Hl j l m Hin) as (k & s & H1 & H2 & H3). exists k, s.
    split; [exact H1|]. split; [eapply Pm_mono; eauto|eapply Pl_mono; eauto].
Qed.

Lemma prov_init : Prov [] init.
Proof.
  unfold Prov, init; cbn [q disp subs emu dlog]. split; [|split; [|split; [|split]]].
  - intros s m [].
  - intros s m tg E; discriminate.
  - intros j x H. destruct j; discriminate.
  - intros j l E; discriminate.
  - intros j l m [].
Qed.

Lemma prov_run : forall ops pre t, Prov pre t -> Prov (pre ++ ops) (run ops t).
Proof.
  induction ops as [|o ops IH]; intros pre t HP; cbn [run fold_left].
  - now rewrite app_nil_r.
  - replace (pre ++ o :: ops) with ((pre ++ [o]) ++ ops) by (rewrite <- app_assoc; reflexivity).
    apply IH. apply prov_step.
    + eapply prov_mono; [|exact HP]. intros o' H. apply in_or_app. now left.
    + apply in_or_app. right. now left.
Qed.

(* Every callback ever made, in every interleaving from the initial state: the
   message was published to, and the listener had been registered for, the
   subject string (and kind) of the subscriber that made the callback. *)
Theorem callback_provenance ops j l m :
  In (j, l, m) (dlog (run ops init)) ->
  exists tp tr, In (Publish tp m) ops /\ In (Register tr l) ops /\
                subject_of tp = subject_of tr /\
                exists x, nth_error (subs (run ops init)) j = Some x /\
                          skind x = tkind tr /\ skey x = subject_of tr.
Proof.
  intros Hin. pose proof (prov_run ops [] init prov_init) as HP. cbn [app] in HP.
  destruct HP as (_ & _ & _ & _ & Hl). destruct (Hl j l m Hin) as (k & s & Hsig & (tp & Hp1 & Hp2) & (tr & Hr1 & Hr2 & Hr3)).
  apply sig_inv in Hsig as (x & Hx & Hxk & Hxs).
  exists tp, tr. repeat split; auto; try congruence. exists x. repeat split; congruence.
Qed.

(* ======================================================================== *)
(* C. publishers and the dispatcher never wait for consumers                  *)
(* ======================================================================== *)

Theorem publish_never_blocks t tg m :
  enabled t (Publish tg m) = true /\
  (bad_subject (subject_of tg) = false ->
     q (step t (Publish tg m)) = q t ++ [(subject_of tg, m)]) /\
  disp (step t (Publish tg m)) = disp t /\ subs (step t (Publish tg m)) = subs t /\
  emu (step t (Publish tg m)) = emu t /\ dlog (step t (Publish tg m)) = dlog t /\
  drops (step t (Publish tg m)) = drops t.
Proof.
  split; [reflexivity|]. unfold step. cbn [enabled negb]. cbv iota.
  destruct (bad_subject (subject_of tg)); cbn; repeat split; auto; discriminate.
Qed.

Definition dispatcher_op (o : op) : bool :=
  match o with Dispatch | Send _ => true | _ => false end.

Definition disp_len (t : st) : nat :=
  match disp t with Some (_, _, tg) => List.length tg | None => 0 end.

Lemma remove_n_head_len j tg : List.length (remove_n j (j :: tg)) <= List.length tg.
Proof.
  unfold remove_n. cbn [filter]. rewrite Nat.eqb_refl. cbn [negb].
  induction tg as [|a r IH]; cbn; [lia|]. destruct (negb (Nat.eqb j a)); cbn; lia.
Qed.

(* whatever the consumers are doing (full channels, callbacks that never
   return): the dispatcher finishes the message in hand ... *)
Lemma finish_disp : forall n t, disp_len t <= n ->
  exists ops, forallb dispatcher_op ops = true /\ disp_idle (run ops t) = true /\ q (run ops t) = q t.
Proof.
  induction n as [|n IH]; intros t Hn.
  - exists []. cbn. repeat split; auto. unfold disp_idle, disp_len in *.
    destruct (disp t) as [[[s m] [|j tg]]|]; auto. cbn in Hn. lia.
  - destruct (disp t) as [[[s m] [|j tg]]|] eqn:Ed.
    + exists []. cbn. unfold disp_idle. now rewrite Ed.
    + assert (En : enabled t (Send j) = true).
      { cbn [enabled]. rewrite Ed. unfold memn. cbn. now rewrite Nat.eqb_refl. }
      assert (Hq : q (step t (Send j)) = q t /\ disp (step t (Send j)) = Some (s, m, remove_n j (j :: tg))).
      { rewrite (step_enabled _ _ En). rewrite Ed. cbn zeta.
        destruct (nth_error (subs t) j) as [y|]; [destruct (List.length (chan y) <? chan_cap)|]; cbn; auto. }
      destruct Hq as [Hq Hd].
      destruct (IH (step t (Send j))) as (ops & H1 & H2 & H3).
      { unfold disp_len. rewrite Hd. unfold disp_len in Hn. rewrite Ed in Hn. cbn in Hn.
        pose proof (remove_n_head_len j tg). lia. }
      exists (Send j :: ops). cbn [forallb dispatcher_op run fold_left andb]. repeat split; auto.
      unfold run in H3. now rewrite H3.
    + exists []. cbn. unfold disp_idle. now rewrite Ed.
Qed.

(* ... and empties the queue of published messages. *)
Theorem dispatcher_never_blocks : forall t,
  exists ops, forallb dispatcher_op ops = true /\ q (run ops t) = [] /\ disp_idle (run ops t) = true.
Proof.
  intros t. remember (List.length (q t)) as n eqn:Hn. revert t Hn.
  induction n as [|n IH]; intros t Hn.
  - destruct (finish_disp (disp_len t) t (le_n _)) as (ops & H1 & H2 & H3).
    exists ops. repeat split; auto. rewrite H3. destruct (q t); [reflexivity|discriminate].
  - destruct (finish_disp (disp_len t) t (le_n _)) as (ops1 & H1 & H2 & H3).
    set (t1 := run ops1 t) in *.
    destruct (q t1) as [|[s m] r] eqn:Eq.
    { exfalso. assert (Hqt : q t = []) by congruence. rewrite Hqt in Hn. discriminate. }
    assert (Hqt : q t = (s, m) :: r) by congruence.
    assert (En : enabled t1 Dispatch = true) by (cbn [enabled]; now rewrite H2, Eq).
    assert (Hq2 : q (step t1 Dispatch) = r) by (rewrite (step_enabled _ _ En), Eq; reflexivity).
    destruct (IH (step t1 Dispatch)) as (ops2 & G1 & G2 & G3).
    { rewrite Hq2. rewrite Hqt in Hn. cbn in Hn. lia. }
    exists (ops1 ++ Dispatch :: ops2). rewrite forallb_app. cbn [forallb dispatcher_op andb].
    rewrite H1, G1. unfold run in *. rewrite fold_left_app. cbn [fold_left]. fold t1. auto.
Qed.
