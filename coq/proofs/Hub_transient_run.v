(* Transient room data of the hub model: the replica theorem for EVERY history (C14, scenario C14H), async semantics. *)
From Coq Require Import List NArith Bool Lia.
From Verif Require Import model.Hub proofs.Hub_basics proofs.Hub_wf proofs.Hub_easy proofs.Hub_corollaries proofs.Hub_pending
  proofs.Hub_transient_frame proofs.Hub_transient_bus proofs.Hub_transient_nr proofs.Hub_transient_nr2 proofs.Hub_transient_nr4 proofs.Hub_transient_nr5
  proofs.Hub_isolation proofs.Hub_transient_hist proofs.Hub_transient_join.
Import ListNotations.
Open Scope N_scope.

Lemma ri_deliver h g pos : WF h -> Inv h -> TI h -> BusOK h -> RI h g ->
  RI (fst (step h (ODeliver pos))) (gouts g (snd (step h (ODeliver pos)))).
Proof.
  intros W Iv [T Bj] Bo I. cbn [step]. unfold deliver_at.
  destruct (take_nth (N.to_nat pos) (h_bus h)) as [[p rest]|] eqn:E; [|exact I].
  destruct (take_nth_In _ _ _ _ E) as [Hp _]. apply Bo in Hp.
  set (h' := set_bus h rest).
  assert (I' : RI h' g) by (eapply ri_eq; [| | |exact I]; reflexivity).
  assert (Iv' : Inv h') by (destruct Iv as [A B]; constructor; [exact A|exact B]).
  assert (W' : WF h') by (apply (wf_equiv _ _ h); [apply equiv_bus|exact W]).
  assert (J' : JD h' g) by (split; [exact I'|split; [now apply pc_of_inv|now apply ids_of_inv]]).
  assert (Plain : pub_plain p -> RI (fst (deliver_pub h' p)) (gouts g (snd (deliver_pub h' p)))).
  { intros Pp. apply (ri_quiet h'); [exact I'|]. apply nr_deliver_pub; [exact Pp|apply nr_refl]. }
  destruct p as [subj msg t]. unfold okpub in Hp. cbn [p_msg p_subj] in Hp.
  destruct msg as [m sender co|m|x i|pm| |q].
  - destruct (rmsg m) eqn:Rm; [|apply Plain; exact Rm].
    destruct m; try discriminate Rm; try destruct Hp.
    rename x into b. cbn [p_subj] in H. subst subj. unfold deliver_pub. cbn [p_subj p_msg p_time].
    apply (jd_room_event h' g b room sender co t); [exact (t_keys h T)|exact J'].
  - apply Plain. unfold pub_plain. cbn [p_msg]. destruct m; try destruct Hp; reflexivity.
  - apply Plain. exact Logic.I.
  - apply Plain. exact Logic.I.
  - apply Plain. exact Logic.I.
  - destruct q; try (apply Plain; exact Logic.I).
    + destruct subj; try exact I'. unfold deliver_pub. cbn [p_subj p_msg]. apply jd_room_delete. exact J'.
    + destruct subj; try exact I'. unfold deliver_pub. cbn [p_subj p_msg]. unfold room_request.
      destruct (room_of h' (b, r)) as [rr|] eqn:Hr; [|exact I']. now apply ri_transient_update.
Qed.

Theorem ri_step_all h g o : WF h -> Inv h -> TI h -> BusNT h -> BusOK h -> RI h g ->
  RI (fst (step h o)) (gouts g (snd (step h o))).
Proof.
  intros W Iv Ti Bn Bo I.
  destruct o as [c a|c hl|c rn rs rep|c to tag|c to tag|c|c|secs|b sg rm q|c q|c to mk st md|tok ok|c kindn key val|pos|c hl late];
    try (apply ri_step; auto; try apply Ti; exact Logic.I).
  - now apply ri_step_join.
  - (* OInternal *) apply (ri_quiet h); [exact I|]. cbn [step]. apply nr_with_session; [|apply nr_refl]. intros cn sid s _ _ Hs.
    destruct (is_internal (s_kind s)); [apply nr_do_internal; [exact W|exact Hs|apply nr_refl]|split; [apply nr_refl|apply qouts_nil]].
  - now apply ri_deliver.
Qed.

(* ------------------------------------------------------------------ every history *)
Theorem ri_run_all ops : forall h g, WF h -> Inv h -> TI h -> BusNT h -> BusOK h -> RI h g ->
  let st := grun (h, g) ops in WF (fst st) /\ Inv (fst st) /\ RI (fst st) (snd st).
Proof.
  induction ops as [|o r IH]; intros h g W Iv Ti Bn Bo I; cbn [grun fold_left]; [cbn; auto|].
  apply IH; cbn [gstep fst snd].
  - now apply wf_step.
  - apply (inv_stepx false h o Iv).
  - now apply ti_step.
  - now apply busnt_step.
  - now apply busok_step.
  - now apply ri_step_all.
Qed.

(* T2 for every history of operations, every delivery order: the replica of every non-virtual member session -
   replayed over its pending queue when it has no connection - is the data of its room *)
Theorem replica_converges_history limits gated ops :
  let st := grun (init limits gated, g0) ops in
  fst st = run (init limits gated) ops /\ replica_ok (fst st) (snd st).
Proof.
  cbv zeta. split; [apply grun_hub|].
  destruct (ri_run_all ops (init limits gated) g0 (wf_init _ _) (inv_init _ _) (ti_init _ _) (busnt_init _ _) (busok_init _ _) (ri_init _ _)) as (W & Iv & I).
  now apply ri_replica_ok.
Qed.
