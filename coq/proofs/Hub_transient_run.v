(* Transient room data of the hub model: the replica theorem for EVERY history (C14, scenario C14H), async semantics. *)
From Coq Require Import List NArith Bool Lia.
From Verif Require Import model.Hub proofs.Hub_basics proofs.Hub_wf proofs.Hub_easy proofs.Hub_corollaries proofs.Hub_pending
  proofs.Hub_transient_frame proofs.Hub_transient_bus proofs.Hub_transient_nr proofs.Hub_transient_nr2 proofs.Hub_transient_nr4 proofs.Hub_transient_nr5
  proofs.Hub_isolation proofs.Hub_transient_hist proofs.Hub_transient_join proofs.Hub_transient_initial.
Import ListNotations.
Open Scope N_scope.

Lemma ri_deliver h g pos : WF h -> Inv h -> TI h -> BusOK h -> RI h g ->
  RI (fst (step h (ODeliver pos))) (gouts g (snd (step h (ODeliver pos)))).
Proof.
  intros W Iv [T Bj] Bo I. cbn [step]. unfold deliver_at.
  destruct (take_nth (N.to_nat pos) (h_bus h)) as [[p rest]|] eqn:E; [|exact I].
  destruct (take_nth_In _ _ _ _ E) as [Hp _]. apply Bo in Hp.
  set (h' := set_bus h rest).
  assert (I' : RI h' g) by (eapply ri_eq; [| | |exact I]; reflexivity).
  assert (Iv' : Inv h') by (destruct Iv as [A B]; constructor; [exact A|exact B]).
  assert (W' : WF h') by (apply (wf_equiv _ _ h); [apply equiv_bus|exact W]).
  assert (J' : JD h' g) by (split; [exact I'|split; [now apply pc_of_inv|now apply ids_of_inv]]).
  assert (Plain : pub_plain p -> RI (fst (deliver_pub h' p)) (gouts g (snd (deliver_pub h' p)))).
  { intros Pp. apply (ri_quiet h'); [exact I'|]. apply nr_deliver_pub; [exact Pp|apply nr_refl]. }
  destruct p as [subj msg t]. unfold okpub in Hp. cbn [p_msg p_subj] in Hp.
  destruct msg as [m sender co|m|x i|pm| |q].
  - destruct (rmsg m) eqn:Rm; [|apply Plain; exact Rm].
    destruct m; try discriminate Rm; try destruct Hp.
    rename x into b. cbn [p_subj] in H. subst subj. unfold deliver_pub. cbn [p_subj p_msg p_time].
    apply (jd_room_event h' g b room sender co t); [exact (t_keys h T)|exact J'].
  - apply Plain. unfold pub_plain. cbn [p_msg]. destruct m; try destruct Hp; reflexivity.
  - apply Plain. exact Logic.I.
  - apply Plain. exact Logic.I.
  - apply Plain. exact Logic.I.
  - destruct q; try (apply Plain; exact Logic.I).
    + destruct subj; try exact I'. unfold deliver_pub. cbn [p_subj p_msg]. apply jd_room_delete. exact J'.
    + destruct subj; try exact I'. unfold deliver_pub. cbn [p_subj p_msg]. unfold room_request.
      destruct (room_of h' (b, r)) as [rr|] eqn:Hr; [|exact I']. now apply ri_transient_update.
Qed.

Theorem ri_step_all h g o : WF h -> Inv h -> TI h -> BusNT h -> BusOK h -> RI h g ->
  RI (fst (step h o)) (gouts g (snd (step h o))).
Proof.
  intros W Iv Ti Bn Bo I.
  destruct o as [c a|c hl|c rn rs rep|c to tag|c to tag|c|c|secs|b sg rm q|c q|c to mk st md|tok ok|c kindn key val|pos|c hl late];
    try (apply ri_step; auto; try apply Ti; exact Logic.I).
  - now apply ri_step_join.
  - (* OInternal *) apply (ri_quiet h); [exact I|]. cbn [step]. apply nr_with_session; [|apply nr_refl]. intros cn sid s _ _ Hs.
    destruct (is_internal (s_kind s)); [apply nr_do_internal; [exact W|exact Hs|apply nr_refl]|split; [apply nr_refl|apply qouts_nil]].
  - now apply ri_deliver.
Qed.

(* ------------------------------------------------------------------ every history *)
Theorem ri_run_all ops : forall h g, WF h -> Inv h -> TI h -> BusNT h -> BusOK h -> RI h g ->
  let st := grun (h, g) ops in WF (fst st) /\ Inv (fst st) /\ RI (fst st) (snd st).
Proof.
  induction ops as [|o r IH]; intros h g W Iv Ti Bn Bo I; cbn [grun fold_left]; [cbn; auto|].
  apply IH; cbn [gstep fst snd].
  - now apply wf_step.
  - apply (inv_stepx false h o Iv).
  - now apply ti_step.
  - now apply busnt_step.
  - now apply busok_step.
  - now apply ri_step_all.
Qed.

(* T2 for every history of operations, every delivery order: the replica of every non-virtual member session -
   replayed over its pending queue when it has no connection - is the data of its room *)
Theorem replica_converges_history limits gated ops :
  let st := grun (init limits gated, g0) ops in
  fst st = run (init limits gated) ops /\ replica_ok (fst st) (snd st).
Proof.
  cbv zeta. split; [apply grun_hub|].
  destruct (ri_run_all ops (init limits gated) g0 (wf_init _ _) (inv_init _ _) (ti_init _ _) (busnt_init _ _) (busok_init _ _) (ri_init _ _)) as (W & Iv & I).
  now apply ri_replica_ok.
Qed.

(* RI in every reachable state, for the ghost computed along the history *)
Corollary ri_reachable limits gated ops :
  RI (run (init limits gated) ops) (snd (grun (init limits gated, g0) ops)).
Proof.
  destruct (ri_run_all ops (init limits gated) g0 (wf_init _ _) (inv_init _ _) (ti_init _ _) (busnt_init _ _) (busok_init _ _) (ri_init _ _)) as (_ & _ & I).
  rewrite grun_hub in I. exact I.
Qed.

(* what a resume flushes: the queue of a disconnected member, replayed over its replica at the time of the cut, gives
   the data of the room - in every reachable state (so in the state the resume finds) *)
Corollary queued_notices_replay_to_data limits gated ops x s k :
  let st := grun (init limits gated, g0) ops in
  get_sess (fst st) x = Some s -> is_virtual (s_kind s) = false -> s_room s = Some k -> s_conn s = None ->
  exists r, room_of (fst st) k = Some r /\ replayT (s_pending s) (g_rep (snd st) x) = Some (snd k, r_transient r).
Proof.
  cbv zeta. intros Hs Hv Hk _. destruct (replica_converges_history limits gated ops) as [_ R].
  destruct (R x s k Hs Hv Hk) as (r & d & Hr & Hd & He & _). exists r. split; [exact Hr|]. now rewrite Hd.
Qed.

(* a join after every history: the initial data goes to the joiner, once, after the room reply, it is the data of the
   room, it is not empty, and no other transient message is written to anybody *)
Theorem join_initial_history limits gated ops c rn rs rep :
  join_writes c rn (step (run (init limits gated) ops) (OJoin c rn rs rep)).
Proof.
  apply (step_join_writes _ (snd (grun (init limits gated, g0) ops))); [apply wf_reachable|apply busnt_reachable|apply ri_reachable].
Qed.

Print Assumptions replica_converges_history.
Print Assumptions join_initial_history.

(* ------------------------------------------------------------------ non-vacuity: computed histories *)
(* two sessions; 1 joins room 1 and sets key 1 = 2; 2 joins (gets the data); a second key; 2 is cut; two changes; 2 resumes *)
Definition hist_ops1 : list op :=
  [OConnect 1 0; OConnect 2 0; OHello 1 (HV1 0 1 false); OHello 2 (HV1 0 2 false);
   OJoin 1 1 1 (RepOk None 0); OTransient 1 0 1 2; OJoin 2 1 2 (RepOk None 0); OTransient 1 0 2 3].
Definition hist_ops2 : list op := hist_ops1 ++ [ODrop 2; OTransient 1 0 1 5; OTransient 1 1 2 0].
Definition hist_ops3 : list op := hist_ops2 ++ [OConnect 3 0; OHello 3 (HResume (IdPriv 2))].
Definition st_of (ops : list op) := grun (init [0; 0] false, g0) ops.
Definition data_of (st : hub * ghost) (k : N * N) := option_map r_transient (room_of (fst st) k).
Definition queue_of (st : hub * ghost) (x : N) := match get_sess (fst st) x with Some s => s_pending s | None => [] end.

(* the join with data writes the initial data to the joiner *)
Example hist_join_gets_data :
  snd (step (fst (st_of [OConnect 1 0; OConnect 2 0; OHello 1 (HV1 0 1 false); OHello 2 (HV1 0 2 false);
                         OJoin 1 1 1 (RepOk None 0); OTransient 1 0 1 2])) (OJoin 2 1 2 (RepOk None 0))) =
  [ToBackend (0, 1, 0, 1, 1000002, 1); ToConn 2 (SRoom 1); ToConn 2 (STransient (TInit [(1, 2)]))].
Proof. vm_compute. reflexivity. Qed.
(* after the join and a second set: both replicas are the data *)
Example hist_after_sets :
  data_of (st_of hist_ops1) (0, 1) = Some [(1, 2); (2, 3)] /\
  g_rep (snd (st_of hist_ops1)) 1 = Some (1, [(1, 2); (2, 3)]) /\ g_rep (snd (st_of hist_ops1)) 2 = Some (1, [(1, 2); (2, 3)]).
Proof. vm_compute. repeat split; reflexivity. Qed.
(* the cut and two changes: the replica of 2 is stale, the notices are queued, replayed they give the data *)
Example hist_cut_queue :
  data_of (st_of hist_ops2) (0, 1) = Some [(1, 5)] /\
  g_rep (snd (st_of hist_ops2)) 2 = Some (1, [(1, 2); (2, 3)]) /\
  queue_of (st_of hist_ops2) 2 = [STransient (TSet 1 5 (Some 2)); STransient (TRemove 2 (Some 3))] /\
  replayT (queue_of (st_of hist_ops2) 2) (g_rep (snd (st_of hist_ops2)) 2) = Some (1, [(1, 5)]).
Proof. vm_compute. repeat split; reflexivity. Qed.
(* the resume flushes the queue: the replica is the data again *)
Example hist_resume :
  snd (step (fst (st_of (hist_ops2 ++ [OConnect 3 0]))) (OHello 3 (HResume (IdPriv 2)))) =
    [ToConn 3 (SHello 2 2); ToConn 3 (STransient (TSet 1 5 (Some 2))); ToConn 3 (STransient (TRemove 2 (Some 3)))] /\
  g_rep (snd (st_of hist_ops3)) 2 = Some (1, [(1, 5)]) /\ queue_of (st_of hist_ops3) 2 = [] /\
  data_of (st_of hist_ops3) (0, 1) = Some [(1, 5)].
Proof. vm_compute. repeat split; reflexivity. Qed.
(* a switch of rooms: 2 goes to the empty room 2 (replica reset by the room reply) and back to room 1 (initial data) *)
Example hist_switch :
  g_rep (snd (st_of (hist_ops1 ++ [OJoin 2 2 2 (RepOk None 0)]))) 2 = Some (2, []) /\
  data_of (st_of (hist_ops1 ++ [OJoin 2 2 2 (RepOk None 0)])) (0, 2) = Some [] /\
  g_rep (snd (st_of (hist_ops1 ++ [OJoin 2 2 2 (RepOk None 0); OTransient 1 0 1 7; OJoin 2 1 2 (RepOk None 0)]))) 2 = Some (1, [(1, 7); (2, 3)]) /\
  data_of (st_of (hist_ops1 ++ [OJoin 2 2 2 (RepOk None 0); OTransient 1 0 1 7; OJoin 2 1 2 (RepOk None 0)])) (0, 1) = Some [(1, 7); (2, 3)].
Proof. vm_compute. repeat split; reflexivity. Qed.
(* the theorem applied to the computed history: the hypotheses of replica_ok are satisfiable (session 2, cut, in room 1) *)
Example hist_theorem_instance :
  exists s, get_sess (fst (st_of hist_ops2)) 2 = Some s /\ is_virtual (s_kind s) = false /\ s_room s = Some (0, 1) /\ s_conn s = None.
Proof. eexists. vm_compute. repeat split; reflexivity. Qed.

(* the history theorem with the invariant unfolded for one session *)
Theorem replica_converges_history_explicit limits gated ops x s k :
  let st := grun (init limits gated, g0) ops in
  fst st = run (init limits gated) ops /\
  (get_sess (fst st) x = Some s -> is_virtual (s_kind s) = false -> s_room s = Some k ->
   exists r d, room_of (fst st) k = Some r /\ r_transient r = d /\
               replayT (s_pending s) (g_rep (snd st) x) = Some (snd k, d) /\
               (forall c, s_conn s = Some c -> s_pending s = [] /\ g_rep (snd st) x = Some (snd k, d))).
Proof.
  cbv zeta. destruct (replica_converges_history limits gated ops) as [E R]. split; [exact E|]. intros Hs Hv Hk. exact (R x s k Hs Hv Hk).
Qed.
