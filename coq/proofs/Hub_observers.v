(* C04, observer side, quiescent semantics: what a member reconstructs from the room / join /
   leave events written to its connection(s) is the member list the server holds.

   Ghost state (computed from the outputs only): which session a connection's messages belong
   to (the last hello reply written to it) and, per session, the view obtained by replaying
   the messages with corr/Hub_preds.apply_view.

   Invariant (Jg): for every live non-virtual session in room k, its EFFECTIVE view (the view
   replayed over its pending queue) updated by the join / leave events still queued on the bus
   that it will receive, in order, is the member list of k.  It is preserved by every delivery
   of the FIRST queued publication, and by every step that starts from an empty bus. *)
From Coq Require Import List NArith ZArith Bool Lia Permutation.
From Verif Require Import model.Hub corr.Hub_preds proofs.Hub_basics proofs.Hub_wf proofs.Hub_easy proofs.Hub_pending proofs.Hub_route proofs.Hub_refuted.
Import ListNotations.
Open Scope N_scope.

(* ------------------------------------------------------------------ ghost state *)
Definition view := option (N * list N).
Record ghost := mkg { g_bind : N -> option N; g_view : N -> view }.
Definition g0 : ghost := mkg (fun _ => None) (fun _ => None).

Definition gout (g : ghost) (o : out) : ghost :=
  match o with
  | ToConn c (SHello sid _) => mkg (fun x => if N.eqb x c then Some sid else g_bind g x) (g_view g)
  | ToConn c m =>
      match g_bind g c with
      | Some sid => mkg (g_bind g) (fun x => if N.eqb x sid then apply_view (g_view g sid) m else g_view g x)
      | None => g
      end
  | _ => g
  end.
Definition gouts (g : ghost) (outs : list out) : ghost := fold_left gout outs g.

Definition vstep (st : hub * ghost) (o : op) : hub * ghost :=
  let '(h', outs) := qstep (fst st) o in (h', gouts (snd st) outs).
Definition vrun (st : hub * ghost) (ops : list op) : hub * ghost := fold_left vstep ops st.

Lemma gouts_app g a b : gouts g (a ++ b) = gouts (gouts g a) b.
Proof. unfold gouts. apply fold_left_app. Qed.
Lemma gouts_nil g : gouts g [] = g.
Proof. reflexivity. Qed.
Lemma gouts_cons g o r : gouts g (o :: r) = gouts (gout g o) r.
Proof. reflexivity. Qed.

(* pointwise equality of ghost states *)
Definition geq (g g' : ghost) : Prop :=
  (forall c, g_bind g' c = g_bind g c) /\ (forall x, g_view g' x = g_view g x).
Lemma geq_refl g : geq g g.
Proof. split; reflexivity. Qed.
Lemma geq_trans g1 g2 g3 : geq g1 g2 -> geq g2 g3 -> geq g1 g3.
Proof. intros [A B] [C D]. split; intros; congruence. Qed.

(* messages that change no view and no binding *)
Definition msg_irr (m : smsg) : bool :=
  match m with SRoom _ | SJoin _ | SLeave _ | SHello _ _ => false | _ => true end.
Definition out_irr (o : out) : bool := match o with ToConn _ m => msg_irr m | _ => true end.

Lemma apply_view_irr v m : msg_irr m = true -> apply_view v m = v.
Proof. destruct m; cbn; try discriminate; reflexivity. Qed.

Lemma gout_irr g o : out_irr o = true -> geq g (gout g o).
Proof.
  destruct o as [c m| | |]; cbn [out_irr gout]; intros H; try apply geq_refl.
  destruct m; try discriminate H; cbn [gout];
    (destruct (g_bind g c) as [tgt|]; [|apply geq_refl]; split; cbn [g_bind g_view]; [reflexivity|];
     intros x; destruct (N.eqb_spec x tgt) as [->|]; reflexivity).
Qed.
Lemma gouts_irr outs : forall g, forallb out_irr outs = true -> geq g (gouts g outs).
Proof.
  induction outs as [|o r IH]; intros g H; [apply geq_refl|].
  cbn [forallb] in H. apply andb_true_iff in H as [Ho Hr]. rewrite gouts_cons.
  eapply geq_trans; [apply gout_irr; exact Ho|apply IH; exact Hr].
Qed.

(* ------------------------------------------------------------------ replaying *)
Definition replay (l : list smsg) (v : view) : view := fold_left apply_view l v.
Lemma replay_app a b v : replay (a ++ b) v = replay b (replay a v).
Proof. unfold replay. apply fold_left_app. Qed.

Definition vmem (z : N) (v : view) : bool := match v with Some (_, V) => nmem z V | None => false end.

Lemma nmem_fold_nadd {A} (f : A -> N) z (l : list A) : forall x,
  nmem z (fold_left (fun acc e => nadd (f e) acc) l x) = nmem z (map f l) || nmem z x.
Proof.
  induction l as [|e r IH]; intros x; cbn [fold_left map nmem]; [reflexivity|].
  rewrite IH, nmem_nadd. destruct (N.eqb z (f e)), (nmem z (map f r)), (nmem z x); reflexivity.
Qed.
Lemma nmem_fold_nrem z (l : list N) : forall x,
  nmem z (fold_left (fun acc e => nrem e acc) l x) = negb (nmem z l) && nmem z x.
Proof.
  induction l as [|e r IH]; intros x; cbn [fold_left nmem]; [reflexivity|].
  rewrite IH, nmem_nrem. destruct (N.eqb z e), (nmem z r), (nmem z x); reflexivity.
Qed.
Lemma nmem_filter z f l : nmem z (filter f l) = nmem z l && f z.
Proof.
  induction l as [|y r IH]; cbn [filter nmem]; [reflexivity|].
  destruct (f y) eqn:Hf; cbn [nmem]; rewrite IH; destruct (N.eqb_spec z y) as [->|]; cbn.
  - now rewrite Hf.
  - reflexivity.
  - rewrite Hf. now rewrite andb_false_r.
  - reflexivity.
Qed.

(* the per-receiver filter of join notices *)
Lemma filter_seen_spec l : forall seen keep seen', filter_seen seen l = (keep, seen') ->
  (forall z, nmem z (map fst keep) = nmem z (map fst l) && negb (nmem z seen)) /\
  (forall z, nmem z seen' = nmem z seen || nmem z (map fst l)).
Proof.
  induction l as [|[sid u] r IH]; intros seen keep seen' H; cbn [filter_seen] in H.
  - inversion H; subst. split; intros z; cbn; [reflexivity|now rewrite orb_false_r].
  - destruct (nmem sid seen) eqn:Hm.
    + destruct (IH _ _ _ H) as [A B]. split; intros z; cbn [map fst nmem].
      * rewrite A. destruct (N.eqb_spec z sid) as [->|]; cbn; [|reflexivity]. rewrite Hm. cbn. now rewrite andb_false_r.
      * rewrite B. destruct (N.eqb_spec z sid) as [->|]; cbn; [|reflexivity]. rewrite Hm. reflexivity.
    + destruct (filter_seen (seen ++ [sid]) r) as [keep0 seen0] eqn:Hr. inversion H; subst.
      destruct (IH _ _ _ Hr) as [A B]. split; intros z; cbn [map fst nmem].
      * rewrite A, nmem_app. cbn [nmem]. rewrite orb_false_r.
        destruct (N.eqb_spec z sid) as [->|]; cbn.
        -- rewrite Hm. reflexivity.
        -- rewrite orb_false_r. reflexivity.
      * rewrite B, nmem_app. cbn [nmem]. rewrite orb_false_r.
        destruct (nmem z seen), (N.eqb z sid), (nmem z (map fst r)); reflexivity.
Qed.

(* ------------------------------------------------------------------ view operations queued on the bus *)
Inductive vop := VAdd (l : list N) | VRem (l : list N).
Definition vop_after (o : vop) (b : bool) (z : N) : bool :=
  match o with VAdd l => nmem z l || b | VRem l => negb (nmem z l) && b end.
Definition after (ops : list vop) (b : bool) (z : N) : bool := fold_left (fun b o => vop_after o b z) ops b.

Lemma after_app a c b z : after (a ++ c) b z = after c (after a b z) z.
Proof. unfold after. apply fold_left_app. Qed.
Lemma after_nil b z : after [] b z = b.
Proof. reflexivity. Qed.
Lemma after_cons o r b z : after (o :: r) b z = after r (vop_after o b z) z.
Proof. reflexivity. Qed.

Definition msg_op (m : smsg) : option vop :=
  match m with SJoin l => Some (VAdd (map fst l)) | SLeave l => Some (VRem l) | _ => None end.

(* the effect the publication p will have on the view of session sid, in room k since tj, when the
   room's member list is M (a pending "session joined" sends the other members of that moment) *)
Definition pub_op (sid : N) (k : N * N) (tj : N) (M : list N) (p : pub) : option vop :=
  match p_subj p, p_msg p with
  | SubjRoom b r, ARoomEvent m => if pair_eqb (b, r) k && negb (p_time p <? tj) then msg_op m else None
  | SubjSession x, ARoomEvent m => if N.eqb x sid && negb (p_time p <? tj) then msg_op m else None
  | SubjBackendRoom b r, ASessionJoined x _ =>
      if pair_eqb (b, r) k && N.eqb x sid then Some (VAdd (filter (fun m => negb (N.eqb m sid)) M)) else None
  | _, _ => None
  end.
Definition opt_list {A} (o : option A) : list A := match o with Some x => [x] | None => [] end.
Definition bus_ops (sid : N) (k : N * N) (tj : N) (M : list N) (bus : list pub) : list vop :=
  flat_map (fun p => opt_list (pub_op sid k tj M p)) bus.

Lemma bus_ops_app sid k tj M a b : bus_ops sid k tj M (a ++ b) = bus_ops sid k tj M a ++ bus_ops sid k tj M b.
Proof. unfold bus_ops. apply flat_map_app. Qed.
Lemma bus_ops_cons sid k tj M p r : bus_ops sid k tj M (p :: r) = opt_list (pub_op sid k tj M p) ++ bus_ops sid k tj M r.
Proof. reflexivity. Qed.

(* the member list enters only through membership of the element looked at *)
Lemma after_bus_ops_members sid k tj M M' z bus :
  nmem z M = nmem z M' -> forall b, after (bus_ops sid k tj M bus) b z = after (bus_ops sid k tj M' bus) b z.
Proof.
  intros Hz. induction bus as [|p r IH]; intros b; [reflexivity|].
  rewrite !bus_ops_cons, !after_app, IH. f_equal.
  unfold pub_op. destruct (p_subj p); destruct (p_msg p); try reflexivity.
  destruct (pair_eqb (b0, r0) k && N.eqb sid0 sid); [|reflexivity].
  cbn [opt_list after fold_left vop_after]. now rewrite !nmem_filter, Hz.
Qed.

Lemma NoDup_app_single_obs {A} (l : list A) x : NoDup l -> ~ In x l -> NoDup (l ++ [x]).
Proof.
  induction l as [|y r IH]; cbn; intros H Hn; [constructor; [tauto|constructor]|].
  inversion H as [|a b Hy Hr]; subst. constructor.
  - rewrite in_app_iff. cbn. intros [I|[E|[]]]; [contradiction|]. apply Hn. now left.
  - apply IH; [exact Hr|]. intro I. apply Hn. now right.
Qed.

(* ------------------------------------------------------------------ the invariant *)
Definition mem_of (h : hub) (k : N * N) : option (list N) := option_map r_members (room_of h k).

(* v: the session's view; bus: the publications still to be delivered *)
Definition view_ok (xr : N * N -> Prop) (mo : N * N -> option (list N)) (v : view) (bus : list pub)
           (sid : N) (s : session) : Prop :=
  match s_room s with
  | None => replay (s_pending s) v = None
  | Some k => xr k \/
      exists M V, mo k = Some M /\ replay (s_pending s) v = Some (snd k, V) /\
                  (forall z, nmem z (s_seen s) = true -> nmem z V = true) /\
                  (forall z, after (bus_ops sid k (s_join s) M bus) (nmem z V) z = nmem z M)
  end.

Definition pub_shape (p : pub) : Prop :=
  match p_msg p with
  | ARoomEvent m => match m with SJoin _ | SLeave _ => True | _ => False end
  | AEvent m _ _ => match m with
                    | SJoin _ | SLeave _ | SHello _ _ => False
                    | SRoom r => r <> 0 /\ exists b, p_subj p = SubjRoom b r
                    | _ => True end
  | _ => True
  end.

Definition no_hello (m : smsg) : bool := match m with SHello _ _ => false | _ => true end.

Record Jh (h : hub) (g : ghost) : Prop := {
  j_keys : NoDup (map fst (h_sessions h));
  j_room0 : forall k r, room_of h k = Some r -> snd k <> 0;
  j_times : forall p, In p (h_bus h) -> p_time p < h_clock h;
  j_shape : forall p, In p (h_bus h) -> pub_shape p;
  j_asj : forall p b r x i s, In p (h_bus h) -> p_subj p = SubjBackendRoom b r -> p_msg p = ASessionJoined x i ->
            get_sess h x = Some s -> s_room s = None \/ s_room s = Some (b, r);
  j_asj_id : forall p x i, In p (h_bus h) -> p_msg p = ASessionJoined x i -> x <= h_nextsid h;
  j_fresh_view : forall sid, h_nextsid h < sid -> g_view g sid = None;
  j_fresh_bind : forall c sid, g_bind g c = Some sid -> sid <= h_nextsid h;
  j_live : forall sid s, get_sess h sid = Some s -> sid <= h_nextsid h;
  j_join : forall sid s, get_sess h sid = Some s -> s_join s <= h_clock h;
  j_backend : forall sid s k, get_sess h sid = Some s -> s_room s = Some k -> fst k = s_backend s;
  j_pc : forall sid s, get_sess h sid = Some s -> s_conn s <> None -> s_pending s = [];
  j_nohello : forall sid s m, get_sess h sid = Some s -> In m (s_pending s) -> no_hello m = true;
  j_vconn : forall sid s, get_sess h sid = Some s -> is_virtual (s_kind s) = true -> s_conn s = None;
  j_cs : forall sid s c, get_sess h sid = Some s -> s_conn s = Some c ->
           exists cn, aget (h_conns h) c = Some cn /\ c_sess cn = Some sid;
  j_bind : forall sid s c, get_sess h sid = Some s -> s_conn s = Some c -> g_bind g c = Some sid;
}.

(* xr: rooms that may be missing while they are being closed; xs: sessions whose view is stale
   (they left a room and have not been told yet, or are about to be removed) *)
Definition Jv (xr : N * N -> Prop) (xs : N -> Prop) (h : hub) (g : ghost) (bus : list pub) : Prop :=
  forall sid s, get_sess h sid = Some s -> is_virtual (s_kind s) = false -> ~ xs sid ->
    view_ok xr (mem_of h) (g_view g sid) bus sid s.
Definition Jg (xr : N * N -> Prop) (xs : N -> Prop) (h : hub) (g : ghost) : Prop :=
  Jh h g /\ Jv xr xs h g (h_bus h).

Definition no1 : N -> Prop := fun _ => False.
Definition J (h : hub) (g : ghost) : Prop := Jg none2 no1 h g.

Lemma view_ok_ext xr mo mo' v v' bus sid s :
  (forall k, mo' k = mo k) -> v' = v -> view_ok xr mo v bus sid s -> view_ok xr mo' v' bus sid s.
Proof.
  intros Hm -> H. unfold view_ok in *. destruct (s_room s) as [k|]; [|exact H].
  destruct H as [H|(M & V & H1 & H2)]; [now left|right]. exists M, V. rewrite Hm. auto.
Qed.

Lemma Jh_geq h g g' : geq g g' -> Jh h g -> Jh h g'.
Proof.
  intros [Gb Gv] H. constructor; try apply H.
  - intros sid Hs. rewrite Gv. now apply (j_fresh_view _ _ H).
  - intros c sid Hs. rewrite Gb in Hs. now apply (j_fresh_bind _ _ H c).
  - intros sid s c Hs Hc. rewrite Gb. now apply (j_bind _ _ H sid s c).
Qed.
Lemma Jv_geq xr xs h g g' bus : geq g g' -> Jv xr xs h g bus -> Jv xr xs h g' bus.
Proof.
  intros [Gb Gv] H sid s Hs Hv Hx. eapply view_ok_ext; [reflexivity|apply Gv|]. now apply H.
Qed.
Lemma Jg_geq xr xs h g g' : geq g g' -> Jg xr xs h g -> Jg xr xs h g'.
Proof. intros G [A B]. split; [eapply Jh_geq; eauto|eapply Jv_geq; eauto]. Qed.

Lemma Jg_irr xr xs h g outs : forallb out_irr outs = true -> Jg xr xs h g -> Jg xr xs h (gouts g outs).
Proof. intros H. apply Jg_geq. now apply gouts_irr. Qed.

Lemma Jv_weaken (xr xr' : N * N -> Prop) (xs xs' : N -> Prop) h g bus :
  (forall k, xr k -> xr' k) -> (forall x, xs x -> xs' x) -> Jv xr xs h g bus -> Jv xr' xs' h g bus.
Proof.
  intros Hr Hx H sid s Hs Hv Hn. assert (Hn' : ~ xs sid) by (intro; apply Hn; auto).
  specialize (H sid s Hs Hv Hn'). unfold view_ok in *. destruct (s_room s) as [k|]; [|exact H].
  destruct H as [H|H]; [left; auto|right; exact H].
Qed.
Lemma Jg_weaken (xr xr' : N * N -> Prop) (xs xs' : N -> Prop) h g :
  (forall k, xr k -> xr' k) -> (forall x, xs x -> xs' x) -> Jg xr xs h g -> Jg xr' xs' h g.
Proof. intros Hr Hx [A B]. split; [exact A|eapply Jv_weaken; eauto]. Qed.

(* ------------------------------------------------------------------ states that agree on everything the invariant reads *)
Definition vcore (s : session) :=
  (s_kind s, s_backend s, s_room s, s_conn s, s_seen s, s_join s).
Arguments vcore : simpl never.

Lemma vcore_eq s s' : vcore s' = vcore s ->
  s_kind s' = s_kind s /\ s_backend s' = s_backend s /\ s_room s' = s_room s /\ s_conn s' = s_conn s /\
  s_seen s' = s_seen s /\ s_join s' = s_join s.
Proof. unfold vcore. intros H. inversion H. repeat split; reflexivity. Qed.

(* the queue may grow by messages that change no view, and only while there is no connection *)
Definition pend_ok (s s' : session) : Prop :=
  (s_conn s <> None -> s_pending s' = s_pending s) /\ (forall v, replay (s_pending s') v = replay (s_pending s) v) /\
  (forall m, In m (s_pending s') -> In m (s_pending s) \/ no_hello m = true).
Lemma pend_ok_eq s s' : s_pending s' = s_pending s -> pend_ok s s'.
Proof. intros H. unfold pend_ok. rewrite H. repeat split; auto. Qed.
Lemma pend_ok_refl s : pend_ok s s.
Proof. now apply pend_ok_eq. Qed.

Record same (h h' : hub) : Prop := {
  sm_sess : forall x, option_map vcore (get_sess h' x) = option_map vcore (get_sess h x);
  sm_pend : forall x s s', get_sess h x = Some s -> get_sess h' x = Some s' -> pend_ok s s';
  sm_keys : map fst (h_sessions h') = map fst (h_sessions h);
  sm_rooms : forall k, mem_of h' k = mem_of h k;
  sm_bus : h_bus h' = h_bus h;
  sm_clock : h_clock h <= h_clock h';
  sm_nextsid : h_nextsid h <= h_nextsid h';
  sm_conns : h_conns h' = h_conns h;
}.

Lemma same_refl h : same h h.
Proof. constructor; try reflexivity; try apply N.le_refl. intros x s s' H1 H2. assert (s' = s) by congruence. subst. apply pend_ok_refl. Qed.

Lemma same_get h h' x s' : same h h' -> get_sess h' x = Some s' ->
  exists s, get_sess h x = Some s /\ vcore s' = vcore s /\ pend_ok s s'.
Proof.
  intros E H. pose proof (sm_sess _ _ E x) as Hs. rewrite H in Hs. cbn in Hs.
  destruct (get_sess h x) as [s|] eqn:Hg; [|discriminate]. cbn in Hs. exists s. split; [reflexivity|]. split; [congruence|].
  eapply sm_pend; eauto.
Qed.
Lemma same_get' h h' x s : same h h' -> get_sess h x = Some s ->
  exists s', get_sess h' x = Some s' /\ vcore s' = vcore s /\ pend_ok s s'.
Proof.
  intros E H. pose proof (sm_sess _ _ E x) as Hs. rewrite H in Hs. cbn in Hs.
  destruct (get_sess h' x) as [s'|] eqn:Hg; [|discriminate]. cbn in Hs. exists s'. split; [reflexivity|]. split; [congruence|].
  eapply sm_pend; eauto.
Qed.

Lemma same_trans h1 h2 h3 : same h1 h2 -> same h2 h3 -> same h1 h3.
Proof.
  intros E1 E2. constructor; try (intros; rewrite ?(sm_sess _ _ E2), ?(sm_keys _ _ E2), ?(sm_rooms _ _ E2), ?(sm_bus _ _ E2),
     ?(sm_conns _ _ E2); apply E1).
  2: exact (N.le_trans _ _ _ (sm_clock _ _ E1) (sm_clock _ _ E2)).
  2: exact (N.le_trans _ _ _ (sm_nextsid _ _ E1) (sm_nextsid _ _ E2)).
  intros x s1 s3 H1 H3. destruct (same_get' _ _ _ _ E1 H1) as (s2 & H2 & Hc2 & [H A2]).
  destruct A2 as [B2 C2]. rename H into A2.
  destruct (sm_pend _ _ E2 x s2 s3 H2 H3) as (A3 & B3 & C3). apply vcore_eq in Hc2 as (_ & _ & _ & Hcn & _).
  split; [|split].
  - intros Hn. rewrite A3, A2; [reflexivity|exact Hn|congruence].
  - intros v. now rewrite B3, B2.
  - intros m Hm. destruct (C3 m Hm) as [Hm'|]; [|now right]. apply C2, Hm'.
Qed.

Lemma mem_of_some h k M : mem_of h k = Some M <-> exists r, room_of h k = Some r /\ r_members r = M.
Proof.
  unfold mem_of. destruct (room_of h k) as [r|]; cbn; split.
  - intros H. injection H as <-. now exists r.
  - intros (r' & Hr & <-). injection Hr as <-. reflexivity.
  - discriminate.
  - intros (r' & Hr & _). discriminate.
Qed.

Lemma view_ok_vcore xr mo v bus sid s s' : vcore s' = vcore s -> (forall v, replay (s_pending s') v = replay (s_pending s) v) ->
  view_ok xr mo v bus sid s -> view_ok xr mo v bus sid s'.
Proof.
  intros H Hp. apply vcore_eq in H as (Hk & Hb & Hr & Hc & Hse & Hj).
  unfold view_ok. now rewrite Hr, Hp, Hse, Hj.
Qed.

Lemma Jg_same xr xs h h' g : same h h' -> Jg xr xs h g -> Jg xr xs h' g.
Proof.
  intros E [H V]. split.
  - constructor.
    + rewrite (sm_keys _ _ E). apply H.
    + intros k r Hr. assert (Hm : mem_of h' k = Some (r_members r)) by (apply mem_of_some; eauto).
      rewrite (sm_rooms _ _ E) in Hm. apply mem_of_some in Hm as (r0 & Hr0 & _). eapply j_room0; eauto.
    + intros p Hp. rewrite (sm_bus _ _ E) in Hp. pose proof (sm_clock _ _ E). pose proof (j_times _ _ H p Hp). lia.
    + intros p Hp. rewrite (sm_bus _ _ E) in Hp. now apply H.
    + intros p b r x i s' Hp Hsu Hm Hs. rewrite (sm_bus _ _ E) in Hp.
      destruct (same_get _ _ _ _ E Hs) as (s & Hs0 & Hc & _). apply vcore_eq in Hc as (_ & _ & Hr & _).
      rewrite Hr. eapply j_asj; eauto.
    + intros p x i Hp Hm. rewrite (sm_bus _ _ E) in Hp. pose proof (sm_nextsid _ _ E). pose proof (j_asj_id _ _ H p x i Hp Hm). lia.
    + intros sid Hs. pose proof (sm_nextsid _ _ E). apply H. lia.
    + intros c sid Hs. pose proof (sm_nextsid _ _ E). pose proof (j_fresh_bind _ _ H c sid Hs). lia.
    + intros sid s' Hs. destruct (same_get _ _ _ _ E Hs) as (s & Hs0 & _). pose proof (sm_nextsid _ _ E).
      pose proof (j_live _ _ H sid s Hs0). lia.
    + intros sid s' Hs. destruct (same_get _ _ _ _ E Hs) as (s & Hs0 & Hc & _). apply vcore_eq in Hc as (_ & _ & _ & _ & _ & Hj).
      rewrite Hj. pose proof (sm_clock _ _ E). pose proof (j_join _ _ H sid s Hs0). lia.
    + intros sid s' k Hs Hk. destruct (same_get _ _ _ _ E Hs) as (s & Hs0 & Hc & _). apply vcore_eq in Hc as (_ & Hb & Hr & _).
      rewrite Hb. eapply j_backend; eauto. congruence.
    + intros sid s' Hs Hn. destruct (same_get _ _ _ _ E Hs) as (s & Hs0 & Hc & (Hp & _)). apply vcore_eq in Hc as (_ & _ & _ & Hcn & _).
      rewrite Hp by congruence. eapply j_pc; eauto. congruence.
    + intros sid s' m Hs Hm. destruct (same_get _ _ _ _ E Hs) as (s & Hs0 & _ & (_ & _ & Hp)).
      destruct (Hp m Hm) as [Hm'|]; [|assumption]. eapply (j_nohello _ _ H); eauto.
    + intros sid s' Hs Hv. destruct (same_get _ _ _ _ E Hs) as (s & Hs0 & Hc & _). apply vcore_eq in Hc as (Hk & _ & _ & Hcn & _).
      rewrite Hcn. eapply j_vconn; eauto. congruence.
    + intros sid s' c Hs Hcn. destruct (same_get _ _ _ _ E Hs) as (s & Hs0 & Hc & _). apply vcore_eq in Hc as (_ & _ & _ & Hcn' & _).
      rewrite (sm_conns _ _ E). eapply j_cs; eauto. congruence.
    + intros sid s' c Hs Hcn. destruct (same_get _ _ _ _ E Hs) as (s & Hs0 & Hc & _). apply vcore_eq in Hc as (_ & _ & _ & Hcn' & _).
      eapply j_bind; eauto. congruence.
  - intros sid s' Hs Hv Hx. destruct (same_get _ _ _ _ E Hs) as (s & Hs0 & Hc & (_ & Hp & _)).
    pose proof (vcore_eq _ _ Hc) as (Hk & _).
    rewrite (sm_bus _ _ E). apply (view_ok_vcore _ _ _ _ _ s s' Hc Hp).
    eapply view_ok_ext; [apply (sm_rooms _ _ E)|reflexivity|]. apply V; auto. congruence.
Qed.

(* the usual shape: the state agrees, the outputs change no view *)
Lemma Jg_same_irr xr xs h g (r : hub * list out) :
  same h (fst r) -> forallb out_irr (snd r) = true -> Jg xr xs h g -> Jg xr xs (fst r) (gouts g (snd r)).
Proof. intros E I H. apply Jg_irr; [exact I|]. eapply Jg_same; eauto. Qed.

(* ------------------------------------------------------------------ projections *)
Lemma get_put h sid s x : get_sess (put_sess h sid s) x = if N.eqb x sid then Some s else get_sess h x.
Proof. unfold get_sess, put_sess. cbn [h_sessions set_sessions]. apply aget_aset. Qed.
Lemma get_put_other h sid s x : x <> sid -> get_sess (put_sess h sid s) x = get_sess h x.
Proof. intros H. rewrite get_put. destruct (N.eqb_spec x sid); [contradiction|reflexivity]. Qed.

Lemma keys_aset_in {V} (l : alist V) k v : aget l k <> None -> map fst (aset l k v) = map fst l.
Proof.
  induction l as [|[k' v'] r IH]; cbn; [congruence|]. destruct (N.eqb_spec k k') as [->|Hne]; cbn; [reflexivity|].
  intros H. now rewrite IH.
Qed.
Lemma keys_aset_new {V} (l : alist V) k v : aget l k = None -> map fst (aset l k v) = map fst l ++ [k].
Proof.
  induction l as [|[k' v'] r IH]; cbn; [reflexivity|]. destruct (N.eqb_spec k k') as [->|Hne]; cbn; [discriminate|].
  intros H. now rewrite IH.
Qed.
Lemma aget_none_keys {V} (l : alist V) k : aget l k = None -> ~ In k (map fst l).
Proof.
  induction l as [|[k' v'] r IH]; cbn; [tauto|]. destruct (N.eqb_spec k k') as [->|Hne]; [discriminate|].
  intros H [E|I]; [congruence|now apply IH].
Qed.
Lemma keys_adel_incl {V} (l : alist V) k x : In x (map fst (adel l k)) -> In x (map fst l).
Proof.
  induction l as [|[k' v'] r IH]; cbn; [tauto|]. destruct (N.eqb k k'); cbn; [right; auto|]. intros [E|I]; auto.
Qed.
Lemma nodup_keys_adel {V} (l : alist V) k : NoDup (map fst l) -> NoDup (map fst (adel l k)).
Proof.
  induction l as [|[k' v'] r IH]; cbn; [auto|]. intros H. inversion H as [|a b Hn Hd]; subst.
  destruct (N.eqb k k'); [auto|]. cbn. constructor; [|auto]. intro Hi. apply Hn. eapply keys_adel_incl; eauto.
Qed.
Lemma nodup_keys_aset {V} (l : alist V) k v : NoDup (map fst l) -> NoDup (map fst (aset l k v)).
Proof.
  intros H. destruct (aget l k) eqn:Hg.
  - rewrite keys_aset_in; [exact H|congruence].
  - rewrite keys_aset_new by exact Hg. apply NoDup_app_single_obs; [exact H|now apply aget_none_keys].
Qed.

Lemma same_fields h h' : h_sessions h' = h_sessions h -> h_rooms h' = h_rooms h -> h_bus h' = h_bus h ->
  h_clock h <= h_clock h' -> h_nextsid h <= h_nextsid h' -> h_conns h' = h_conns h -> same h h'.
Proof.
  intros Hs Hr Hb Hc Hn Hcn. constructor; unfold get_sess, mem_of, room_of; rewrite ?Hs, ?Hr; auto.
  intros x s s' H1 H2. assert (s' = s) by congruence. subst. apply pend_ok_refl.
Qed.

Lemma same_put h x s s' : get_sess h x = Some s -> vcore s' = vcore s -> pend_ok s s' -> same h (put_sess h x s').
Proof.
  intros H Hc Hp. constructor; try reflexivity.
  - intros y. rewrite get_put. destruct (N.eqb_spec y x) as [->|]; [rewrite H; cbn; congruence|reflexivity].
  - intros y t t' H1 H2. rewrite get_put in H2. destruct (N.eqb_spec y x) as [->|].
    + assert (t = s) by congruence. assert (t' = s') by congruence. subst. exact Hp.
    + assert (t' = t) by congruence. subst. apply pend_ok_refl.
  - unfold put_sess. cbn [h_sessions set_sessions]. apply keys_aset_in. unfold get_sess in H. congruence.
Qed.

Lemma mem_of_set_rooms h v k : mem_of (set_rooms h v) k = option_map r_members (pget v k).
Proof. reflexivity. Qed.

Lemma same_room_update h k r r' : room_of h k = Some r -> r_members r' = r_members r ->
  same h (set_rooms h (pset (h_rooms h) k r')).
Proof.
  intros Hr Hm. constructor; try reflexivity.
  - intros x s s' H1 H2. assert (s' = s) by (unfold get_sess in *; cbn in H2; congruence). subst. apply pend_ok_refl.
  - intros k'. rewrite mem_of_set_rooms, pget_pset. destruct (pair_eqb_spec k' k) as [->|]; [|reflexivity].
    unfold mem_of. rewrite Hr. cbn. now rewrite Hm.
Qed.

(* the state agrees and the outputs change no view *)
Definition quiet (h : hub) (r : hub * list out) : Prop := same h (fst r) /\ forallb out_irr (snd r) = true.

Lemma quiet_ret h : quiet h (h, []).
Proof. split; [apply same_refl|reflexivity]. Qed.
Lemma quiet_same h h' : same h h' -> quiet h (h', []).
Proof. intros E. split; [exact E|reflexivity]. Qed.
Lemma quiet_seq h r1 r2 : quiet h r1 -> quiet (fst r1) r2 -> quiet h (fst r2, snd r1 ++ snd r2).
Proof.
  intros [E1 I1] [E2 I2]. split; cbn [fst snd]; [eapply same_trans; eauto|]. rewrite forallb_app, I1, I2. reflexivity.
Qed.
Lemma quiet_out h r o : quiet h r -> out_irr o = true -> quiet h (fst r, o :: snd r).
Proof. intros [E I] Ho. split; cbn [fst snd forallb]; [exact E|]. now rewrite Ho, I. Qed.
Lemma Jg_quiet xr xs h g r : quiet h r -> Jg xr xs h g -> Jg xr xs (fst r) (gouts g (snd r)).
Proof. intros [E I]. now apply Jg_same_irr. Qed.

Lemma irr_map_mcu {A} (f : A -> mcuev) l : forallb out_irr (map (fun t => ToMcu (f t)) l) = true.
Proof. induction l; cbn; auto. Qed.

Lemma same_rs_set h sid rs : same h (rs_set h sid rs).
Proof.
  unfold rs_set. destruct (N.eqb rs 0).
  - destruct (aget (h_rs1 h) sid); [|apply same_refl]. apply same_fields; reflexivity.
  - destruct (aget (h_rs1 h) sid) as [prev|]; [destruct (N.eqb prev rs); [apply same_refl|]|]; apply same_fields; reflexivity.
Qed.
Lemma same_rs_del h sid : same h (rs_del h sid).
Proof. apply same_rs_set. Qed.

Lemma quiet_close_tokens h toks : quiet h (close_tokens h toks).
Proof.
  unfold close_tokens. split; cbn [fst snd]; [apply same_fields; reflexivity|].
  apply (irr_map_mcu MClose).
Qed.

Lemma quiet_release_mcu h sid : quiet h (release_mcu h sid).
Proof.
  unfold release_mcu. destruct (get_sess h sid) as [s|] eqn:Hs; [|apply quiet_ret].
  set (h1 := put_sess h sid _). destruct (quiet_close_tokens h1 (map snd (s_pubs s) ++ map snd (s_subs s))) as [E I].
  split; [|exact I]. eapply same_trans; [|exact E]. apply (same_put h sid s); [exact Hs|reflexivity|now apply pend_ok_eq].
Qed.

Lemma quiet_revoke h sid : quiet h (revoke h sid).
Proof.
  unfold revoke. destruct (get_sess h sid) as [s|] eqn:Hs; [|apply quiet_ret].
  match goal with |- quiet _ (close_tokens ?hh ?tt) => destruct (quiet_close_tokens hh tt) as [E I] end.
  split; [|exact I]. eapply same_trans; [|exact E]. apply (same_put h sid s); [exact Hs|reflexivity|now apply pend_ok_eq].
Qed.

Lemma quiet_leave_call h sid : quiet h (leave_call h sid).
Proof.
  unfold leave_call. destruct (get_sess h sid) as [s|]; [|apply quiet_ret].
  destruct (s_kind s); destruct (s_room s); try apply quiet_ret; apply quiet_release_mcu.
Qed.

Lemma same_set_incall h k sid on : same h (set_incall h k sid on).
Proof.
  unfold set_incall. destruct (room_of h k) as [r|] eqn:Hr; [|apply same_refl].
  destruct (on && negb (nmem sid (r_members r))); [apply same_refl|]. eapply same_room_update; eauto.
Qed.

Lemma same_record_failure h a b : same h (record_failure h a b).
Proof. apply same_fields; reflexivity. Qed.

Lemma same_drop_vt h kd sid : same h (drop_vt h kd sid).
Proof.
  unfold drop_vt. destruct kd; try apply same_refl. destruct (pget (h_vtable h) (parent, vid)) as [x|]; [|apply same_refl].
  destruct (N.eqb x sid); [apply same_fields; reflexivity|apply same_refl].
Qed.

(* ------------------------------------------------------------------ sending a message that changes no view *)
Lemma replay_enqueue_irr q m v : msg_irr m = true -> replay (enqueue q m) v = replay q v.
Proof.
  intros H. unfold enqueue. destruct (is_chat_refresh m && existsb is_chat_refresh q); [reflexivity|].
  rewrite replay_app. cbn. now apply apply_view_irr.
Qed.

Lemma filtered_irr t m : msg_irr m = true -> filtered t m = Some m /\ seen_after t m = t.
Proof. destruct m; cbn; try discriminate; auto. Qed.

Lemma put_same_id h x t : get_sess h x = Some t -> same h (put_sess h x t).
Proof. intros H. apply (same_put h x t t H eq_refl (pend_ok_refl t)). Qed.

Lemma quiet_deliver_irr h x m : msg_irr m = true -> quiet h (deliver_to_session h x m).
Proof.
  intros Hm. destruct (get_sess h x) as [t|] eqn:Ht.
  - rewrite (deliver_to_session_eq h x m t Ht). destruct (filtered_irr t m Hm) as [-> ->].
    destruct (s_conn t) as [c|] eqn:Hc.
    + split; cbn [fst snd forallb out_irr]; [now apply put_same_id|now rewrite Hm].
    + split; cbn [fst snd]; [|reflexivity]. apply (same_put h x t); [exact Ht|reflexivity|].
      split; [intros Hn; congruence|]. split; [intros v; cbn; now apply replay_enqueue_irr|].
      intros m0 Hm0. cbn in Hm0. unfold enqueue in Hm0. destruct (is_chat_refresh m && existsb is_chat_refresh (s_pending t)); [now left|].
      apply in_app_iff in Hm0 as [?|[<-|[]]]; [now left|right]. destruct m; try discriminate; reflexivity.
  - unfold deliver_to_session. rewrite Ht. apply quiet_ret.
Qed.

Lemma quiet_send_irr h x m : msg_irr m = true -> never_closing m = true -> quiet h (send_session h x m).
Proof.
  intros Hm Hn. rewrite send_session_eq. pose proof (quiet_deliver_irr h (target h x) m Hm) as Q.
  destruct (get_sess h (target h x)) as [t|] eqn:Ht.
  - rewrite (deliver_to_session_eq h _ m t Ht) in *. destruct (filtered_irr t m Hm) as [Hf Hs]. rewrite Hf, Hs in *.
    destruct (s_conn t) as [c|]; [|exact Q]. rewrite (is_closing_never _ c m Hn). exact Q.
  - unfold deliver_to_session in *. rewrite Ht in *. exact Q.
Qed.

(* ------------------------------------------------------------------ media: nothing the invariant reads *)
Lemma quiet_pre h h' r : same h h' -> quiet h' r -> quiet h r.
Proof. intros E [E' I]. split; [eapply same_trans; eauto|exact I]. Qed.
Lemma quiet_cons h r o : quiet h r -> out_irr o = true -> quiet h (let '(h1, o1) := r in (h1, o :: o1)).
Proof. destruct r as [h1 o1]. intros [E I] Ho. split; cbn [fst snd forallb] in *; [exact E|now rewrite Ho, I]. Qed.
Lemma quiet_cons2 h r o o' : quiet h r -> out_irr o = true -> out_irr o' = true -> quiet h (let '(h1, o1) := r in (h1, o :: o' :: o1)).
Proof. destruct r as [h1 o1]. intros [E I] Ho Ho'. split; cbn [fst snd forallb] in *; [exact E|now rewrite Ho, Ho', I]. Qed.

Lemma same_put_then h x s s' h' : same (put_sess h x s') h' -> get_sess h x = Some s -> vcore s' = vcore s ->
  pend_ok s s' -> same h h'.
Proof. intros E Hs Hc Hp. eapply same_trans; [|exact E]. now apply (same_put h x s). Qed.

Lemma quiet_finish_create h tok p ok : quiet h (finish_create h tok p ok).
Proof.
  unfold finish_create. destruct (negb ok).
  { apply quiet_cons; [now apply quiet_send_irr|reflexivity]. }
  destruct (get_sess h (mp_owner p)) as [s|] eqn:Hs; [|split; [apply same_refl|reflexivity]].
  destruct (negb (N.eqb (s_rel s) (mp_rel p))).
  { apply quiet_cons2; [now apply quiet_send_irr|reflexivity|reflexivity]. }
  destruct (N.eqb (mp_kind p) 0 && negb (offer_allowed (s_perms s) (mp_stream p) (N.land (mp_media p) 3))).
  { apply quiet_cons2; [now apply quiet_send_irr|reflexivity|reflexivity]. }
  destruct (N.eqb (mp_kind p) 0).
  - destruct (aget (s_pubs s) (mp_stream p)).
    + apply quiet_cons2; [|reflexivity|reflexivity]. destruct (N.eqb (mp_reply p) 1); [now apply quiet_send_irr|apply quiet_ret].
    + apply quiet_cons; [|reflexivity].
      match goal with |- quiet _ (if _ then send_session ?hh _ _ else _) => assert (E : same h hh) end.
      { eapply same_put_then; [apply same_fields; reflexivity|exact Hs|reflexivity|now apply pend_ok_eq]. }
      destruct (N.eqb (mp_reply p) 1); [eapply quiet_pre; [exact E|now apply quiet_send_irr]|now apply quiet_same].
  - destruct (sub_get s (mp_pubof p) (mp_stream p)).
    + apply quiet_cons2; [|reflexivity|reflexivity]. destruct (N.eqb (mp_reply p) 2); [now apply quiet_send_irr|apply quiet_ret].
    + apply quiet_cons; [|reflexivity].
      match goal with |- quiet _ (if _ then send_session ?hh _ _ else _) => assert (E : same h hh) end.
      { eapply same_put_then; [apply same_fields; reflexivity|exact Hs|reflexivity|now apply pend_ok_eq]. }
      destruct (N.eqb (mp_reply p) 2); [eapply quiet_pre; [exact E|now apply quiet_send_irr]|now apply quiet_same].
Qed.

Lemma quiet_start_create h p : quiet h (start_create h p).
Proof.
  unfold start_create. destruct (h_gated h).
  - split; cbn [fst snd]; [apply same_fields; reflexivity|reflexivity].
  - apply quiet_cons; [|reflexivity]. eapply quiet_pre; [|apply quiet_finish_create]. apply same_fields; reflexivity.
Qed.

Lemma quiet_do_mcudone h tok ok : quiet h (do_mcudone h tok ok).
Proof.
  unfold do_mcudone. destruct (aget (h_mcupending h) tok) as [p|]; [|apply quiet_ret].
  eapply quiet_pre; [|apply quiet_finish_create]. apply same_fields; reflexivity.
Qed.

Lemma quiet_err h c e : quiet h (h, [ToConn c (SError e)]).
Proof. split; [apply same_refl|reflexivity]. Qed.

Lemma quiet_do_sendoffer h c x s i stream : quiet h (do_sendoffer h c x s i stream).
Proof.
  unfold do_sendoffer.
  destruct i as [n|n|k|n]; try (destruct (negb (send_allowed (s_perms s) stream)); [apply quiet_err|apply quiet_ret]).
  destruct (get_sess h n) as [t|] eqn:Ht; [|destruct (negb (send_allowed (s_perms s) stream)); [apply quiet_err|apply quiet_ret]].
  destruct (N.eqb_spec (s_backend t) (s_backend s)) as [Hbt|]; cbn [negb]; [|apply quiet_ret].
  destruct (N.eqb n x); [apply quiet_ret|].
  destruct (negb (send_allowed (s_perms s) stream)); [apply quiet_err|].
  cbv zeta. set (r := match s_kind t with KVirtual p _ => p | _ => n end).
  destruct (get_sess h r) as [rs|] eqn:Hr; [|apply quiet_ret].
  destruct (is_virtual (s_kind rs)) eqn:Hv; [apply quiet_ret|].
  destruct (sub_get rs x stream); [now apply quiet_send_irr|apply quiet_start_create].
Qed.

Lemma quiet_do_media h c sid s to mk stream media : get_sess h sid = Some s ->
  quiet h (do_media h c sid s to mk stream media).
Proof.
  intros Hs. unfold do_media. destruct to as [i| | |]; try apply quiet_ret.
  destruct (N.eqb mk 0).
  { destruct (negb (offer_allowed (s_perms s) stream _)); [apply quiet_err|].
    destruct (aget (s_pubs s) stream) as [tok|]; [|apply quiet_start_create].
    eapply quiet_pre; [|now apply quiet_send_irr]. apply (same_put h sid s); [exact Hs|reflexivity|now apply pend_ok_eq]. }
  destruct (N.eqb mk 1).
  { destruct (match i with IdPub x => N.eqb x sid | _ => false end); [apply quiet_ret|].
    destruct (negb (same_call h sid s _)); [apply quiet_err|].
    destruct (sub_get s _ stream); [now apply quiet_send_irr|apply quiet_start_create]. }
  destruct (is_cand mk); [|destruct (N.eqb mk 3); [apply quiet_do_sendoffer|apply quiet_ret]].
  destruct (match i with IdPub x => N.eqb x sid | _ => false end).
  - destruct (negb (send_allowed (s_perms s) stream)); [apply quiet_err|].
    destruct (aget (s_pubs s) stream); [apply quiet_ret|apply quiet_err].
  - destruct (sub_get s _ stream); [apply quiet_ret|apply quiet_err].
Qed.

(* ------------------------------------------------------------------ publishing *)
Definition neutral_msg (m : amsg) : bool := match m with ARoomEvent _ | ASessionJoined _ _ => false | _ => true end.
Lemma pub_op_neutral sid k tj M p : neutral_msg (p_msg p) = true -> pub_op sid k tj M p = None.
Proof. unfold pub_op. destruct (p_subj p), (p_msg p); cbn; try discriminate; reflexivity. Qed.

Lemma bus_publish h subj m : h_bus (publish h subj m) = h_bus h ++ [mkpub subj m (h_clock h)].
Proof. reflexivity. Qed.
Lemma clock_publish h subj m : h_clock (publish h subj m) = h_clock h + 1.
Proof. reflexivity. Qed.

Lemma Jh_publish h g subj m : Jh h g -> pub_shape (mkpub subj m (h_clock h)) ->
  (forall b r x i s, subj = SubjBackendRoom b r -> m = ASessionJoined x i -> get_sess h x = Some s ->
                     s_room s = None \/ s_room s = Some (b, r)) ->
  (forall x i, m = ASessionJoined x i -> x <= h_nextsid h) ->
  Jh (publish h subj m) g.
Proof.
  intros H Hsh Ha Hid. constructor.
  - exact (j_keys _ _ H).
  - exact (j_room0 _ _ H).
  - intros p Hp. rewrite bus_publish in Hp. rewrite clock_publish. apply in_app_iff in Hp as [Hp|[<-|[]]].
    + pose proof (j_times _ _ H p Hp). lia.
    + cbn. lia.
  - intros p Hp. rewrite bus_publish in Hp. apply in_app_iff in Hp as [Hp|[<-|[]]]; [now apply H|exact Hsh].
  - intros p b r x i s Hp Hsu Hm Hs. rewrite bus_publish in Hp. apply in_app_iff in Hp as [Hp|[<-|[]]].
    + eapply (j_asj _ _ H); eauto.
    + cbn in Hsu, Hm. eapply Ha; eauto.
  - intros p x i Hp Hm. rewrite bus_publish in Hp. apply in_app_iff in Hp as [Hp|[<-|[]]].
    + eapply (j_asj_id _ _ H); eauto.
    + cbn in Hm. rewrite clock_publish || idtac. now apply (Hid x i).
  - exact (j_fresh_view _ _ H).
  - exact (j_fresh_bind _ _ H).
  - exact (j_live _ _ H).
  - intros sid s Hs. rewrite clock_publish. pose proof (j_join _ _ H sid s Hs). lia.
  - exact (j_backend _ _ H).
  - exact (j_pc _ _ H).
  - exact (j_nohello _ _ H).
  - exact (j_vconn _ _ H).
  - exact (j_cs _ _ H).
  - exact (j_bind _ _ H).
Qed.

Lemma view_ok_app_none xr mo v bus sid s p :
  (forall k M, s_room s = Some k -> pub_op sid k (s_join s) M p = None) ->
  view_ok xr mo v bus sid s -> view_ok xr mo v (bus ++ [p]) sid s.
Proof.
  unfold view_ok. destruct (s_room s) as [k|]; [|auto]. intros Hn [H|(M & V & H1 & H2 & H3 & H4)]; [now left|right].
  exists M, V. repeat split; auto. intros z. rewrite bus_ops_app. cbn [bus_ops flat_map]. rewrite (Hn k M eq_refl).
  cbn [opt_list app]. rewrite app_nil_r. apply H4.
Qed.

Lemma Jg_publish_neutral xr xs h g subj m : neutral_msg m = true -> pub_shape (mkpub subj m (h_clock h)) ->
  Jg xr xs h g -> Jg xr xs (publish h subj m) g.
Proof.
  intros Hn Hsh [H V]. split.
  - apply Jh_publish; auto; [intros b r x i s _ ->|intros x i ->]; discriminate.
  - rewrite bus_publish. intros sid s Hs Hv Hx. apply view_ok_app_none; [|now apply V].
    intros k M _. now apply pub_op_neutral.
Qed.

(* ------------------------------------------------------------------ changing one session / the rooms *)
Lemma Jh_fields h h' g : Jh h g -> h_sessions h' = h_sessions h -> h_bus h' = h_bus h -> h_clock h <= h_clock h' ->
  h_nextsid h <= h_nextsid h' -> h_conns h' = h_conns h -> (forall k r, room_of h' k = Some r -> snd k <> 0) -> Jh h' g.
Proof.
  intros H Hs Hb Hc Hn Hcn Hr. constructor; unfold get_sess; rewrite ?Hs, ?Hb, ?Hcn; try apply H.
  - exact Hr.
  - intros p Hp. pose proof (j_times _ _ H p Hp). lia.
  - intros p x i Hp Hm. pose proof (j_asj_id _ _ H p x i Hp Hm). lia.
  - intros sid Hsid. apply H. lia.
  - intros c sid Hb'. pose proof (j_fresh_bind _ _ H c sid Hb'). lia.
  - intros sid s Hg. pose proof (j_live _ _ H sid s Hg). lia.
  - intros sid s Hg. pose proof (j_join _ _ H sid s Hg). lia.
Qed.

Lemma mem_of_put h sid s k : mem_of (put_sess h sid s) k = mem_of h k.
Proof. reflexivity. Qed.

Lemma Jh_put h g sid s s' : Jh h g -> get_sess h sid = Some s ->
  (forall p b r i, In p (h_bus h) -> p_subj p = SubjBackendRoom b r -> p_msg p = ASessionJoined sid i ->
                   s_room s' = None \/ s_room s' = Some (b, r)) ->
  s_join s' <= h_clock h -> (forall k, s_room s' = Some k -> fst k = s_backend s') ->
  (s_conn s' <> None -> s_pending s' = []) -> (forall m, In m (s_pending s') -> no_hello m = true) ->
  (is_virtual (s_kind s') = true -> s_conn s' = None) ->
  (forall c, s_conn s' = Some c -> s_conn s = Some c) -> Jh (put_sess h sid s') g.
Proof.
  intros H Hs Ha Hj Hb Hp Hnh Hv Hc. constructor.
  - unfold put_sess. cbn [h_sessions set_sessions]. apply nodup_keys_aset, H.
  - exact (j_room0 _ _ H).
  - exact (j_times _ _ H).
  - exact (j_shape _ _ H).
  - intros p b r x i t Hin Hsu Hm Ht. rewrite get_put in Ht. destruct (N.eqb_spec x sid) as [->|].
    + injection Ht as <-. eapply Ha; eauto.
    + eapply (j_asj _ _ H); eauto.
  - exact (j_asj_id _ _ H).
  - exact (j_fresh_view _ _ H).
  - exact (j_fresh_bind _ _ H).
  - intros x t Ht. rewrite get_put in Ht. destruct (N.eqb_spec x sid) as [->|]; eapply (j_live _ _ H); eauto.
  - intros x t Ht. rewrite get_put in Ht. destruct (N.eqb_spec x sid) as [->|]; [injection Ht as <-; exact Hj|eapply (j_join _ _ H); eauto].
  - intros x t k Ht. rewrite get_put in Ht. destruct (N.eqb_spec x sid) as [->|]; [injection Ht as <-; apply Hb|eapply (j_backend _ _ H); eauto].
  - intros x t Ht. rewrite get_put in Ht. destruct (N.eqb_spec x sid) as [->|]; [injection Ht as <-; exact Hp|eapply (j_pc _ _ H); eauto].
  - intros x t m Ht. rewrite get_put in Ht. destruct (N.eqb_spec x sid) as [->|]; [injection Ht as <-; apply Hnh|eapply (j_nohello _ _ H); eauto].
  - intros x t Ht. rewrite get_put in Ht. destruct (N.eqb_spec x sid) as [->|]; [injection Ht as <-; exact Hv|eapply (j_vconn _ _ H); eauto].
  - intros x t c Ht Htc. rewrite get_put in Ht. destruct (N.eqb_spec x sid) as [->|].
    + injection Ht as <-. apply (j_cs _ _ H sid s c Hs). now apply Hc.
    + eapply (j_cs _ _ H); eauto.
  - intros x t c Ht Htc. rewrite get_put in Ht. destruct (N.eqb_spec x sid) as [->|].
    + injection Ht as <-. apply (j_bind _ _ H sid s c Hs). now apply Hc.
    + eapply (j_bind _ _ H); eauto.
Qed.

Lemma Jv_put xr xs h g bus sid s' : Jv xr (or_sid xs sid) h g bus ->
  (is_virtual (s_kind s') = false -> ~ xs sid -> view_ok xr (mem_of h) (g_view g sid) bus sid s') ->
  Jv xr xs (put_sess h sid s') g bus.
Proof.
  intros V Hv x t Ht Hvt Hx. rewrite get_put in Ht. destruct (N.eqb_spec x sid) as [->|Hne].
  - injection Ht as <-. now apply Hv.
  - apply V; auto. intros [A|B]; [now apply Hx|contradiction].
Qed.

Lemma Jv_exempt xr xs h g bus sid : Jv xr xs h g bus -> Jv xr (or_sid xs sid) h g bus.
Proof. apply Jv_weaken; [auto|]. intros x Hx. now left. Qed.
Lemma Jg_exempt xr xs h g sid : Jg xr xs h g -> Jg xr (or_sid xs sid) h g.
Proof. intros [A B]. split; [exact A|now apply Jv_exempt]. Qed.

(* a session leaves its room (the member list is updated afterwards) *)
Lemma Jg_unroom xr xs h g sid s s' : Jg xr xs h g -> get_sess h sid = Some s ->
  s_room s' = None -> s_kind s' = s_kind s -> s_conn s' = s_conn s -> s_pending s' = s_pending s ->
  s_join s' <= h_clock h -> Jg xr (or_sid xs sid) (put_sess h sid s') g.
Proof.
  intros [H V] Hs Hr Hk Hc Hp Hj. split.
  - apply (Jh_put h g sid s s' H Hs); auto.
    + intros k Hk'. congruence.
    + intros Hn. rewrite Hp. apply (j_pc _ _ H sid s Hs). congruence.
    + intros m. rewrite Hp. apply (j_nohello _ _ H sid s m Hs).
    + intros Hv. rewrite Hc. apply (j_vconn _ _ H sid s Hs). congruence.
    + intros c. congruence.
  - apply Jv_put; [apply Jv_exempt, Jv_exempt, V|]. intros _ Hx. exfalso. apply Hx. now right.
Qed.

Lemma pair_eqb_eta k k' : pair_eqb (fst k, snd k) k' = pair_eqb k k'.
Proof. destruct k. reflexivity. Qed.

Lemma room_remove_facts h k sid r : room_of h k = Some r -> nmem sid (r_members r) = true ->
  exists h2, room_remove h k sid = publish h2 (SubjRoom (fst k) (snd k)) (ARoomEvent (SLeave [sid])) /\
    h_sessions h2 = h_sessions h /\ h_bus h2 = h_bus h /\ h_clock h2 = h_clock h /\ h_nextsid h2 = h_nextsid h /\
    h_conns h2 = h_conns h /\
    (forall k', mem_of h2 k' = if pair_eqb k' k then match nrem sid (r_members r) with [] => None | l => Some l end
                                else mem_of h k') /\
    (forall k' r', room_of h2 k' = Some r' -> room_of h k' <> None).
Proof.
  intros Hr Hm. unfold room_remove. rewrite Hr, Hm. eexists. split; [reflexivity|].
  unfold remove_room_if_empty. rewrite room_of_set_rooms, pget_pset_same. cbn [r_members].
  destruct (nrem sid (r_members r)) as [|a l] eqn:Hn.
  - repeat split; try reflexivity.
    + intros k'. rewrite mem_of_set_rooms, pget_pdel. cbn [h_rooms set_rooms]. rewrite pget_pset. destruct (pair_eqb k' k); reflexivity.
    + intros k' r'. rewrite room_of_set_rooms, pget_pdel. cbn [h_rooms set_rooms]. rewrite pget_pset. destruct (pair_eqb_spec k' k) as [->|]; [discriminate|].
      unfold room_of. congruence.
  - repeat split; try reflexivity.
    + intros k'. rewrite mem_of_set_rooms, pget_pset. destruct (pair_eqb k' k); [cbn; reflexivity|reflexivity].
    + intros k' r'. rewrite room_of_set_rooms, pget_pset. destruct (pair_eqb_spec k' k) as [->|]; [congruence|].
      unfold room_of. congruence.
Qed.

Lemma bus_ops_single sid k tj M p : bus_ops sid k tj M [p] = opt_list (pub_op sid k tj M p).
Proof. unfold bus_ops. cbn. apply app_nil_r. Qed.
Lemma pub_op_room_event sid k tj M k0 m t :
  pub_op sid k tj M (mkpub (SubjRoom (fst k0) (snd k0)) (ARoomEvent m) t) =
  if pair_eqb k0 k && negb (t <? tj) then msg_op m else None.
Proof. unfold pub_op. cbn [p_subj p_msg p_time]. now rewrite pair_eqb_eta. Qed.

Lemma after_snoc ops o b z : after (ops ++ [o]) b z = vop_after o (after ops b z) z.
Proof. rewrite after_app. reflexivity. Qed.

Lemma Jg_room_remove xr xs h g k sid : Jg xr xs h g -> xs sid ->
  (forall y s, get_sess h y = Some s -> ~ xs y -> s_room s = Some k ->
               xr k \/ exists M, mem_of h k = Some M /\ In y M) ->
  Jg xr xs (room_remove h k sid) g.
Proof.
  intros [H V] Hx Hroom. destruct (room_of h k) as [r|] eqn:Hr.
  2:{ unfold room_remove. rewrite Hr. now split. }
  destruct (nmem sid (r_members r)) eqn:Hm.
  2:{ unfold room_remove. rewrite Hr, Hm. now split. }
  destruct (room_remove_facts h k sid r Hr Hm) as (h2 & -> & Hs2 & Hb2 & Hc2 & Hn2 & Hcn2 & Hmem2 & Hex2).
  assert (H2 : Jh h2 g).
  { apply (Jh_fields h h2 g H); auto; try (rewrite ?Hc2, ?Hn2; apply N.le_refl).
    intros k' r' Hr'. destruct (room_of h k') as [r0|] eqn:Hr0; [eapply (j_room0 _ _ H); eauto|]. now apply Hex2 in Hr'. }
  assert (Hg2 : forall x, get_sess h2 x = get_sess h x) by (intros x; unfold get_sess; now rewrite Hs2).
  split.
  - apply Jh_publish; [exact H2|exact I| |]; [intros b r0 x i s _ Hm'|intros x i Hm']; discriminate.
  - rewrite bus_publish, Hb2, Hc2. intros y s Hs Hv Hy. change (get_sess h2 y = Some s) in Hs. rewrite Hg2 in Hs.
    specialize (V y s Hs Hv Hy). unfold view_ok in *. destruct (s_room s) as [k'|] eqn:Hk'; [|exact V].
    destruct V as [V|(M & V0 & HM & Hrep & Hseen & Haft)]; [now left|].
    change (mem_of (publish h2 (SubjRoom (fst k) (snd k)) (ARoomEvent (SLeave [sid]))) k') with (mem_of h2 k').
    rewrite Hmem2. destruct (pair_eqb_spec k' k) as [->|Hne].
    + destruct (Hroom y s Hs Hy Hk') as [Hxr|(M' & HM' & Hin)]; [now left|right].
      assert (M' = M) by congruence. subst M'.
      assert (M = r_members r) by (apply mem_of_some in HM as (r0 & Hr0 & <-); congruence). subst M.
      assert (Hyne : y <> sid) by (intros ->; contradiction).
      assert (Hym : nmem y (nrem sid (r_members r)) = true).
      { rewrite nmem_nrem. apply nmem_In in Hin. rewrite Hin. destruct (N.eqb_spec y sid); [contradiction|reflexivity]. }
      exists (nrem sid (r_members r)), V0. split; [|split; [exact Hrep|split; [exact Hseen|]]].
      { destruct (nrem sid (r_members r)); [discriminate|reflexivity]. }
      intros z. rewrite bus_ops_app, bus_ops_single, pub_op_room_event, pair_eqb_refl.
      assert (Ht : (h_clock h <? s_join s) = false) by (apply N.ltb_ge; eapply (j_join _ _ H); eauto).
      rewrite Ht. cbn [negb andb msg_op opt_list]. rewrite after_snoc. cbn [vop_after nmem].
      rewrite orb_false_r, nmem_nrem. destruct (N.eqb_spec z sid) as [->|Hz]; cbn [negb andb]; [reflexivity|].
      rewrite (after_bus_ops_members y k (s_join s) (nrem sid (r_members r)) (r_members r) z).
      * apply Haft.
      * rewrite nmem_nrem. destruct (N.eqb_spec z sid); [contradiction|reflexivity].
    + right. exists M, V0. repeat split; auto. intros z. rewrite bus_ops_app, bus_ops_single, pub_op_room_event.
      destruct (pair_eqb_spec k k'); [congruence|]. cbn [andb opt_list]. rewrite app_nil_r. apply Haft.
Qed.

(* ------------------------------------------------------------------ leaving a room *)
(* every session that names room k is on k's member list (from the structural invariant) *)
Definition rooms_cover (xr : N * N -> Prop) (xs : N -> Prop) (h : hub) (k : N * N) : Prop :=
  forall y s, get_sess h y = Some s -> ~ xs y -> s_room s = Some k -> xr k \/ exists M, mem_of h k = Some M /\ In y M.

Lemma rooms_cover_wf xr xp xs h k : WFg xr xp h -> rooms_cover xr xs h k.
Proof.
  intros W y s Hs _ Hk. destruct (wf_room _ _ h W y s k Hs Hk) as [A|(r & Hr & Hi)]; [now left|right].
  exists (r_members r). split; [|exact Hi]. apply mem_of_some. eauto.
Qed.
Lemma rooms_cover_same xr xs h h' k : same h h' -> rooms_cover xr xs h k -> rooms_cover xr xs h' k.
Proof.
  intros E C y s' Hs Hx Hk. destruct (same_get _ _ _ _ E Hs) as (s & Hs0 & Hc & _). apply vcore_eq in Hc as (_ & _ & Hr & _).
  rewrite (sm_rooms _ _ E). apply (C y s Hs0 Hx). congruence.
Qed.
Lemma rooms_cover_put xr xs h k sid s' : rooms_cover xr xs h k -> rooms_cover xr (or_sid xs sid) (put_sess h sid s') k.
Proof.
  intros C y s Hs Hx Hk. rewrite get_put in Hs. destruct (N.eqb_spec y sid) as [->|].
  - exfalso. apply Hx. now right.
  - rewrite mem_of_put. apply (C y s Hs); [|exact Hk]. intro. apply Hx. now left.
Qed.

Lemma get_rs_del h sid x : get_sess (rs_del h sid) x = get_sess h x.
Proof. unfold get_sess. now rewrite rs_del_sessions. Qed.

Lemma Jg_pre xr xs h h' g : same h h' -> Jg xr xs h g -> Jg xr xs h' g.
Proof. apply Jg_same. Qed.

Lemma leave_room_irr h sid notify : forallb out_irr (snd (leave_room h sid notify)) = true.
Proof.
  unfold leave_room. destruct (get_sess h sid) as [s|]; [|reflexivity]. destruct (s_room s) as [k|]; [|reflexivity].
  destruct (is_virtual (s_kind s)); [reflexivity|].
  match goal with |- context [release_mcu ?hh ?x] => destruct (quiet_release_mcu hh x) as [_ I]; destruct (release_mcu hh x) as [h3 o2] end.
  cbn [snd] in *. rewrite forallb_app, I. destruct (notify && negb (N.eqb (s_rs s) 0)); reflexivity.
Qed.

Lemma Jg_leave_room xr xp xs h g sid notify : WFg xr xp h -> Jg xr xs h g ->
  Jg xr (or_sid xs sid) (fst (leave_room h sid notify)) (gouts g (snd (leave_room h sid notify))).
Proof.
  intros W HJ. apply Jg_irr; [apply leave_room_irr|].
  unfold leave_room. destruct (get_sess h sid) as [s|] eqn:Hs; [|now apply Jg_exempt].
  destruct (s_room s) as [k|] eqn:Hk; [|now apply Jg_exempt].
  pose proof (rooms_cover_wf xr xp xs h k W) as C.
  assert (E1 : same h (rs_del h sid)) by apply same_rs_del.
  assert (Hs1 : get_sess (rs_del h sid) sid = Some s) by now rewrite get_rs_del.
  pose proof (Jg_same _ _ _ _ _ E1 HJ) as J1. pose proof (rooms_cover_same _ _ _ _ _ E1 C) as C1.
  assert (Hcl : 0 <= h_clock (rs_del h sid)) by apply N.le_0_l.
  destruct (is_virtual (s_kind s)).
  - cbn [fst]. apply Jg_room_remove; [|now right|now apply rooms_cover_put].
    apply (Jg_unroom xr xs _ g sid s); auto. cbn. apply (j_join _ _ (proj1 J1) sid s Hs1).
  - set (s1 := upd_sess s None 0 (s_conn s) (s_perms s) (s_pending s) [] 0).
    set (h2 := put_sess (rs_del h sid) sid s1).
    assert (J2 : Jg xr (or_sid xs sid) h2 g) by (apply (Jg_unroom xr xs _ g sid s); auto).
    assert (C2 : rooms_cover xr (or_sid xs sid) h2 k) by now apply rooms_cover_put.
    destruct (quiet_release_mcu h2 sid) as [E3 _]. destruct (release_mcu h2 sid) as [h3 o2]. cbn [fst snd] in *.
    apply Jg_room_remove; [eapply Jg_same; eauto|now right|eapply rooms_cover_same; eauto].
Qed.

(* ------------------------------------------------------------------ removing a session *)
Lemma removal_proj h sid oc kd :
  let F := drop_vt (detach_conn (scrub h sid) oc) kd sid in
  h_sessions F = adel (h_sessions h) sid /\ h_rooms F = h_rooms h /\ h_bus F = h_bus h /\ h_clock F = h_clock h /\
  h_nextsid F = h_nextsid h /\ h_conns F = h_conns (detach_conn h oc).
Proof.
  cbv zeta. unfold drop_vt.
  assert (G : h_sessions (detach_conn (scrub h sid) oc) = adel (h_sessions h) sid /\ h_rooms (detach_conn (scrub h sid) oc) = h_rooms h /\
              h_bus (detach_conn (scrub h sid) oc) = h_bus h /\ h_clock (detach_conn (scrub h sid) oc) = h_clock h /\
              h_nextsid (detach_conn (scrub h sid) oc) = h_nextsid h /\ h_conns (detach_conn (scrub h sid) oc) = h_conns (detach_conn h oc)).
  { unfold detach_conn. destruct oc as [c|]; [|repeat split; reflexivity].
    change (h_conns (scrub h sid)) with (h_conns h). destruct (aget (h_conns h) c); repeat split; reflexivity. }
  destruct kd as [| |p v]; try exact G.
  destruct (pget (h_vtable (detach_conn (scrub h sid) oc)) (p, v)) as [x|]; [|exact G].
  destruct (N.eqb x sid); exact G.
Qed.

Lemma Jg_remove xr xs h g sid s : Jg xr (or_sid xs sid) h g -> get_sess h sid = Some s ->
  Jg xr xs (drop_vt (detach_conn (scrub h sid) (s_conn s)) (s_kind s) sid) g.
Proof.
  intros [H V] Hs. set (F := drop_vt _ _ _).
  destruct (removal_proj h sid (s_conn s) (s_kind s)) as (P1 & P2 & P3 & P4 & P5 & P6). fold F in P1, P2, P3, P4, P5, P6.
  assert (Hg : forall x, get_sess F x = if N.eqb x sid then None else get_sess h x).
  { intros x. unfold get_sess. rewrite P1. apply aget_adel. }
  assert (Hg' : forall x t, get_sess F x = Some t -> x <> sid /\ get_sess h x = Some t).
  { intros x t Ht. rewrite Hg in Ht. destruct (N.eqb_spec x sid); [discriminate|auto]. }
  assert (Hm : forall k, mem_of F k = mem_of h k) by (intros k; unfold mem_of, room_of; now rewrite P2).
  split.
  - constructor.
    + rewrite P1. apply nodup_keys_adel, H.
    + intros k r Hr. unfold room_of in Hr. rewrite P2 in Hr. eapply (j_room0 _ _ H); eauto.
    + rewrite P3, P4. apply H.
    + rewrite P3. apply H.
    + intros p b r x i t Hp Hsu Hmsg Ht. rewrite P3 in Hp. apply Hg' in Ht as [_ Ht]. eapply (j_asj _ _ H); eauto.
    + rewrite P3, P5. apply H.
    + rewrite P5. apply H.
    + rewrite P5. apply H.
    + intros x t Ht. apply Hg' in Ht as [_ Ht]. rewrite P5. eapply (j_live _ _ H); eauto.
    + intros x t Ht. apply Hg' in Ht as [_ Ht]. rewrite P4. eapply (j_join _ _ H); eauto.
    + intros x t k Ht. apply Hg' in Ht as [_ Ht]. eapply (j_backend _ _ H); eauto.
    + intros x t Ht. apply Hg' in Ht as [_ Ht]. eapply (j_pc _ _ H); eauto.
    + intros x t m Ht. apply Hg' in Ht as [_ Ht]. eapply (j_nohello _ _ H); eauto.
    + intros x t Ht. apply Hg' in Ht as [_ Ht]. eapply (j_vconn _ _ H); eauto.
    + intros x t c Ht Hc. apply Hg' in Ht as [Hne Ht]. destruct (j_cs _ _ H x t c Ht Hc) as (cn & Hcn & Hcs).
      rewrite P6, detach_conn_get. destruct (s_conn s) as [c0|] eqn:Hc0; [|eauto].
      destruct (N.eqb_spec c c0) as [->|]; [|eauto].
      destruct (j_cs _ _ H sid s c0 Hs Hc0) as (cn' & Hcn' & Hcs'). congruence.
    + intros x t c Ht Hc. apply Hg' in Ht as [_ Ht]. eapply (j_bind _ _ H); eauto.
  - rewrite P3. intros x t Ht Hv Hx. apply Hg' in Ht as [Hne Ht].
    eapply view_ok_ext; [exact Hm|reflexivity|]. apply V; auto. intros [A|B]; contradiction.
Qed.

(* what stays of a session across the functions that do not (re)attach it *)
Definition skept (s s1 : session) : Prop :=
  s_kind s1 = s_kind s /\ s_backend s1 = s_backend s /\ s_conn s1 = s_conn s /\ pend_ok s s1.
Lemma skept_refl s : skept s s.
Proof. split; [reflexivity|]. split; [reflexivity|]. split; [reflexivity|apply pend_ok_refl]. Qed.
Lemma skept_eq s s1 : s_kind s1 = s_kind s -> s_backend s1 = s_backend s -> s_conn s1 = s_conn s ->
  s_pending s1 = s_pending s -> skept s s1.
Proof. intros A B C D. split; [exact A|]. split; [exact B|]. split; [exact C|now apply pend_ok_eq]. Qed.
Lemma pend_ok_trans s1 s2 s3 : s_conn s2 = s_conn s1 -> pend_ok s1 s2 -> pend_ok s2 s3 -> pend_ok s1 s3.
Proof.
  intros Hc (A & B & C) (D & E & F). split; [intros Hn; rewrite D, A; auto; congruence|]. split; [intros v; now rewrite E, B|].
  intros m Hm. destruct (F m Hm) as [Hm'|]; [|now right]. now apply C.
Qed.
Lemma skept_trans s1 s2 s3 : skept s1 s2 -> skept s2 s3 -> skept s1 s3.
Proof.
  intros (A1 & A2 & A3 & A4) (B1 & B2 & B3 & B4). repeat split; try congruence; eapply pend_ok_trans; eauto.
Qed.
Lemma skept_same h h' x s s' : same h h' -> get_sess h x = Some s -> get_sess h' x = Some s' -> skept s s'.
Proof.
  intros E H1 H2. destruct (same_get' _ _ _ _ E H1) as (s2 & H2' & Hc & Hp). assert (s2 = s') by congruence. subst.
  apply vcore_eq in Hc as (A & B & _ & C & _). split; [exact A|]. split; [exact B|]. split; [exact C|exact Hp].
Qed.

Lemma get_room_remove h k x y : get_sess (room_remove h k x) y = get_sess h y.
Proof. unfold get_sess. now rewrite (proj1 (room_remove_proj h k x)). Qed.

Lemma leave_room_sid h sid notify s : get_sess h sid = Some s ->
  exists s1, get_sess (fst (leave_room h sid notify)) sid = Some s1 /\ s_room s1 = None /\ skept s s1.
Proof.
  intros Hs. unfold leave_room. rewrite Hs. destruct (s_room s) as [k|] eqn:Hk.
  2:{ exists s. cbn [fst]. split; [exact Hs|]. split; [exact Hk|apply skept_refl]. }
  destruct (is_virtual (s_kind s)).
  - cbn [fst]. rewrite get_room_remove, get_put, N.eqb_refl. eexists. split; [reflexivity|]. split; [reflexivity|].
    apply skept_eq; reflexivity.
  - set (s1 := upd_sess s None 0 (s_conn s) (s_perms s) (s_pending s) [] 0).
    set (h2 := put_sess (rs_del h sid) sid s1).
    assert (H2 : get_sess h2 sid = Some s1) by (unfold h2; now rewrite get_put, N.eqb_refl).
    destruct (quiet_release_mcu h2 sid) as [E3 _]. destruct (release_mcu h2 sid) as [h3 o2]. cbn [fst snd] in *.
    destruct (same_get' _ _ _ _ E3 H2) as (s3 & H3 & Hc & Hp). rewrite get_room_remove. exists s3. split; [exact H3|].
    pose proof (vcore_eq _ _ Hc) as (A & B & C & D & _). split; [rewrite C; reflexivity|].
    apply (skept_trans s s1 s3); [apply skept_eq; reflexivity|]. eapply skept_same; eauto.
Qed.

Lemma leave_room_other h sid notify y : y <> sid ->
  exists E : True, forall t, get_sess h y = Some t -> exists t', get_sess (fst (leave_room h sid notify)) y = Some t' /\ vcore t' = vcore t /\ pend_ok t t'.
Proof.
  intros Hne. exists I. intros t Ht. unfold leave_room. destruct (get_sess h sid) as [s|] eqn:Hs.
  2:{ exists t. cbn [fst]. split; [exact Ht|]. split; [reflexivity|apply pend_ok_refl]. }
  destruct (s_room s) as [k|] eqn:Hk.
  2:{ exists t. cbn [fst]. split; [exact Ht|]. split; [reflexivity|apply pend_ok_refl]. }
  destruct (is_virtual (s_kind s)).
  - cbn [fst]. rewrite get_room_remove, get_put_other, get_rs_del by exact Hne. exists t. split; [exact Ht|]. split; [reflexivity|apply pend_ok_refl].
  - set (s1 := upd_sess s None 0 (s_conn s) (s_perms s) (s_pending s) [] 0).
    set (h2 := put_sess (rs_del h sid) sid s1).
    assert (H2 : get_sess h2 y = Some t) by (unfold h2; now rewrite get_put_other, get_rs_del).
    destruct (quiet_release_mcu h2 sid) as [E3 _]. destruct (release_mcu h2 sid) as [h3 o2]. cbn [fst snd] in *.
    rewrite get_room_remove. eapply same_get'; eauto.
Qed.

(* ------------------------------------------------------------------ closing sessions *)
Lemma close_one_irr h sid : forallb out_irr (snd (close_one h sid)) = true.
Proof.
  unfold close_one. destruct (get_sess h sid) as [s|]; [|reflexivity].
  pose proof (leave_room_irr h sid true) as I1. destruct (leave_room h sid true) as [h1 o1].
  destruct (quiet_release_mcu h1 sid) as [_ I2]. destruct (release_mcu h1 sid) as [h2a o2a]. cbn [snd] in *.
  assert (I3 : forall l, forallb out_irr (o1 ++ (o2a ++ map (fun e : N * mcupend => ToMcu (MFailed (fst e))) l)) = true).
  { intros l. rewrite !forallb_app, I1, I2. cbn. induction l; cbn; auto. }
  destruct (s_kind s); cbn [snd]; try apply I3.
  rewrite app_assoc, app_assoc, forallb_app, <- app_assoc, I3. destruct (s_room s); reflexivity.
Qed.

Lemma Jg_close_one xr xp xs h g sid : WFg xr xp h -> Jg xr xs h g ->
  Jg xr xs (fst (close_one h sid)) (gouts g (snd (close_one h sid))).
Proof.
  intros W HJ. apply Jg_irr; [apply close_one_irr|].
  unfold close_one. destruct (get_sess h sid) as [s|] eqn:Hs; [|exact HJ].
  pose proof (Jg_leave_room xr xp xs h g sid true W HJ) as J1.
  destruct (leave_room_sid h sid true s Hs) as (s1 & Hs1 & Hr1 & K1).
  pose proof (leave_room_irr h sid true) as I1.
  destruct (leave_room h sid true) as [h1 o1]. cbn [fst snd] in *.
  apply (Jg_geq _ _ _ _ g) in J1; [|split; intros; symmetry; now apply (gouts_irr o1 g I1)].
  destruct (quiet_release_mcu h1 sid) as [E2 _]. destruct (release_mcu h1 sid) as [h2a o2a]. cbn [fst snd] in *.
  set (h2 := set_mcu h2a _ _ _).
  assert (E2' : same h1 h2) by (eapply same_trans; [exact E2|apply same_fields; try reflexivity; apply N.le_refl]).
  destruct (same_get' _ _ _ _ E2' Hs1) as (s2 & Hs2 & Hc2 & _). apply vcore_eq in Hc2 as (A & _ & _ & C & _).
  destruct K1 as (K1 & _ & K3 & _).
  assert (Hfin : Jg xr xs (drop_vt (detach_conn (scrub h2 sid) (s_conn s)) (s_kind s) sid) g).
  { replace (s_conn s) with (s_conn s2) by congruence. replace (s_kind s) with (s_kind s2) by congruence.
    apply Jg_remove; [|exact Hs2]. eapply Jg_same; eauto. }
  destruct (s_kind s); cbn [fst]; exact Hfin.
Qed.

Lemma Jg_unirr xr xs h g outs : forallb out_irr outs = true -> Jg xr xs h (gouts g outs) -> Jg xr xs h g.
Proof. intros I. apply Jg_geq. split; intros; symmetry; now apply (gouts_irr outs g I). Qed.

Lemma Jg_close_all xr xs kids : forall hh oo g xp, WFg xr xp hh -> Jg xr xs hh g ->
  Jg xr xs (fst (close_all kids (hh, oo))) g.
Proof.
  induction kids as [|k kids IH]; intros hh oo g xp W HJ; cbn [close_all fold_left fst]; [exact HJ|].
  pose proof (wf_close_one xr xp hh k W) as W1. pose proof (Jg_close_one xr xp xs hh g k W HJ) as J1.
  pose proof (close_one_irr hh k) as I1. destruct (close_one hh k) as [h1 o1]. cbn [fst snd] in *.
  fold (close_all kids (h1, oo ++ o1)). eapply IH; [exact W1|]. eapply Jg_unirr; eauto.
Qed.
Lemma close_all_irr kids : forall hh oo, forallb out_irr oo = true -> forallb out_irr (snd (close_all kids (hh, oo))) = true.
Proof.
  induction kids as [|k kids IH]; intros hh oo I; cbn [close_all fold_left snd]; [exact I|].
  pose proof (close_one_irr hh k) as I1. destruct (close_one hh k) as [h1 o1]. cbn [snd] in I1.
  fold (close_all kids (h1, oo ++ o1)). apply IH. now rewrite forallb_app, I, I1.
Qed.

Lemma close_session_irr h sid : forallb out_irr (snd (close_session h sid)) = true.
Proof.
  unfold close_session. pose proof (close_one_irr h sid) as I1. destruct (close_one h sid) as [h1 o1]. cbn [snd] in I1.
  fold (close_all (children h sid) (h1, o1)). now apply close_all_irr.
Qed.
Lemma Jg_close_session xr xp xs h g sid : WFg xr xp h -> Jg xr xs h g ->
  Jg xr xs (fst (close_session h sid)) (gouts g (snd (close_session h sid))).
Proof.
  intros W HJ. apply Jg_irr; [apply close_session_irr|]. unfold close_session.
  pose proof (wf_close_one xr xp h sid W) as W1. pose proof (Jg_close_one xr xp xs h g sid W HJ) as J1.
  pose proof (close_one_irr h sid) as I1. destruct (close_one h sid) as [h1 o1]. cbn [fst snd] in *.
  fold (close_all (children h sid) (h1, o1)). eapply Jg_close_all; [exact W1|]. eapply Jg_unirr; eauto.
Qed.

(* ------------------------------------------------------------------ connections *)
Lemma view_ok_fields xr mo v bus sid s s' : s_room s' = s_room s -> s_pending s' = s_pending s -> s_seen s' = s_seen s ->
  s_join s' = s_join s -> view_ok xr mo v bus sid s -> view_ok xr mo v bus sid s'.
Proof. intros A B C D. unfold view_ok. now rewrite A, B, C, D. Qed.

Lemma Jg_disconnect xr xs h g sid s : Jg xr xs h g -> get_sess h sid = Some s ->
  Jg xr xs (put_sess h sid (sess_conn s None)) g.
Proof.
  intros [H V] Hs. split.
  - apply (Jh_put h g sid s _ H Hs).
    + intros p b r i Hp Hsu Hm. change (s_room (sess_conn s None)) with (s_room s). eapply (j_asj _ _ H); eauto.
    + change (s_join (sess_conn s None)) with (s_join s). eapply (j_join _ _ H); eauto.
    + change (s_room (sess_conn s None)) with (s_room s). change (s_backend (sess_conn s None)) with (s_backend s).
      intros k Hk. eapply (j_backend _ _ H); eauto.
    + intros Hn. contradiction.
    + intros m. apply (j_nohello _ _ H sid s m Hs).
    + reflexivity.
    + discriminate.
  - apply Jv_put; [now apply Jv_exempt|]. intros Hv Hx. apply (view_ok_fields _ _ _ _ _ s); auto.
Qed.

Lemma Jg_conn_gone xr xs h g c : Jg xr xs h g -> (forall x s, get_sess h x = Some s -> s_conn s <> Some c) ->
  Jg xr xs (set_conns h (adel (h_conns h) c)) g.
Proof.
  intros [H V] Hno. split; [|exact V]. constructor; try apply H.
  intros x s c' Hs Hc. destruct (j_cs _ _ H x s c' Hs Hc) as (cn & Hcn & Hcs). exists cn. split; [|exact Hcs].
  cbn [h_conns set_conns]. rewrite aget_adel. destruct (N.eqb_spec c' c) as [->|]; [|exact Hcn]. exfalso. eapply Hno; eauto.
Qed.

Lemma close_conn_irr h c : forallb out_irr (snd (close_conn h c)) = true.
Proof.
  unfold close_conn. destruct (aget (h_conns h) c) as [cn|]; [|reflexivity].
  destruct (c_sess cn) as [sid|]; [|reflexivity].
  match goal with |- context [close_session ?hh sid] => pose proof (close_session_irr hh sid) as I; destruct (close_session hh sid) as [h3 o3] end.
  exact I.
Qed.

Lemma Jg_close_conn xr xs h g c : WFg xr none1 h -> Jg xr xs h g ->
  Jg xr xs (fst (close_conn h c)) (gouts g (snd (close_conn h c))).
Proof.
  intros W HJ. apply Jg_irr; [apply close_conn_irr|].
  unfold close_conn. destruct (aget (h_conns h) c) as [cn|] eqn:Hc; [|exact HJ].
  pose proof (wf_del_conn _ _ h c W) as W1.
  assert (Hone : forall x s, get_sess h x = Some s -> s_conn s = Some c -> c_sess cn = Some x).
  { intros x s Hx Hxc. destruct (j_cs _ _ (proj1 HJ) x s c Hx Hxc) as (cn' & Hcn' & Hcs'). congruence. }
  destruct (c_sess cn) as [sid|] eqn:Hcs.
  2:{ cbn [fst]. apply Jg_conn_gone; [exact HJ|]. intros x s Hx Hxc. specialize (Hone x s Hx Hxc). discriminate. }
  match goal with |- context [close_session ?hh sid] => set (h2 := hh) end.
  assert (J2 : Jg xr xs h2 g /\ WFg xr none1 h2).
  { subst h2. change (get_sess (set_conns h (adel (h_conns h) c)) sid) with (get_sess h sid).
    destruct (get_sess h sid) as [s|] eqn:Hs.
    - split.
      + change (put_sess (set_conns h (adel (h_conns h) c)) sid (sess_conn s None))
          with (set_conns (put_sess h sid (sess_conn s None)) (adel (h_conns (put_sess h sid (sess_conn s None))) c)).
        apply Jg_conn_gone; [now apply Jg_disconnect|]. intros x t Hx Hxc. rewrite get_put in Hx.
        destruct (N.eqb_spec x sid) as [->|Hne]; [injection Hx as <-; discriminate|].
        specialize (Hone x t Hx Hxc). congruence.
      + apply wf_sess_conn_none; [exact W1|exact Hs|].
        intros c' cn'. hsimpl. rewrite aget_adel. destruct (N.eqb_spec c' c) as [->|Hne]; [discriminate|].
        intros Hc' Hx.
        destruct (wf_conns _ _ h W c cn sid Hc Hcs) as [s1 [Hs1 Hc1]].
        destruct (wf_conns _ _ h W c' cn' sid Hc' Hx) as [s2 [Hs2 Hc2]]. rewrite Hs1 in Hs2. injection Hs2 as <-. congruence.
    - split; [|exact W1]. apply Jg_conn_gone; [exact HJ|]. intros x t Hx Hxc. specialize (Hone x t Hx Hxc). congruence. }
  destruct J2 as [J2 W2].
  pose proof (Jg_close_session xr none1 xs h2 g sid W2 J2) as J3. pose proof (close_session_irr h2 sid) as I3.
  destruct (close_session h2 sid) as [h3 o3]. cbn [fst snd] in *. eapply Jg_unirr; eauto.
Qed.

Lemma send_conn_irr h c m : msg_irr m = true -> forallb out_irr (snd (send_conn h c m)) = true.
Proof.
  intros Hm. unfold send_conn. destruct (aget (h_conns h) c); [|reflexivity].
  destruct (is_closing h c m); [|cbn; now rewrite Hm].
  pose proof (close_conn_irr h c) as I. destruct (close_conn h c) as [h2 o2]. cbn [snd forallb out_irr] in *. now rewrite Hm, I.
Qed.
Lemma Jg_send_conn xr xs h g c m : msg_irr m = true -> WFg xr none1 h -> Jg xr xs h g ->
  Jg xr xs (fst (send_conn h c m)) (gouts g (snd (send_conn h c m))).
Proof.
  intros Hm W HJ. apply Jg_irr; [now apply send_conn_irr|].
  unfold send_conn. destruct (aget (h_conns h) c); [|exact HJ]. destruct (is_closing h c m); [|exact HJ].
  pose proof (Jg_close_conn xr xs h g c W HJ) as J2. pose proof (close_conn_irr h c) as I2.
  destruct (close_conn h c) as [h2 o2]. cbn [fst snd] in *. eapply Jg_unirr; eauto.
Qed.

(* sending a message that changes no view (it may close the connection and the session) *)
Lemma send_irr h x m : msg_irr m = true -> forallb out_irr (snd (send_session h x m)) = true.
Proof.
  intros Hm. rewrite send_session_eq. destruct (quiet_deliver_irr h (target h x) m Hm) as [_ I].
  destruct (deliver_to_session h (target h x) m) as [h1 outs]. cbn [snd] in I.
  destruct outs as [|[c mm| | |] [|o2 outs2]]; try exact I.
  destruct (is_closing h1 c mm); [|exact I].
  pose proof (close_conn_irr h1 c) as I2. destruct (close_conn h1 c) as [h2 o2]. cbn [snd] in *. now rewrite forallb_app, I, I2.
Qed.
Lemma Jg_send_irr xr xs h g x m : msg_irr m = true -> WFg xr none1 h -> Jg xr xs h g ->
  Jg xr xs (fst (send_session h x m)) (gouts g (snd (send_session h x m))).
Proof.
  intros Hm W HJ. apply Jg_irr; [now apply send_irr|]. rewrite send_session_eq.
  destruct (quiet_deliver_irr h (target h x) m Hm) as [E I].
  assert (W1 : WFg xr none1 (fst (deliver_to_session h (target h x) m))) by (eapply wf_equiv; [apply equiv_deliver_to_session|exact W]).
  destruct (deliver_to_session h (target h x) m) as [h1 outs]. cbn [fst snd] in *.
  pose proof (Jg_same _ _ _ _ _ E HJ) as J1.
  destruct outs as [|[c mm| | |] [|o2 outs2]]; try exact J1.
  destruct (is_closing h1 c mm); [|exact J1].
  pose proof (Jg_close_conn xr xs h1 g c W1 J1) as J2. pose proof (close_conn_irr h1 c) as I2.
  destruct (close_conn h1 c) as [h2 o2]. cbn [fst snd] in *. eapply Jg_unirr; eauto.
Qed.

(* ------------------------------------------------------------------ the bus only grows, and not by "session joined" notices *)
Definition not_asj (p : pub) : Prop := forall x i, p_msg p <> ASessionJoined x i.
Definition not_asj_for (sid : N) (p : pub) : Prop := forall i, p_msg p <> ASessionJoined sid i.
Lemma not_asj_weaken sid p : not_asj p -> not_asj_for sid p.
Proof. intros H i. apply H. Qed.
Definition grows (h h' : hub) : Prop := exists l, h_bus h' = h_bus h ++ l /\ forall p, In p l -> not_asj p.

Lemma grows_eq h h' : h_bus h' = h_bus h -> grows h h'.
Proof. intros E. exists []. rewrite app_nil_r. split; [exact E|intros p []]. Qed.
Lemma grows_refl h : grows h h.
Proof. now apply grows_eq. Qed.
Lemma grows_trans h1 h2 h3 : grows h1 h2 -> grows h2 h3 -> grows h1 h3.
Proof.
  intros (l1 & E1 & N1) (l2 & E2 & N2). exists (l1 ++ l2). split; [rewrite E2, E1; now rewrite app_assoc|].
  intros p Hp. apply in_app_iff in Hp as [Hp|Hp]; auto.
Qed.
Lemma grows_same h h' : same h h' -> grows h h'.
Proof. intros E. apply grows_eq, E. Qed.
Lemma grows_publish h subj m : (forall x i, m <> ASessionJoined x i) -> grows h (publish h subj m).
Proof. intros Hm. eexists. split; [apply bus_publish|]. intros p [<-|[]]. exact Hm. Qed.

Lemma grows_room_remove h k sid : grows h (room_remove h k sid).
Proof.
  destruct (room_of h k) as [r|] eqn:Hr.
  2:{ unfold room_remove. rewrite Hr. apply grows_refl. }
  destruct (nmem sid (r_members r)) eqn:Hm.
  2:{ unfold room_remove. rewrite Hr, Hm. apply grows_refl. }
  destruct (room_remove_facts h k sid r Hr Hm) as (h2 & -> & _ & Hb2 & _).
  eapply grows_trans; [apply grows_eq; exact Hb2|]. apply grows_publish. discriminate.
Qed.

Lemma grows_leave_room h sid notify : grows h (fst (leave_room h sid notify)).
Proof.
  unfold leave_room. destruct (get_sess h sid) as [s|]; [|apply grows_refl]. destruct (s_room s) as [k|]; [|apply grows_refl].
  destruct (is_virtual (s_kind s)).
  - cbn [fst]. eapply grows_trans; [|apply grows_room_remove]. apply grows_eq. cbn. unfold rs_del, rs_set. cbn.
    destruct (aget (h_rs1 h) sid); reflexivity.
  - match goal with |- context [release_mcu ?hh sid] => destruct (quiet_release_mcu hh sid) as [E _]; destruct (release_mcu hh sid) as [h3 o2];
      assert (G : grows h hh) end.
    { apply grows_eq. cbn. unfold rs_del, rs_set. cbn. destruct (aget (h_rs1 h) sid); reflexivity. }
    cbn [fst snd] in *. eapply grows_trans; [exact G|]. eapply grows_trans; [apply grows_same; exact E|apply grows_room_remove].
Qed.

Lemma grows_close_one h sid : grows h (fst (close_one h sid)).
Proof.
  unfold close_one. destruct (get_sess h sid) as [s|]; [|apply grows_refl].
  pose proof (grows_leave_room h sid true) as G1. destruct (leave_room h sid true) as [h1 o1].
  destruct (quiet_release_mcu h1 sid) as [E2 _]. destruct (release_mcu h1 sid) as [h2a o2a]. cbn [fst snd] in *.
  match goal with |- context [scrub ?hh sid] => set (h2 := hh) end.
  assert (G : grows h (drop_vt (detach_conn (scrub h2 sid) (s_conn s)) (s_kind s) sid)).
  { eapply grows_trans; [exact G1|]. eapply grows_trans; [apply grows_same; exact E2|].
    apply grows_eq. destruct (removal_proj h2 sid (s_conn s) (s_kind s)) as (_ & _ & P3 & _). exact P3. }
  destruct (s_kind s); exact G.
Qed.
Lemma grows_close_all kids : forall hh oo, grows hh (fst (close_all kids (hh, oo))).
Proof.
  induction kids as [|k kids IH]; intros hh oo; cbn [close_all fold_left fst]; [apply grows_refl|].
  pose proof (grows_close_one hh k) as G1. destruct (close_one hh k) as [h1 o1]. cbn [fst] in G1.
  fold (close_all kids (h1, oo ++ o1)). eapply grows_trans; [exact G1|apply IH].
Qed.
Lemma grows_close_session h sid : grows h (fst (close_session h sid)).
Proof.
  unfold close_session. pose proof (grows_close_one h sid) as G1. destruct (close_one h sid) as [h1 o1]. cbn [fst] in G1.
  fold (close_all (children h sid) (h1, o1)). eapply grows_trans; [exact G1|apply grows_close_all].
Qed.
Lemma grows_close_conn h c : grows h (fst (close_conn h c)).
Proof.
  unfold close_conn. destruct (aget (h_conns h) c) as [cn|]; [|apply grows_refl].
  destruct (c_sess cn) as [sid|]; [|apply grows_eq; reflexivity].
  match goal with |- context [close_session ?hh sid] => pose proof (grows_close_session hh sid) as G; destruct (close_session hh sid) as [h3 o3];
    assert (G0 : grows h hh) end.
  { apply grows_eq. destruct (get_sess _ sid); reflexivity. }
  cbn [fst] in *. eapply grows_trans; eauto.
Qed.
Lemma grows_send_conn h c m : grows h (fst (send_conn h c m)).
Proof.
  unfold send_conn. destruct (aget (h_conns h) c); [|apply grows_refl]. destruct (is_closing h c m); [|apply grows_refl].
  pose proof (grows_close_conn h c) as G. destruct (close_conn h c). exact G.
Qed.

(* ------------------------------------------------------------------ the other holder of a room session id is removed *)
Lemma Jg_drop_exempt xr xs h g sid : Jg xr (or_sid xs sid) h g -> get_sess h sid = None -> Jg xr xs h g.
Proof.
  intros [H V] Hn. split; [exact H|]. intros x t Ht Hv Hx. apply V; auto. intros [A| ->]; [contradiction|congruence].
Qed.

Lemma kick_irr h rs : forallb out_irr (snd (kick_room_session h rs)) = true.
Proof.
  unfold kick_room_session. destruct (aget (h_rs2 h) rs) as [sid'|]; [|reflexivity].
  destruct (get_sess h sid') as [s'|]; [|reflexivity].
  pose proof (leave_room_irr h sid' false) as I1. destruct (leave_room h sid' false) as [h1 o1].
  assert (I2 : forall c', forallb out_irr (snd (send_conn h1 c' (SBye B_room_session_reconnected))) = true) by (intros; now apply send_conn_irr).
  assert (I3 : forall hh, forallb out_irr (snd (close_session hh sid')) = true) by (intros; apply close_session_irr).
  cbn [snd] in I1.
  destruct (s_kind s'); destruct (s_conn s') as [c'|];
    try (specialize (I2 c'); destruct (send_conn h1 c' (SBye B_room_session_reconnected)) as [h2 o2]);
    match goal with |- context [close_session ?hh sid'] => specialize (I3 hh); destruct (close_session hh sid') as [h3 o3] end;
    cbn [snd] in *; rewrite !forallb_app, I1, ?I2, I3; reflexivity.
Qed.

Lemma kick_all xr xs h g rs : WFg xr none1 h -> Jg xr xs h g ->
  Jg xr xs (fst (kick_room_session h rs)) g /\ grows h (fst (kick_room_session h rs)).
Proof.
  intros W HJ. unfold kick_room_session. destruct (aget (h_rs2 h) rs) as [sid'|]; [|split; [exact HJ|apply grows_refl]].
  destruct (get_sess h sid') as [s'|] eqn:Hs'.
  2:{ cbn [fst]. split; [now apply Jg_publish_neutral|apply grows_publish; discriminate]. }
  pose proof (Jg_leave_room xr none1 xs h g sid' false W HJ) as J1. pose proof (wf_leave_room xr none1 h sid' false W) as W1.
  pose proof (leave_room_irr h sid' false) as I1. pose proof (grows_leave_room h sid' false) as G1.
  destruct (leave_room h sid' false) as [h1 o1]. cbn [fst snd] in *.
  apply (Jg_unirr _ _ _ _ _ I1) in J1.
  assert (Hfin : forall h2, WFg xr none1 h2 -> Jg xr (or_sid xs sid') h2 g -> grows h h2 ->
           Jg xr xs (fst (close_session h2 sid')) g /\ grows h (fst (close_session h2 sid'))).
  { intros h2 W2 J2 G2. split.
    - apply Jg_drop_exempt with (sid := sid'); [|apply close_session_gone].
      eapply Jg_unirr; [apply close_session_irr|]. now apply (Jg_close_session xr none1).
    - eapply grows_trans; [exact G2|apply grows_close_session]. }
  assert (Hsend : forall c', Jg xr xs (fst (let '(h2, o2) := send_conn h1 c' (SBye B_room_session_reconnected) in
                     let '(h3, o3) := close_session h2 sid' in (h3, o1 ++ o2 ++ o3))) g /\
                   grows h (fst (let '(h2, o2) := send_conn h1 c' (SBye B_room_session_reconnected) in
                     let '(h3, o3) := close_session h2 sid' in (h3, o1 ++ o2 ++ o3)))).
  { intros c'. pose proof (Jg_send_conn xr (or_sid xs sid') h1 g c' (SBye B_room_session_reconnected) eq_refl W1 J1) as J2.
    pose proof (wf_send_conn xr h1 c' (SBye B_room_session_reconnected) W1) as W2.
    pose proof (send_conn_irr h1 c' (SBye B_room_session_reconnected) eq_refl) as I2.
    pose proof (grows_send_conn h1 c' (SBye B_room_session_reconnected)) as G2.
    destruct (send_conn h1 c' (SBye B_room_session_reconnected)) as [h2 o2]. cbn [fst snd] in *.
    apply (Jg_unirr _ _ _ _ _ I2) in J2.
    specialize (Hfin h2 W2 J2 (grows_trans _ _ _ G1 G2)). destruct (close_session h2 sid') as [h3 o3]. exact Hfin. }
  assert (Hnone : Jg xr xs (fst (let '(h3, o3) := close_session h1 sid' in (h3, o1 ++ [] ++ o3))) g /\
                  grows h (fst (let '(h3, o3) := close_session h1 sid' in (h3, o1 ++ [] ++ o3)))).
  { specialize (Hfin h1 W1 J1 G1). destruct (close_session h1 sid') as [h3 o3]. exact Hfin. }
  destruct (s_kind s'); destruct (s_conn s') as [c'|]; try apply Hsend; exact Hnone.
Qed.

(* ------------------------------------------------------------------ hello *)
Lemma Jg_set_conn xr xs h g c cn' : Jg xr xs h g -> (forall x s, get_sess h x = Some s -> s_conn s <> Some c) ->
  Jg xr xs (set_conns h (aset (h_conns h) c cn')) g.
Proof.
  intros [H V] Hno. split; [|exact V]. constructor; try apply H.
  intros x s c' Hs Hc. destruct (j_cs _ _ H x s c' Hs Hc) as (cn & Hcn & Hcs). exists cn. split; [|exact Hcs].
  cbn [h_conns set_conns]. rewrite aget_aset_other; [exact Hcn|]. intros ->. eapply Hno; eauto.
Qed.

Lemma Jg_new_session xr xs h g F c sid ns u addr :
  Jg xr xs h g -> get_sess h sid = None -> h_nextsid h < sid ->
  (forall x s, get_sess h x = Some s -> s_conn s <> Some c) ->
  h_sessions F = aset (h_sessions h) sid ns -> h_rooms F = h_rooms h -> h_bus F = h_bus h -> h_clock F = h_clock h ->
  h_nextsid F = sid -> h_conns F = aset (h_conns h) c (mkconn addr (Some sid) false) ->
  s_room ns = None -> s_conn ns = Some c -> s_pending ns = [] -> is_virtual (s_kind ns) = false -> s_join ns <= h_clock h ->
  Jg xr xs F (gout g (ToConn c (SHello sid u))).
Proof.
  intros [H V] Hfresh Hlt Hno Ps Pr Pb Pc Pn Pcn Nr Ncn Np Nv Nj.
  assert (Hg : forall x, get_sess F x = if N.eqb x sid then Some ns else get_sess h x).
  { intros x. unfold get_sess. rewrite Ps. apply aget_aset. }
  assert (Hm : forall k, mem_of F k = mem_of h k) by (intros k; unfold mem_of, room_of; now rewrite Pr).
  cbn [gout]. split.
  - constructor; cbn [g_bind g_view].
    + rewrite Ps. apply nodup_keys_aset, H.
    + intros k r Hr. unfold room_of in Hr. rewrite Pr in Hr. eapply (j_room0 _ _ H); eauto.
    + rewrite Pb, Pc. apply H.
    + rewrite Pb. apply H.
    + intros p b r x i t Hp Hsu Hmsg Ht. rewrite Pb in Hp. rewrite Hg in Ht. destruct (N.eqb_spec x sid) as [->|].
      * injection Ht as <-. now left.
      * eapply (j_asj _ _ H); eauto.
    + intros p x i Hp Hmsg. rewrite Pb in Hp. rewrite Pn. pose proof (j_asj_id _ _ H p x i Hp Hmsg). lia.
    + intros x Hx. rewrite Pn in Hx. apply H. lia.
    + intros c' x. rewrite Pn. destruct (N.eqb_spec c' c) as [->|].
      * intros Hx. injection Hx as <-. apply N.le_refl.
      * intros Hx. pose proof (j_fresh_bind _ _ H c' x Hx). lia.
    + intros x t Ht. rewrite Pn. rewrite Hg in Ht. destruct (N.eqb_spec x sid) as [->|]; [apply N.le_refl|].
      pose proof (j_live _ _ H x t Ht). lia.
    + intros x t Ht. rewrite Pc. rewrite Hg in Ht. destruct (N.eqb_spec x sid) as [->|]; [injection Ht as <-; exact Nj|eapply (j_join _ _ H); eauto].
    + intros x t k Ht. rewrite Hg in Ht. destruct (N.eqb_spec x sid) as [->|]; [injection Ht as <-; congruence|eapply (j_backend _ _ H); eauto].
    + intros x t Ht. rewrite Hg in Ht. destruct (N.eqb_spec x sid) as [->|]; [injection Ht as <-; auto|eapply (j_pc _ _ H); eauto].
    + intros x t m Ht. rewrite Hg in Ht. destruct (N.eqb_spec x sid) as [->|]; [injection Ht as <-; rewrite Np; intros []|eapply (j_nohello _ _ H); eauto].
    + intros x t Ht. rewrite Hg in Ht. destruct (N.eqb_spec x sid) as [->|]; [injection Ht as <-; congruence|eapply (j_vconn _ _ H); eauto].
    + intros x t c' Ht Hc'. rewrite Pcn. rewrite Hg in Ht. destruct (N.eqb_spec x sid) as [->|].
      * injection Ht as <-. assert (c' = c) by congruence. subst c'. rewrite aget_aset_same. eauto.
      * rewrite aget_aset_other; [eapply (j_cs _ _ H); eauto|]. intros ->. eapply Hno; eauto.
    + intros x t c' Ht Hc'. rewrite Hg in Ht. destruct (N.eqb_spec x sid) as [->|].
      * injection Ht as <-. assert (c' = c) by congruence. subst c'. now rewrite N.eqb_refl.
      * destruct (N.eqb_spec c' c) as [->|]; [exfalso; eapply Hno; eauto|eapply (j_bind _ _ H); eauto].
  - rewrite Pb. intros x t Ht Hv Hx. cbn [g_view]. rewrite Hg in Ht. destruct (N.eqb_spec x sid) as [->|].
    + injection Ht as <-. unfold view_ok. rewrite Nr, Np. cbn. apply H. exact Hlt.
    + eapply view_ok_ext; [exact Hm|reflexivity|]. now apply V.
Qed.

Lemma Jg_register xr xs h g c cn b k u : is_virtual k = false ->
  (forall x s, get_sess h x = Some s -> s_conn s <> Some c) -> Jg xr xs h g ->
  Jg xr xs (fst (register h c cn b k u)) (gouts g (snd (register h c cn b k u))).
Proof.
  intros Hk Hno HJ. unfold register.
  assert (E0 : same h (set_nextsid h (next_id h))).
  { apply same_fields; try reflexivity; try apply N.le_refl. cbn. apply N.lt_le_incl, next_id_gt. }
  match goal with |- context [if ?b then _ else _] => destruct b end.
  - cbn [fst snd]. apply Jg_irr; [reflexivity|]. apply Jg_set_conn; [eapply Jg_same; eauto|exact Hno].
  - cbn [fst snd gouts fold_left].
    eapply (Jg_new_session xr xs h g _ c (next_id h) (new_session b k u c) u (c_addr cn)); try exact HJ; try exact Hno.
    + apply next_id_fresh.
    + apply next_id_gt.
    + destruct (negb (is_internal k) && negb (N.eqb (limit_of h b) 0)); destruct (N.eqb u 0 && negb (is_internal k));
        try reflexivity; destruct k as [|f d|]; try reflexivity; destruct d; reflexivity.
    + destruct (negb (is_internal k) && negb (N.eqb (limit_of h b) 0)); destruct (N.eqb u 0 && negb (is_internal k));
        try reflexivity; destruct k as [|f d|]; try reflexivity; destruct d; reflexivity.
    + destruct (negb (is_internal k) && negb (N.eqb (limit_of h b) 0)); destruct (N.eqb u 0 && negb (is_internal k));
        try reflexivity; destruct k as [|f d|]; try reflexivity; destruct d; reflexivity.
    + destruct (negb (is_internal k) && negb (N.eqb (limit_of h b) 0)); destruct (N.eqb u 0 && negb (is_internal k));
        try reflexivity; destruct k as [|f d|]; try reflexivity; destruct d; reflexivity.
    + destruct (negb (is_internal k) && negb (N.eqb (limit_of h b) 0)); destruct (N.eqb u 0 && negb (is_internal k));
        try reflexivity; destruct k as [|f d|]; try reflexivity; destruct d; reflexivity.
    + destruct (negb (is_internal k) && negb (N.eqb (limit_of h b) 0)); destruct (N.eqb u 0 && negb (is_internal k));
        try reflexivity; destruct k as [|f d|]; try reflexivity; destruct d; reflexivity.
    + reflexivity.
    + reflexivity.
    + reflexivity.
    + exact Hk.
    + apply N.le_0_l.
Qed.

(* ---- resume ---- *)
Lemma gout_msg g c m n : no_hello m = true -> g_bind g c = Some n ->
  gout g (ToConn c m) = mkg (g_bind g) (fun x => if N.eqb x n then apply_view (g_view g n) m else g_view g x).
Proof. intros Hm Hb. destruct m; try discriminate Hm; cbn [gout]; rewrite Hb; reflexivity. Qed.

Lemma gouts_flush l : forall g c n, g_bind g c = Some n -> (forall m, In m l -> no_hello m = true) ->
  (forall c', g_bind (gouts g (flush c l)) c' = g_bind g c') /\
  (forall x, g_view (gouts g (flush c l)) x = if N.eqb x n then replay l (g_view g n) else g_view g x).
Proof.
  induction l as [|m l IH]; intros g c n Hb Hl.
  - cbn. split; [reflexivity|]. intros x. destruct (N.eqb x n) eqn:E; [apply N.eqb_eq in E; now subst|reflexivity].
  - cbn [flush map]. rewrite gouts_cons, (gout_msg g c m n (Hl m (or_introl eq_refl)) Hb).
    destruct (IH (mkg (g_bind g) (fun x => if N.eqb x n then apply_view (g_view g n) m else g_view g x)) c n Hb
                 (fun m' Hm' => Hl m' (or_intror Hm'))) as [A B].
    split; [exact A|]. intros x. rewrite B. cbn [g_view]. rewrite N.eqb_refl. destruct (N.eqb x n); reflexivity.
Qed.

Definition on_conn (s : session) (c0 : N) : bool := match s_conn s with Some c' => N.eqb c0 c' | None => false end.

Lemma Jg_resume xr xs h g F g' c n s addr :
  Jg xr xs h g -> get_sess h n = Some s -> is_virtual (s_kind s) = false ->
  (forall x t, get_sess h x = Some t -> s_conn t <> Some c) ->
  (forall x, get_sess F x = if N.eqb x n then Some (sess_pending (sess_conn s (Some c)) []) else get_sess h x) ->
  map fst (h_sessions F) = map fst (h_sessions h) -> h_rooms F = h_rooms h -> h_bus F = h_bus h -> h_clock F = h_clock h ->
  h_nextsid F = h_nextsid h ->
  (forall c0, aget (h_conns F) c0 = if N.eqb c0 c then Some (mkconn addr (Some n) false)
                                    else if on_conn s c0 then None else aget (h_conns h) c0) ->
  (forall c0, g_bind g' c0 = if N.eqb c0 c then Some n else g_bind g c0) ->
  (forall x, g_view g' x = if N.eqb x n then replay (s_pending s) (g_view g n) else g_view g x) ->
  Jg xr xs F g'.
Proof.
  intros [H V] Hs Hv Hno Hg Pk Pr Pb Pc Pn Pcn Gb Gv.
  assert (Hm : forall k, mem_of F k = mem_of h k) by (intros k; unfold mem_of, room_of; now rewrite Pr).
  split.
  - constructor.
    + rewrite Pk. apply H.
    + intros k r Hr. unfold room_of in Hr. rewrite Pr in Hr. eapply (j_room0 _ _ H); eauto.
    + rewrite Pb, Pc. apply H.
    + rewrite Pb. apply H.
    + intros p b r x i t Hp Hsu Hmsg Ht. rewrite Pb in Hp. rewrite Hg in Ht. destruct (N.eqb_spec x n) as [->|].
      * injection Ht as <-. cbn. eapply (j_asj _ _ H); eauto.
      * eapply (j_asj _ _ H); eauto.
    + rewrite Pb, Pn. apply H.
    + intros x Hx. rewrite Pn in Hx. rewrite Gv. destruct (N.eqb_spec x n) as [->|]; [|now apply H].
      pose proof (j_live _ _ H n s Hs). lia.
    + intros c0 x. rewrite Pn, Gb. destruct (N.eqb_spec c0 c) as [->|]; [|apply (j_fresh_bind _ _ H)].
      intros Hx. injection Hx as <-. eapply (j_live _ _ H); eauto.
    + intros x t Ht. rewrite Pn. rewrite Hg in Ht. destruct (N.eqb_spec x n) as [->|]; eapply (j_live _ _ H); eauto.
    + intros x t Ht. rewrite Pc. rewrite Hg in Ht. destruct (N.eqb_spec x n) as [->|]; [injection Ht as <-; cbn|]; eapply (j_join _ _ H); eauto.
    + intros x t k Ht. rewrite Hg in Ht. destruct (N.eqb_spec x n) as [->|]; [injection Ht as <-; cbn|]; eapply (j_backend _ _ H); eauto.
    + intros x t Ht. rewrite Hg in Ht. destruct (N.eqb_spec x n) as [->|]; [injection Ht as <-; reflexivity|eapply (j_pc _ _ H); eauto].
    + intros x t m Ht. rewrite Hg in Ht. destruct (N.eqb_spec x n) as [->|]; [injection Ht as <-; intros []|eapply (j_nohello _ _ H); eauto].
    + intros x t Ht. rewrite Hg in Ht. destruct (N.eqb_spec x n) as [->|]; [injection Ht as <-; cbn; congruence|eapply (j_vconn _ _ H); eauto].
    + intros x t c0 Ht Hc0. rewrite Pcn. rewrite Hg in Ht. destruct (N.eqb_spec x n) as [->|Hne].
      * injection Ht as <-. cbn in Hc0. injection Hc0 as <-. rewrite N.eqb_refl. eauto.
      * destruct (N.eqb_spec c0 c) as [->|]; [exfalso; eapply Hno; eauto|].
        destruct (j_cs _ _ H x t c0 Ht Hc0) as (cn & Hcn & Hcs).
        unfold on_conn. destruct (s_conn s) as [c'|] eqn:Hc'; [|eauto].
        destruct (N.eqb_spec c0 c') as [->|]; [|eauto].
        destruct (j_cs _ _ H n s c' Hs Hc') as (cn' & Hcn' & Hcs'). congruence.
    + intros x t c0 Ht Hc0. rewrite Gb. rewrite Hg in Ht. destruct (N.eqb_spec x n) as [->|Hne].
      * injection Ht as <-. cbn in Hc0. injection Hc0 as <-. now rewrite N.eqb_refl.
      * destruct (N.eqb_spec c0 c) as [->|]; [exfalso; eapply Hno; eauto|eapply (j_bind _ _ H); eauto].
  - rewrite Pb. intros x t Ht Hvt Hx. rewrite Gv. rewrite Hg in Ht. destruct (N.eqb_spec x n) as [->|].
    + injection Ht as <-. specialize (V n s Hs Hv Hx). eapply view_ok_ext; [exact Hm|reflexivity|].
      unfold view_ok in *. cbn [s_room s_pending s_seen s_join sess_pending sess_conn upd_sess replay fold_left]. exact V.
    + eapply view_ok_ext; [exact Hm|reflexivity|]. now apply V.
Qed.

Lemma keys_put_in h x s s' : get_sess h x = Some s -> map fst (h_sessions (put_sess h x s')) = map fst (h_sessions h).
Proof. intros H. unfold put_sess. cbn [h_sessions set_sessions]. apply keys_aset_in. unfold get_sess in H. congruence. Qed.

(* the view of an exempt session may be anything *)
Lemma Jv_gview_exempt xr xs h g g' bus sid : Jv xr xs h g bus -> xs sid -> (forall x, x <> sid -> g_view g' x = g_view g x) ->
  Jv xr xs h g' bus.
Proof.
  intros V Hx Hg y s Hs Hv Hy. assert (y <> sid) by (intros ->; contradiction).
  eapply view_ok_ext; [reflexivity|now apply Hg|]. now apply V.
Qed.
Lemma Jh_gview h g g' sid : Jh h g -> (forall c, g_bind g' c = g_bind g c) -> (forall x, x <> sid -> g_view g' x = g_view g x) ->
  sid <= h_nextsid h -> Jh h g'.
Proof.
  intros H Gb Gv Hle. constructor; try apply H.
  - intros x Hx. rewrite Gv; [now apply H|]. intros ->. lia.
  - intros c x Hx. rewrite Gb in Hx. now apply (j_fresh_bind _ _ H c).
  - intros x s c Hs Hc. rewrite Gb. now apply (j_bind _ _ H x s c).
Qed.

Lemma Jg_do_hello xr xs h g c cn hl :
  WFg xr none1 h -> aget (h_conns h) c = Some (mkconn (c_addr cn) None (match hl with HResume _ => c_expect cn | _ => false end)) ->
  (forall x s, get_sess h x = Some s -> s_conn s <> Some c) -> Jg xr xs h g ->
  Jg xr xs (fst (do_hello h c cn hl)) (gouts g (snd (do_hello h c cn hl))).
Proof.
  intros W Hcc Hno HJ. unfold do_hello.
  assert (Jexp : forall h0 e, same h h0 -> (forall x, get_sess h0 x = get_sess h x) ->
            Jg xr xs (set_conns h0 (aset (h_conns h0) c (mkconn (c_addr cn) None true))) (gouts g [ToConn c (SError e)])).
  { intros h0 e E Eg. apply Jg_irr; [reflexivity|]. apply Jg_set_conn; [eapply Jg_same; eauto|].
    intros x s Hx. rewrite Eg in Hx. eapply Hno; eauto. }
  assert (Jerr : forall e, Jg xr xs h (gouts g [ToConn c (SError e)])) by (intros e; now apply Jg_irr).
  destruct hl as [b u rej|b u t|b tok f d|i].
  - destruct (h_nb h <=? b); [apply Jexp; [apply same_refl|reflexivity]|].
    destruct rej.
    { cbn [fst snd]. rewrite gouts_cons. apply Jexp; [apply same_refl|reflexivity]. }
    pose proof (Jg_register xr xs h g c cn b KClient u eq_refl Hno HJ) as J1.
    destruct (register h c cn b KClient u) as [h1 o1]. exact J1.
  - destruct (v2_check (h_nb h) b t); [now apply Jg_register|apply Jexp; [apply same_refl|reflexivity]].
  - destruct (N.eqb tok 4); [apply Jexp; [apply same_refl|reflexivity]|].
    destruct (throttled h (c_addr cn) ACT_INTERNAL); [apply Jexp; [apply same_refl|reflexivity]|].
    destruct (negb (N.eqb tok 0)); [apply Jexp; [apply same_record_failure|reflexivity]|].
    destruct (h_nb h <=? b); [apply Jexp; [apply same_record_failure|reflexivity]|].
    now apply Jg_register.
  - destruct (throttled h (c_addr cn) ACT_RESUME); [apply Jerr|].
    destruct i as [n|n|k|n];
      try (apply Jg_irr; [reflexivity|]; cbn [fst]; eapply Jg_same; [apply same_record_failure|exact HJ]).
    destruct (get_sess h n) as [s|] eqn:Hs; [|apply Jerr].
    destruct (is_virtual (s_kind s)) eqn:Hv; [apply Jerr|].
    set (P := match s_conn s with
              | Some c' => if N.eqb c' c then (h, [])
                           else send_conn (match aget (h_conns h) c' with
                                           | Some cn' => set_conns h (aset (h_conns h) c' (mkconn (c_addr cn') None (c_expect cn')))
                                           | None => h end) c' (SBye B_session_resumed)
              | None => (h, []) end).
    assert (HP : forallb out_irr (snd P) = true /\ h_sessions (fst P) = h_sessions h /\ h_rooms (fst P) = h_rooms h /\
                 h_bus (fst P) = h_bus h /\ h_clock (fst P) = h_clock h /\ h_nextsid (fst P) = h_nextsid h /\
                 forall c0, aget (h_conns (fst P)) c0 = if on_conn s c0 then None else aget (h_conns h) c0).
    { unfold P, on_conn. destruct (s_conn s) as [c'|] eqn:Hcs; [|repeat split; reflexivity].
      destruct (N.eqb_spec c' c) as [->|Hne]; [exfalso; eapply Hno; eauto|].
      destruct (aget (h_conns h) c') as [cn'|] eqn:Hc'.
      - unfold send_conn. cbn [h_conns set_conns]. rewrite aget_aset_same. cbn [is_closing].
        unfold close_conn. cbn [h_conns set_conns]. rewrite aget_aset_same. cbn [c_sess fst snd].
        repeat split; try reflexivity. intros c0. cbn [h_conns set_conns]. rewrite aget_adel.
        destruct (N.eqb_spec c0 c'); [reflexivity|now apply aget_aset_other].
      - unfold send_conn. rewrite Hc'. repeat split; try reflexivity. intros c0. cbn [fst].
        destruct (N.eqb_spec c0 c') as [->|]; [exact Hc'|reflexivity]. }
    pose proof (wf_resume_attached xr h c cn n s W Hcc Hs Hv) as W5. cbv zeta in W5. fold P in W5.
    destruct P as [h1 outs1]. cbn [fst snd] in HP, W5. destruct HP as (I1 & Ps & Pr & Pb & Pc & Pn & Pcn). cbn [fst snd].
    assert (Hs1 : get_sess h1 n = Some s) by (unfold get_sess; now rewrite Ps).
    destruct (gouts_irr outs1 g I1) as [Gb1 Gv1].
    set (g2 := gout (gouts g outs1) (ToConn c (SHello n (sess_userid h n s)))).
    assert (Hb2 : g_bind g2 c = Some n) by (unfold g2; cbn; now rewrite N.eqb_refl).
    match goal with |- context [if _ then _ else (?hh, ?oo)] => set (h5 := hh) in *; set (outs5 := oo) end.
    (* the state after the attach, with the view the session has once the WHOLE queue is replayed *)
    set (gfull := mkg (fun c0 => if N.eqb c0 c then Some n else g_bind g c0)
                      (fun x => if N.eqb x n then replay (s_pending s) (g_view g n) else g_view g x)).
    assert (Jfull : Jg xr xs h5 gfull).
    { eapply (Jg_resume xr xs h g _ _ c n s (c_addr cn) HJ Hs Hv Hno).
    + intros x. unfold get_sess at 1. cbn [h5 h_sessions set_conns set_clients set_expired put_sess set_sessions].
      rewrite Ps. apply aget_aset.
    + cbn [h5 h_sessions set_conns set_clients set_expired]. rewrite (keys_put_in h1 n s _ Hs1). now rewrite Ps.
    + exact Pr.
    + exact Pb.
    + exact Pc.
    + exact Pn.
    + intros c0. cbn [h5 h_conns set_conns set_clients set_expired put_sess set_sessions]. rewrite aget_aset.
      destruct (N.eqb c0 c); [reflexivity|apply Pcn].
    + reflexivity.
    + reflexivity. }
    (* what the resume really writes: the queue up to the first closing message *)
    destruct (gouts_flush (upto_closing (s_room s) (s_pending s)) g2 c n Hb2
                (fun m Hm => j_nohello _ _ (proj1 HJ) n s m Hs (upto_closing_incl _ _ m Hm))) as [Gb3 Gv3].
    assert (Gb5 : forall c0, g_bind (gouts g outs5) c0 = g_bind gfull c0).
    { intros c0. unfold outs5. rewrite gouts_app, gouts_cons. fold g2. rewrite Gb3. unfold g2. cbn [gout g_bind gfull].
      destruct (N.eqb c0 c); [reflexivity|apply Gb1]. }
    assert (Gv5 : forall x, g_view (gouts g outs5) x =
                            if N.eqb x n then replay (upto_closing (s_room s) (s_pending s)) (g_view g n) else g_view g x).
    { intros x. unfold outs5. rewrite gouts_app, gouts_cons. fold g2. rewrite Gv3. unfold g2. cbn [gout g_view]. rewrite !Gv1. reflexivity. }
    destruct (queue_closes s) eqn:Hq.
    2:{ (* nothing closing queued: the whole queue was written *)
      apply (Jg_geq _ _ _ gfull); [|exact Jfull]. split; [exact Gb5|].
      intros x. rewrite Gv5, (upto_closing_none s Hq). reflexivity. }
    (* a queued bye / disinvite closes the connection and the session: the session's view is stale (the rest
       of the queue was not written), but a closed session has no view obligations *)
    assert (Hs5 : get_sess h5 n = Some (sess_pending (sess_conn s (Some c)) [])).
    { unfold get_sess. cbn [h5 h_sessions set_conns set_clients set_expired put_sess set_sessions]. apply aget_aset_same. }
    assert (J5 : Jg xr (or_sid xs n) h5 (gouts g outs5)).
    { split.
      - apply (Jh_gview h5 gfull _ n (proj1 Jfull)); [exact Gb5| |exact (j_live _ _ (proj1 Jfull) n _ Hs5)].
        intros x Hx. rewrite Gv5. cbn [gfull g_view]. destruct (N.eqb_spec x n); [contradiction|reflexivity].
      - apply (Jv_gview_exempt xr (or_sid xs n) h5 gfull _ (h_bus h5) n); [apply Jv_exempt; exact (proj2 Jfull)|now right|].
        intros x Hx. rewrite Gv5. cbn [gfull g_view]. destruct (N.eqb_spec x n); [contradiction|reflexivity]. }
    pose proof (Jg_close_conn xr (or_sid xs n) h5 (gouts g outs5) c W5 J5) as J6.
    assert (Hg6 : get_sess (fst (close_conn h5 c)) n = None).
    { unfold close_conn. cbn [h5 h_conns set_conns]. rewrite aget_aset_same. cbn [c_sess].
      match goal with |- context [close_session ?hh n] => pose proof (close_session_gone hh n) as Hg; destruct (close_session hh n) as [h3 o3] end.
      exact Hg. }
    destruct (close_conn h5 c) as [h6 o6]. cbn [fst snd] in *. rewrite gouts_app.
    apply (Jg_drop_exempt xr xs h6 _ n J6 Hg6).
Qed.

(* ------------------------------------------------------------------ a member is added to a room *)
Lemma rs_set_proj h sid rs :
  h_sessions (rs_set h sid rs) = h_sessions h /\ h_rooms (rs_set h sid rs) = h_rooms h /\ h_bus (rs_set h sid rs) = h_bus h /\
  h_clock (rs_set h sid rs) = h_clock h /\ h_nextsid (rs_set h sid rs) = h_nextsid h /\ h_conns (rs_set h sid rs) = h_conns h.
Proof.
  unfold rs_set. destruct (N.eqb rs 0).
  - destruct (aget (h_rs1 h) sid); repeat split; reflexivity.
  - destruct (aget (h_rs1 h) sid) as [prev|]; [destruct (N.eqb prev rs)|]; repeat split; reflexivity.
Qed.


Lemma pub_op_asj sid k tj M k0 x i t :
  pub_op sid k tj M (mkpub (SubjBackendRoom (fst k0) (snd k0)) (ASessionJoined x i) t) =
  if pair_eqb k0 k && N.eqb x sid then Some (VAdd (filter (fun m => negb (N.eqb m sid)) M)) else None.
Proof. unfold pub_op. cbn [p_subj p_msg p_time]. now rewrite pair_eqb_eta. Qed.

(* everybody else in the room: the new member is announced *)
Lemma Jv_member_added xr xs h h9 g k sid u M1 t : Jh h g -> Jv xr xs h g (h_bus h) -> xs sid ->
  (forall x, x <> sid -> get_sess h9 x = get_sess h x) ->
  (forall M, mem_of h k = Some M -> M = M1) ->
  (forall k', mem_of h9 k' = if pair_eqb k' k then Some (nadd sid M1) else mem_of h k') ->
  h_bus h9 = h_bus h ++ [mkpub (SubjRoom (fst k) (snd k)) (ARoomEvent (SJoin [(sid, u)])) t] -> h_clock h <= t ->
  Jv xr xs h9 g (h_bus h9).
Proof.
  intros H V Hx Hg HM Hm Hb Ht y s Hs Hv Hy. assert (Hne : y <> sid) by (intros ->; contradiction).
  rewrite (Hg y Hne) in Hs. specialize (V y s Hs Hv Hy). rewrite Hb. unfold view_ok in *.
  destruct (s_room s) as [k'|] eqn:Hk'; [|exact V]. destruct V as [V|(M & V0 & HMk & Hrep & Hseen & Haft)]; [now left|right].
  rewrite Hm. destruct (pair_eqb_spec k' k) as [->|Hnk].
  - assert (M = M1) by now apply HM. subst M. exists (nadd sid M1), V0. repeat split; auto.
    intros z. rewrite bus_ops_app, bus_ops_single, pub_op_room_event, pair_eqb_refl.
    assert (Htj : (t <? s_join s) = false) by (apply N.ltb_ge; pose proof (j_join _ _ H y s Hs); lia).
    rewrite Htj. cbn [negb andb msg_op opt_list map fst]. rewrite after_snoc. cbn [vop_after nmem]. rewrite orb_false_r, nmem_nadd.
    destruct (N.eqb_spec z sid) as [->|Hz]; [reflexivity|]. cbn [orb].
    rewrite (after_bus_ops_members y k (s_join s) (nadd sid M1) M1 z); [apply Haft|].
    rewrite nmem_nadd. destruct (N.eqb_spec z sid); [contradiction|reflexivity].
  - exists M, V0. repeat split; auto. intros z. rewrite bus_ops_app, bus_ops_single, pub_op_room_event.
    destruct (pair_eqb_spec k k'); [congruence|]. cbn [andb opt_list]. rewrite app_nil_r. apply Haft.
Qed.

Lemma bus_ops_filtered sid k tj M bus : (forall p, In p bus -> p_time p < tj /\ not_asj_for sid p) -> bus_ops sid k tj M bus = [].
Proof.
  induction bus as [|p r IH]; intros Hall; [reflexivity|]. rewrite bus_ops_cons, IH by (intros q Hq; apply Hall; now right).
  destruct (Hall p (or_introl eq_refl)) as [Ht Hn]. apply N.ltb_lt in Ht. rewrite app_nil_r.
  unfold pub_op. destruct (p_subj p); destruct (p_msg p) eqn:Hm; try reflexivity; rewrite ?Ht, ?andb_false_r; try reflexivity.
  destruct (N.eqb_spec sid0 sid) as [->|]; [exfalso; eapply Hn; eauto|now rewrite andb_false_r].
Qed.

(* the new member itself: its own join notice, then the members of that moment *)
Lemma view_ok_joiner xr mo v bus0 sid s k M' t1 t2 u i :
  s_room s = Some k -> mo k = Some M' -> nmem sid M' = true -> replay (s_pending s) v = Some (snd k, []) -> s_seen s = [] ->
  (forall p, In p bus0 -> p_time p < s_join s /\ not_asj_for sid p) -> s_join s <= t1 ->
  view_ok xr mo v ((bus0 ++ [mkpub (SubjRoom (fst k) (snd k)) (ARoomEvent (SJoin [(sid, u)])) t1]) ++
                   [mkpub (SubjBackendRoom (fst k) (snd k)) (ASessionJoined sid i) t2]) sid s.
Proof.
  intros Hk HM Hin Hrep Hseen Hold Ht1. unfold view_ok. rewrite Hk. right. exists M', []. split; [exact HM|]. split; [exact Hrep|].
  split; [rewrite Hseen; intros z Hz; discriminate|]. intros z.
  rewrite !bus_ops_app, (bus_ops_filtered sid k (s_join s) M' bus0 Hold), !bus_ops_single, pub_op_room_event, pub_op_asj.
  rewrite pair_eqb_refl, N.eqb_refl. assert (Htj : (t1 <? s_join s) = false) by (apply N.ltb_ge; exact Ht1). rewrite Htj.
  cbn [negb andb msg_op opt_list map fst app after fold_left vop_after nmem]. rewrite nmem_filter, !orb_false_r.
  destruct (N.eqb_spec z sid) as [->|Hz]; cbn; [now rewrite Hin|]. now rewrite andb_true_r, orb_false_r.
Qed.

Lemma gout_geq g g' o : geq g g' -> geq (gout g o) (gout g' o).
Proof.
  intros [Gb Gv]. destruct o as [c m| | |]; try (split; assumption).
  assert (D : geq (match g_bind g c with
                   | Some sid => mkg (g_bind g) (fun x => if N.eqb x sid then apply_view (g_view g sid) m else g_view g x)
                   | None => g end)
                  (match g_bind g' c with
                   | Some sid => mkg (g_bind g') (fun x => if N.eqb x sid then apply_view (g_view g' sid) m else g_view g' x)
                   | None => g' end)).
  { rewrite Gb. destruct (g_bind g c) as [sid|]; [|split; assumption]. split; cbn [g_bind g_view]; [exact Gb|].
    intros x. rewrite !Gv. reflexivity. }
  destruct m; try exact D. cbn [gout]. split; cbn [g_bind g_view]; [|exact Gv]. intros x. now rewrite Gb.
Qed.
Lemma gouts_geq outs : forall g g', geq g g' -> geq (gouts g outs) (gouts g' outs).
Proof. induction outs as [|o r IH]; intros g g' G; [exact G|]. rewrite !gouts_cons. apply IH. now apply gout_geq. Qed.


Lemma target_nonvirtual h x t : get_sess h x = Some t -> is_virtual (s_kind t) = false -> target h x = x.
Proof. intros H Hv. unfold target. rewrite H. destruct (s_kind t); try reflexivity; discriminate. Qed.

(* ------------------------------------------------------------------ joining a room *)

Lemma apply_view_room_new v rn : rn <> 0 ->
  (v = None \/ exists r0 V0, v = Some (r0, V0) /\ r0 <> rn) -> apply_view v (SRoom rn) = Some (rn, []).
Proof.
  intros Hrn Hv. destruct rn as [|p]; [contradiction|]. cbn [apply_view]. destruct Hv as [->|(r0 & V0 & -> & Hne)]; [reflexivity|].
  destruct (N.eqb_spec (N.pos p) r0); [congruence|reflexivity].
Qed.

Lemma Jg_join_room xs h g c sid k rs perms su s0 :
  WF h -> Jg none2 xs h g -> ~ xs sid -> get_sess h sid = Some s0 -> is_virtual (s_kind s0) = false ->
  s_room s0 <> Some k -> fst k = s_backend s0 -> snd k <> 0 -> (forall p, In p (h_bus h) -> not_asj_for sid p) ->
  Jg none2 xs (fst (join_room h c sid k rs perms su)) (gouts g (snd (join_room h c sid k rs perms su))).
Proof.
  intros W HJ Hxs Hs0 Hv0 Hnk Hbk Hk0 Hna. unfold join_room.
  (* the view before *)
  assert (Htag : replay (s_pending s0) (g_view g sid) = None \/
                 exists r0 V0, replay (s_pending s0) (g_view g sid) = Some (r0, V0) /\ r0 <> snd k).
  { pose proof (proj2 HJ sid s0 Hs0 Hv0 Hxs) as V. unfold view_ok in V. destruct (s_room s0) as [k0|] eqn:Hk0'; [|now left].
    destruct V as [[]|(M & V0 & _ & Hrep & _)]. right. exists (snd k0), V0. split; [exact Hrep|].
    intros E. apply Hnk. f_equal. pose proof (j_backend _ _ (proj1 HJ) sid s0 k0 Hs0 Hk0'). destruct k0, k; cbn in *; congruence. }
  pose proof (Jg_leave_room none2 none1 xs h g sid true W HJ) as J1. pose proof (wf_leave_room none2 none1 h sid true W) as W1.
  destruct (leave_room_sid h sid true s0 Hs0) as (s & Hs1 & Hr1 & K1 & K2 & K3 & K4).
  pose proof (leave_room_irr h sid true) as I1. pose proof (grows_leave_room h sid true) as G1.
  destruct (leave_room h sid true) as [h1 o1]. cbn [fst snd] in *.
  apply (Jg_unirr _ _ _ _ _ I1) in J1. rewrite Hs1.
  set (r := match room_of h1 k with Some x => x | None => empty_room end).
  assert (Hal : nmem sid (r_members r) = false).
  { destruct (nmem sid (r_members r)) eqn:E; [|reflexivity]. exfalso. apply nmem_In in E. unfold r in E.
    destruct (room_of h1 k) as [x|] eqn:Hrk; [|destruct E].
    destruct (wf_members _ _ h1 W1 k x sid Hrk E) as (s' & Hs' & Hk'). congruence. }
  rewrite Hal. cbv iota.
  set (r' := mkroom (nadd sid (r_members r)) _ _ _ _).
  set (s1 := upd_sess s (Some k) rs _ _ _ _ _).
  match goal with |- context [send_session ?hh sid (SRoom (snd k))] => set (h5 := hh) end.
  set (h2 := set_clock (put_sess (set_rooms h1 (pset (h_rooms h1) k r')) sid s1) (h_clock h1 + 1)) in *.
  assert (P5 : h_sessions h5 = aset (h_sessions h1) sid s1 /\ h_rooms h5 = pset (h_rooms h1) k r' /\ h_bus h5 = h_bus h1 /\
               h_clock h5 = h_clock h1 + 1 /\ h_nextsid h5 = h_nextsid h1 /\ h_conns h5 = h_conns h1).
  { destruct (rs_set_proj h2 sid rs) as (A1 & A2 & A3 & A4 & A5 & A6). unfold h5.
    destruct (N.eqb rs 0); destruct (s_kind s) as [|f d|]; try destruct d;
      cbn [h_sessions h_rooms h_bus h_clock h_nextsid h_conns set_anonymous set_dialout]; rewrite ?A1, ?A2, ?A3, ?A4, ?A5, ?A6;
      repeat split; reflexivity. }
  destruct P5 as (P5s & P5r & P5b & P5c & P5n & P5cn).
  assert (Hs5 : get_sess h5 sid = Some s1) by (unfold get_sess; rewrite P5s; apply aget_aset_same).
  assert (Hv1 : is_virtual (s_kind s1) = false) by (cbn; congruence).
  rewrite send_session_eq, (target_nonvirtual h5 sid s1 Hs5 Hv1), (deliver_to_session_eq h5 sid _ s1 Hs5).
  cbn [filtered seen_after].
  (* the rest, for either way the room notice reaches the session *)
  assert (T : forall s7 o2,
    s_kind s7 = s_kind s -> s_backend s7 = s_backend s -> s_room s7 = Some k -> s_conn s7 = s_conn s -> s_seen s7 = [] ->
    s_join s7 = h_clock h1 -> (s_conn s7 <> None -> s_pending s7 = []) -> (forall m, In m (s_pending s7) -> no_hello m = true) ->
    (forall c0, g_bind (gouts g o2) c0 = g_bind g c0) -> (forall x, x <> sid -> g_view (gouts g o2) x = g_view g x) ->
    replay (s_pending s7) (g_view (gouts g o2) sid) = Some (snd k, []) ->
    Jg none2 xs
      (fst (let '(h7, outs2) := (put_sess h5 sid s7, o2) in
            match room_of h7 k with
            | Some _ =>
                let '(h10, outs3) :=
                  match r_transient r with
                  | [] => (publish h7 (SubjRoom (fst k) (snd k)) (ARoomEvent (SJoin [(sid, if s_user s =? 0 then su else s_user s)])), [])
                  | (_ :: _) as d => send_session (publish h7 (SubjRoom (fst k) (snd k)) (ARoomEvent (SJoin [(sid, if s_user s =? 0 then su else s_user s)]))) sid (STransient (TInit d))
                  end in
                (publish h10 (SubjBackendRoom (fst k) (snd k)) (ASessionJoined sid (is_internal (s_kind s))), o1 ++ outs2 ++ outs3)
            | None => (h7, o1 ++ outs2)
            end))
      (gouts g (snd (let '(h7, outs2) := (put_sess h5 sid s7, o2) in
            match room_of h7 k with
            | Some _ =>
                let '(h10, outs3) :=
                  match r_transient r with
                  | [] => (publish h7 (SubjRoom (fst k) (snd k)) (ARoomEvent (SJoin [(sid, if s_user s =? 0 then su else s_user s)])), [])
                  | (_ :: _) as d => send_session (publish h7 (SubjRoom (fst k) (snd k)) (ARoomEvent (SJoin [(sid, if s_user s =? 0 then su else s_user s)]))) sid (STransient (TInit d))
                  end in
                (publish h10 (SubjBackendRoom (fst k) (snd k)) (ASessionJoined sid (is_internal (s_kind s))), o1 ++ outs2 ++ outs3)
            | None => (h7, o1 ++ outs2)
            end)))).
  { intros s7 o2 F1 F2 F3 F4 F5 F6 F7 F8 G7b G7v G7r.
    set (h7 := put_sess h5 sid s7). set (g7 := gouts g o2) in *.
    assert (Hr7 : room_of h7 k = Some r') by (unfold room_of, h7; cbn [h_rooms put_sess set_sessions]; rewrite P5r; apply pget_pset_same).
    rewrite Hr7.
    set (uid := if s_user s =? 0 then su else s_user s).
    set (h9 := publish h7 (SubjRoom (fst k) (snd k)) (ARoomEvent (SJoin [(sid, uid)]))).
    (* projections of h7 *)
    assert (P7s : h_sessions h7 = aset (h_sessions h1) sid s7) by (unfold h7, put_sess; cbn [h_sessions set_sessions]; rewrite P5s; apply aset_aset).
    assert (Hg7 : forall x, get_sess h7 x = if N.eqb x sid then Some s7 else get_sess h1 x) by (intros x; unfold get_sess; rewrite P7s; apply aget_aset).
    assert (Hle : sid <= h_nextsid h1) by (eapply (j_live _ _ (proj1 J1)); eauto).
    (* the hub-level part at h7 *)
    assert (H7 : Jh h7 g7).
    { apply (Jh_gview h7 g g7 sid); auto; [|unfold h7; cbn [h_nextsid put_sess set_sessions]; now rewrite P5n].
      set (hA := set_rooms h1 (pset (h_rooms h1) k r')).
      assert (HA : Jh hA g).
      { apply (Jh_fields h1 hA g (proj1 J1)); try reflexivity; try apply N.le_refl.
        intros k' rr. unfold hA. rewrite room_of_set_rooms, pget_pset. destruct (pair_eqb_spec k' k) as [->|]; [auto|].
        intros Hrr. eapply (j_room0 _ _ (proj1 J1)); eauto. }
      assert (HB : Jh (put_sess hA sid s7) g).
      { apply (Jh_put hA g sid s s7 HA); auto.
        - intros p b rr i Hp Hsu Hm. exfalso. destruct G1 as (l & Hl & Hnl). change (h_bus hA) with (h_bus h1) in Hp. rewrite Hl in Hp.
          apply in_app_iff in Hp as [Hp|Hp]; [eapply (Hna p Hp)|eapply (Hnl p Hp)]; eauto.
        - rewrite F6. apply N.le_refl.
        - intros k' Hk'. rewrite F3 in Hk'. injection Hk' as <-. rewrite F2. congruence.
        - intros Hvv. rewrite F4. apply (j_vconn _ _ (proj1 J1) sid s Hs1). congruence.
        - intros c0. congruence. }
      apply (Jh_fields _ h7 g HB).
      - rewrite P7s. reflexivity.
      - unfold h7. cbn [h_bus put_sess set_sessions]. now rewrite P5b.
      - unfold h7. cbn [h_clock put_sess set_sessions]. rewrite P5c. cbn. lia.
      - unfold h7. cbn [h_nextsid put_sess set_sessions]. rewrite P5n. apply N.le_refl.
      - unfold h7. cbn [h_conns put_sess set_sessions]. now rewrite P5cn.
      - intros k' rr. unfold room_of, h7. cbn [h_rooms put_sess set_sessions]. rewrite P5r, pget_pset.
        destruct (pair_eqb_spec k' k) as [->|]; [auto|]. intros Hrr. eapply (j_room0 _ _ (proj1 J1)); eauto. }
    assert (Hb7 : h_bus h7 = h_bus h1) by (unfold h7; cbn [h_bus put_sess set_sessions]; exact P5b).
    assert (Hc7 : h_clock h7 = h_clock h1 + 1) by (unfold h7; cbn [h_clock put_sess set_sessions]; exact P5c).
    assert (Hm7 : forall k', mem_of h7 k' = if pair_eqb k' k then Some (nadd sid (r_members r)) else mem_of h1 k').
    { intros k'. unfold mem_of at 1, room_of, h7. cbn [h_rooms put_sess set_sessions]. rewrite P5r, pget_pset.
      destruct (pair_eqb k' k); reflexivity. }
    assert (J9 : Jg none2 (or_sid xs sid) h9 g7).
    { split.
      - apply Jh_publish; [exact H7|exact I| |]; [intros b rr x i t _ Hm|intros x i Hm]; discriminate.
      - apply (Jv_member_added none2 (or_sid xs sid) h1 h9 g7 k sid uid (r_members r) (h_clock h7)).
        + apply (Jh_gview h1 g g7 sid (proj1 J1)); auto.
        + apply (Jv_gview_exempt none2 (or_sid xs sid) h1 g g7 (h_bus h1) sid (proj2 J1)); [now right|exact G7v].
        + now right.
        + intros x Hx. change (get_sess h9 x) with (get_sess h7 x). rewrite Hg7. destruct (N.eqb_spec x sid); [contradiction|reflexivity].
        + intros M HM. unfold r. unfold mem_of in HM. destruct (room_of h1 k); cbn in HM; [congruence|discriminate].
        + exact Hm7.
        + unfold h9. rewrite bus_publish, Hb7. reflexivity.
        + rewrite Hc7. lia. }
    assert (Q : quiet h9 (match r_transient r with [] => (h9, []) | (_ :: _) as d => send_session h9 sid (STransient (TInit d)) end)).
    { destruct (r_transient r); [apply quiet_ret|now apply quiet_send_irr]. }
    destruct (match r_transient r with [] => (h9, []) | (_ :: _) as d => send_session h9 sid (STransient (TInit d)) end) as [h10 o3].
    destruct Q as [E10 I10]. cbn [fst snd] in *.
    (* the ghost state: the leave outputs and the transient notice change nothing *)
    apply (Jg_geq _ _ _ (gouts g7 o3)).
    { rewrite gouts_app, gouts_app. fold g7. apply gouts_geq. unfold g7. apply gouts_geq. now apply gouts_irr. }
    pose proof (Jg_quiet _ _ _ _ (h10, o3) (conj E10 I10) J9) as J10. cbn [fst snd] in J10.
    destruct (gouts_irr o3 g7 I10) as [Gb10 Gv10]. set (g10 := gouts g7 o3) in *.
    assert (Hs9 : get_sess h9 sid = Some s7) by (change (get_sess h9 sid) with (get_sess h7 sid); now rewrite Hg7, N.eqb_refl).
    destruct (same_get' _ _ _ _ E10 Hs9) as (s10 & Hs10 & Hc10 & (_ & Hp10 & _)).
    apply vcore_eq in Hc10 as (C1 & C2 & C3 & C4 & C5 & C6).
    split.
    - apply Jh_publish; [exact (proj1 J10)|exact I| |].
      + intros b rr x i t Hsu Hm Ht. injection Hsu as <- <-. injection Hm as <- _. right.
        assert (t = s10) by congruence. subst t. rewrite C3, F3. destruct k; reflexivity.
      + intros x i Hm. injection Hm as <- _. eapply (j_live _ _ (proj1 J10)); eauto.
    - rewrite bus_publish. intros x t Ht Hvt Hx. change (get_sess h10 x = Some t) in Ht.
      destruct (N.eqb_spec x sid) as [->|Hne].
      + assert (t = s10) by congruence. subst t.
        rewrite (sm_bus _ _ E10). unfold h9 at 1. rewrite bus_publish, Hb7.
        apply (view_ok_joiner none2 _ _ (h_bus h1) sid s10 k (nadd sid (r_members r))).
        * congruence.
        * change (mem_of (publish h10 (SubjBackendRoom (fst k) (snd k)) (ASessionJoined sid (is_internal (s_kind s)))) k) with (mem_of h10 k).
          rewrite (sm_rooms _ _ E10). change (mem_of h9 k) with (mem_of h7 k). now rewrite Hm7, pair_eqb_refl.
        * rewrite nmem_nadd, N.eqb_refl. reflexivity.
        * rewrite Hp10, Gv10. exact G7r.
        * congruence.
        * intros p Hp. split.
          -- rewrite C6, F6. apply (j_times _ _ (proj1 J1) p Hp).
          -- destruct G1 as (l & Hl & Hnl). rewrite Hl in Hp. apply in_app_iff in Hp as [Hp|Hp]; [auto|apply not_asj_weaken; auto].
        * rewrite C6, F6, Hc7. lia.
      + apply view_ok_app_none.
        * intros k' M _. rewrite pub_op_asj. destruct (N.eqb_spec sid x); [congruence|]. now rewrite andb_false_r.
        * apply (proj2 J10 x t Ht Hvt). intros [A|B]; contradiction. }
  destruct K4 as (K4a & K4b & K4c).
  assert (Hs1c : s_conn s1 = s_conn s) by reflexivity.
  destruct (s_conn s1) as [c0|] eqn:Hc1.
  - cbn [is_closing].
    assert (Hp0 : s_pending s = []) by (apply (j_pc _ _ (proj1 J1) sid s Hs1); congruence).
    assert (Hb0 : g_bind g c0 = Some sid) by (apply (j_bind _ _ (proj1 J1) sid s c0 Hs1); congruence).
    apply (T s1 [ToConn c0 (SRoom (snd k))]); try reflexivity.
    + intros _. exact Hp0.
    + cbn [s_pending s1 upd_sess]. rewrite Hp0. intros m [].
    + intros c1. rewrite gouts_cons, gouts_nil, (gout_msg g c0 (SRoom (snd k)) sid eq_refl Hb0). reflexivity.
    + intros x Hx. rewrite gouts_cons, gouts_nil, (gout_msg g c0 (SRoom (snd k)) sid eq_refl Hb0). cbn [g_view].
      destruct (N.eqb_spec x sid); [contradiction|reflexivity].
    + rewrite gouts_cons, gouts_nil, (gout_msg g c0 (SRoom (snd k)) sid eq_refl Hb0). cbn [g_view s_pending s1 upd_sess]. rewrite N.eqb_refl, Hp0. cbn [replay fold_left].
      apply apply_view_room_new; [exact Hk0|]. rewrite <- K4b, Hp0 in Htag. exact Htag.
  - apply (T (sess_pending s1 (enqueue (s_pending s1) (SRoom (snd k)))) []); try reflexivity.
    + change (s_conn (sess_pending s1 (enqueue (s_pending s1) (SRoom (snd k))))) with (s_conn s1). rewrite Hc1. intros Hn. contradiction.
    + intros m Hm. change (In m (enqueue (s_pending s) (SRoom (snd k)))) in Hm. rewrite enqueue_plain in Hm by reflexivity. apply in_app_iff in Hm as [Hm|[<-|[]]]; [|reflexivity].
      eapply (j_nohello _ _ (proj1 J1) sid s); eauto.
    + change (replay (enqueue (s_pending s) (SRoom (snd k))) (g_view g sid) = Some (snd k, [])).
      rewrite enqueue_plain by reflexivity. rewrite replay_app. cbn [replay fold_left].
      apply apply_view_room_new; [exact Hk0|]. rewrite <- K4b in Htag. exact Htag.
Qed.

(* ------------------------------------------------------------------ closing functions: sessions only go, rooms are only left *)
Definition sshrink (s s1 : session) : Prop :=
  s_kind s1 = s_kind s /\ s_backend s1 = s_backend s /\ (s_room s1 = None \/ s_room s1 = s_room s).
Definition shrink (h h1 : hub) : Prop :=
  forall x s1, get_sess h1 x = Some s1 -> exists s, get_sess h x = Some s /\ sshrink s s1.

Lemma sshrink_refl s : sshrink s s.
Proof. repeat split; auto. Qed.
Lemma shrink_refl h : shrink h h.
Proof. intros x s1 H. exists s1. split; [exact H|apply sshrink_refl]. Qed.
Lemma shrink_trans h1 h2 h3 : shrink h1 h2 -> shrink h2 h3 -> shrink h1 h3.
Proof.
  intros A B x s3 H3. destruct (B x s3 H3) as (s2 & H2 & K2 & B2 & R2). destruct (A x s2 H2) as (s1 & H1 & K1 & B1 & R1).
  exists s1. split; [exact H1|]. split; [congruence|]. split; [congruence|].
  destruct R2 as [R2|R2]; [now left|]. destruct R1 as [R1|R1]; [left|right]; congruence.
Qed.
Lemma shrink_same h h' : same h h' -> shrink h h'.
Proof.
  intros E x s1 H1. destruct (same_get _ _ _ _ E H1) as (s & Hs & Hc & _). apply vcore_eq in Hc as (A & B & C & _).
  exists s. split; [exact Hs|]. split; [exact A|]. split; [exact B|now right].
Qed.
Lemma shrink_sessions h h' : h_sessions h' = h_sessions h -> shrink h h'.
Proof. intros E x s1 H1. exists s1. split; [unfold get_sess in *; now rewrite <- E|apply sshrink_refl]. Qed.

Lemma shrink_leave_room h sid notify : shrink h (fst (leave_room h sid notify)).
Proof.
  intros x s1 H1. destruct (N.eqb_spec x sid) as [->|Hne].
  - destruct (get_sess h sid) as [s|] eqn:Hs.
    + destruct (leave_room_sid h sid notify s Hs) as (s1' & Hs1' & Hr & K1 & K2 & _). assert (s1' = s1) by congruence. subst.
      exists s. split; [reflexivity|]. split; [exact K1|]. split; [exact K2|now left].
    + unfold leave_room in H1. rewrite Hs in H1. cbn in H1. congruence.
  - destruct (get_sess h x) as [t|] eqn:Ht.
    + destruct (leave_room_other h sid notify x Hne) as [_ Ho]. destruct (Ho t Ht) as (t' & Ht' & Hc & _).
      assert (t' = s1) by congruence. subst. apply vcore_eq in Hc as (A & B & C & _).
      exists t. split; [reflexivity|]. split; [exact A|]. split; [exact B|now right].
    + exfalso. pose proof (leave_room_core h sid notify x) as Hq. rewrite H1 in Hq.
      destruct (N.eqb_spec x sid); [contradiction|]. rewrite Ht in Hq. discriminate.
Qed.

Lemma shrink_close_one h sid : shrink h (fst (close_one h sid)).
Proof.
  unfold close_one. destruct (get_sess h sid) as [s|]; [|apply shrink_refl].
  pose proof (shrink_leave_room h sid true) as G1. destruct (leave_room h sid true) as [h1 o1].
  destruct (quiet_release_mcu h1 sid) as [E2 _]. destruct (release_mcu h1 sid) as [h2a o2a]. cbn [fst snd] in *.
  match goal with |- context [scrub ?hh sid] => set (h2 := hh) end.
  assert (G : shrink h (drop_vt (detach_conn (scrub h2 sid) (s_conn s)) (s_kind s) sid)).
  { eapply shrink_trans; [exact G1|]. eapply shrink_trans; [apply shrink_same; exact E2|].
    destruct (removal_proj h2 sid (s_conn s) (s_kind s)) as (P1 & _). intros x s1 H1. unfold get_sess in H1. rewrite P1, aget_adel in H1.
    destruct (N.eqb x sid); [discriminate|]. exists s1. split; [exact H1|apply sshrink_refl]. }
  destruct (s_kind s); exact G.
Qed.
Lemma shrink_close_all kids : forall hh oo, shrink hh (fst (close_all kids (hh, oo))).
Proof.
  induction kids as [|k kids IH]; intros hh oo; cbn [close_all fold_left fst]; [apply shrink_refl|].
  pose proof (shrink_close_one hh k) as G1. destruct (close_one hh k) as [h1 o1]. cbn [fst] in G1.
  fold (close_all kids (h1, oo ++ o1)). eapply shrink_trans; [exact G1|apply IH].
Qed.
Lemma shrink_close_session h sid : shrink h (fst (close_session h sid)).
Proof.
  unfold close_session. pose proof (shrink_close_one h sid) as G1. destruct (close_one h sid) as [h1 o1]. cbn [fst] in G1.
  fold (close_all (children h sid) (h1, o1)). eapply shrink_trans; [exact G1|apply shrink_close_all].
Qed.
Lemma shrink_close_conn h c : shrink h (fst (close_conn h c)).
Proof.
  unfold close_conn. destruct (aget (h_conns h) c) as [cn|]; [|apply shrink_refl].
  destruct (c_sess cn) as [sid|]; [|apply shrink_sessions; reflexivity].
  match goal with |- context [close_session ?hh sid] => pose proof (shrink_close_session hh sid) as G; destruct (close_session hh sid) as [h3 o3];
    assert (G0 : shrink h hh) end.
  { change (get_sess (set_conns h (adel (h_conns h) c)) sid) with (get_sess h sid). destruct (get_sess h sid) as [s|] eqn:Hs; [|apply shrink_sessions; reflexivity].
    intros x s1 H1. change (get_sess (put_sess h sid (sess_conn s None)) x = Some s1) in H1. rewrite get_put in H1.
    destruct (N.eqb_spec x sid) as [->|]; [|exists s1; split; [exact H1|apply sshrink_refl]].
    injection H1 as <-. exists s. split; [exact Hs|]. repeat split; auto. }
  cbn [fst] in *. eapply shrink_trans; eauto.
Qed.
Lemma shrink_send_conn h c m : shrink h (fst (send_conn h c m)).
Proof.
  unfold send_conn. destruct (aget (h_conns h) c); [|apply shrink_refl]. destruct (is_closing h c m); [|apply shrink_refl].
  pose proof (shrink_close_conn h c) as G. destruct (close_conn h c). exact G.
Qed.
Lemma shrink_kick h rs : shrink h (fst (kick_room_session h rs)).
Proof.
  unfold kick_room_session. destruct (aget (h_rs2 h) rs) as [sid'|]; [|apply shrink_refl].
  destruct (get_sess h sid') as [s'|]; [|apply shrink_sessions; reflexivity].
  pose proof (shrink_leave_room h sid' false) as G1. destruct (leave_room h sid' false) as [h1 o1]. cbn [fst] in G1.
  assert (Hfin : forall h2, shrink h h2 -> shrink h (fst (close_session h2 sid'))).
  { intros h2 G2. eapply shrink_trans; [exact G2|apply shrink_close_session]. }
  assert (Hsend : forall c', shrink h (fst (let '(h2, o2) := send_conn h1 c' (SBye B_room_session_reconnected) in
                     let '(h3, o3) := close_session h2 sid' in (h3, o1 ++ o2 ++ o3)))).
  { intros c'. pose proof (shrink_send_conn h1 c' (SBye B_room_session_reconnected)) as G2.
    destruct (send_conn h1 c' (SBye B_room_session_reconnected)) as [h2 o2]. cbn [fst] in G2.
    specialize (Hfin h2 (shrink_trans _ _ _ G1 G2)). destruct (close_session h2 sid') as [h3 o3]. exact Hfin. }
  assert (Hnone : shrink h (fst (let '(h3, o3) := close_session h1 sid' in (h3, o1 ++ [] ++ o3)))).
  { specialize (Hfin h1 G1). destruct (close_session h1 sid') as [h3 o3]. exact Hfin. }
  destruct (s_kind s'); destruct (s_conn s') as [c'|]; try apply Hsend; exact Hnone.
Qed.

(* ------------------------------------------------------------------ telling a session that it is in no room any more *)
Lemma Jg_send_room0 xr xs h g sid s1 : Jg xr (or_sid xs sid) h g -> get_sess h sid = Some s1 -> s_room s1 = None ->
  is_virtual (s_kind s1) = false ->
  Jg xr xs (fst (send_session h sid (SRoom 0))) (gouts g (snd (send_session h sid (SRoom 0)))).
Proof.
  intros [H V] Hs Hr Hv.
  rewrite send_session_eq, (target_nonvirtual h sid s1 Hs Hv), (deliver_to_session_eq h sid _ s1 Hs). cbn [filtered seen_after].
  assert (Hle : sid <= h_nextsid h) by (eapply (j_live _ _ H); eauto).
  assert (T : forall s7 o2, s_kind s7 = s_kind s1 -> s_backend s7 = s_backend s1 -> s_room s7 = None -> s_conn s7 = s_conn s1 ->
            s_join s7 = s_join s1 -> (s_conn s7 <> None -> s_pending s7 = []) -> (forall m, In m (s_pending s7) -> no_hello m = true) ->
            (forall c0, g_bind (gouts g o2) c0 = g_bind g c0) -> (forall x, x <> sid -> g_view (gouts g o2) x = g_view g x) ->
            replay (s_pending s7) (g_view (gouts g o2) sid) = None ->
            Jg xr xs (put_sess h sid s7) (gouts g o2)).
  { intros s7 o2 F1 F2 F3 F4 F5 F6 F7 Gb Gv Gr. split.
    - apply (Jh_gview _ g _ sid); [|exact Gb|exact Gv|exact Hle]. apply (Jh_put h g sid s1 s7 H Hs).
      + intros p b r i _ _ _. now left.
      + rewrite F5. eapply (j_join _ _ H); eauto.
      + intros k Hk. congruence.
      + exact F6.
      + exact F7.
      + intros Hvv. rewrite F4. apply (j_vconn _ _ H sid s1 Hs). congruence.
      + intros c0. congruence.
    - apply Jv_put.
      + apply (Jv_gview_exempt xr (or_sid xs sid) h g _ (h_bus h) sid V); [now right|exact Gv].
      + intros _ _. unfold view_ok. rewrite F3. exact Gr. }
  destruct (s_conn s1) as [c0|] eqn:Hc.
  - cbn [is_closing fst snd].
    assert (Hp0 : s_pending s1 = []) by (apply (j_pc _ _ H sid s1 Hs); congruence).
    assert (Hb0 : g_bind g c0 = Some sid) by (apply (j_bind _ _ H sid s1 c0 Hs Hc)).
    apply (T s1 [ToConn c0 (SRoom 0)]); auto.
    + intros m. rewrite Hp0. intros [].
    + intros c1. rewrite gouts_cons, gouts_nil, (gout_msg g c0 (SRoom 0) sid eq_refl Hb0). reflexivity.
    + intros x Hx. rewrite gouts_cons, gouts_nil, (gout_msg g c0 (SRoom 0) sid eq_refl Hb0). cbn [g_view].
      destruct (N.eqb_spec x sid); [contradiction|reflexivity].
    + rewrite gouts_cons, gouts_nil, (gout_msg g c0 (SRoom 0) sid eq_refl Hb0). cbn [g_view]. rewrite N.eqb_refl, Hp0. reflexivity.
  - cbn [fst snd]. apply (T (sess_pending s1 (enqueue (s_pending s1) (SRoom 0))) []); auto.
    + change (s_conn (sess_pending s1 (enqueue (s_pending s1) (SRoom 0)))) with (s_conn s1). rewrite Hc. intros Hn. contradiction.
    + intros m Hm. change (In m (enqueue (s_pending s1) (SRoom 0))) in Hm. rewrite enqueue_plain in Hm by reflexivity.
      apply in_app_iff in Hm as [Hm|[<-|[]]]; [|reflexivity]. eapply (j_nohello _ _ H sid s1); eauto.
    + change (replay (enqueue (s_pending s1) (SRoom 0)) (g_view g sid) = None). rewrite enqueue_plain by reflexivity.
      rewrite replay_app. reflexivity.
Qed.

(* ------------------------------------------------------------------ the join request *)
Lemma gouts_irr_cons g o outs : out_irr o = true -> geq (gouts g outs) (gouts g (o :: outs)).
Proof. intros Ho. rewrite gouts_cons. apply gouts_geq. now apply gout_irr. Qed.

Lemma Jg_do_join h g c sid s rn rs rep : WF h -> J h g -> get_sess h sid = Some s -> is_virtual (s_kind s) = false ->
  (forall p, In p (h_bus h) -> not_asj_for sid p) ->
  J (fst (do_join h c sid s rn rs rep)) (gouts g (snd (do_join h c sid s rn rs rep))).
Proof.
  intros W HJ Hs Hv Hna. unfold do_join, J in *.
  destruct (N.eqb_spec rn 0) as [->|Hrn].
  { destruct (s_room s) as [k0|] eqn:Hk0; [|exact HJ].
    pose proof (Jg_leave_room none2 none1 no1 h g sid true W HJ) as J1.
    destruct (leave_room_sid h sid true s Hs) as (s1 & Hs1 & Hr1 & K1 & _).
    destruct (leave_room h sid true) as [h1 o1]. cbn [fst snd] in *.
    pose proof (Jg_send_room0 none2 no1 h1 (gouts g o1) sid s1 J1 Hs1 Hr1 ltac:(congruence)) as J2.
    destruct (send_session h1 sid (SRoom 0)) as [h2 o2]. cbn [fst snd] in *. rewrite gouts_app.
    destruct (N.eqb (s_user s) 0 && negb (is_internal (s_kind s))); [|exact J2].
    eapply Jg_same; [|exact J2]. apply same_fields; try reflexivity; apply N.le_refl. }
  set (k := (s_backend s, rn)). set (rsv := if N.eqb rs 0 then 0 else 1000000 + rs).
  destruct (match room_of h k with Some r => nmem sid (r_members r) | None => false end) eqn:Hin.
  { match goal with |- context [send_session ?hh sid (SError E_already_joined)] => assert (E1 : same h hh) end.
    { destruct (N.eqb (s_rs s) _); [apply same_refl|].
      eapply same_trans; [apply same_rs_set|]. apply (same_put _ sid s); [unfold get_sess; now rewrite rs_set_sessions|reflexivity|now apply pend_ok_eq]. }
    match goal with |- context [send_session ?hh sid (SError E_already_joined)] =>
      pose proof (quiet_send_irr hh sid (SError E_already_joined) eq_refl eq_refl) as Q; destruct (send_session hh sid (SError E_already_joined)) as [h2 o2] end.
    apply (Jg_quiet none2 no1 h g (h2, o2)); [|exact HJ]. eapply quiet_pre; eauto. }
  assert (Hnk : s_room s <> Some k).
  { intros Hk. destruct (wf_room _ _ h W sid s k Hs Hk) as [[]|(r & Hr & Hi)]. rewrite Hr in Hin. apply nmem_In in Hi. congruence. }
  destruct (is_internal (s_kind s)).
  { apply (Jg_join_room no1 h g c sid k rsv None 0 s); auto. }
  (* the backend is asked; the other holder of the room session id goes *)
  set (P := if N.eqb rs 0 || N.eqb (s_rs s) rsv then (h, []) else kick_room_session h rsv).
  assert (HP : WF (fst P) /\ Jg none2 no1 (fst P) g /\ grows h (fst P) /\ shrink h (fst P) /\ forallb out_irr (snd P) = true).
  { unfold P. destruct (N.eqb rs 0 || N.eqb (s_rs s) rsv).
    - cbn [fst snd]. split; [exact W|]. split; [exact HJ|]. split; [apply grows_refl|]. split; [apply shrink_refl|reflexivity].
    - destruct (kick_all none2 no1 h g rsv W HJ) as [A B]. split; [now apply wf_kick|]. split; [exact A|]. split; [exact B|].
      split; [apply shrink_kick|apply kick_irr]. }
  destruct P as [h1 outs1]. cbn [fst snd] in HP. destruct HP as (W1 & J1 & G1 & S1 & I1).
  destruct (get_sess h1 sid) as [s1|] eqn:Hs1.
  2:{ cbn [fst snd]. apply Jg_irr; [cbn; exact I1|exact J1]. }
  destruct (S1 sid s1 Hs1) as (s' & Hs' & K1 & K2 & K3). assert (s' = s) by congruence. subst s'.
  assert (Hna1 : forall p, In p (h_bus h1) -> not_asj_for sid p).
  { intros p Hp. destruct G1 as (l & Hl & Hnl). rewrite Hl in Hp. apply in_app_iff in Hp as [Hp|Hp]; [auto|apply not_asj_weaken; auto]. }
  assert (Hgeq : forall X, geq (gouts g X) (gouts g (ToBackend (s_backend s, 1, 0, rn, (if N.eqb rs 0 then 2000000 + sid else rsv), 1) :: outs1 ++ X))).
  { intros X. rewrite gouts_cons. cbn [gout]. rewrite gouts_app. apply gouts_geq. now apply gouts_irr. }
  destruct rep as [perms su|code].
  - pose proof (Jg_join_room no1 h1 g c sid k rsv perms su s1 W1 J1 (fun F => F) Hs1 ltac:(congruence)) as J2.
    destruct (join_room h1 c sid k rsv perms su) as [h2 o2]. cbn [fst snd] in *.
    eapply Jg_geq; [apply Hgeq|]. apply J2; [|cbn; congruence|exact Hrn|exact Hna1].
    destruct K3 as [K3|K3]; congruence.
  - pose proof (quiet_send_irr h1 sid (SError code) eq_refl eq_refl) as Q.
    destruct (send_session h1 sid (SError code)) as [h2 o2]. cbn [fst snd].
    eapply Jg_geq; [apply Hgeq|]. apply (Jg_quiet none2 no1 h1 g (h2, o2)); assumption.
Qed.

(* ------------------------------------------------------------------ messages, room API, housekeeping *)
Lemma Jg_ret xr xs h g : Jg xr xs h g -> Jg xr xs (fst (h, @nil out)) (gouts g (snd (h, @nil out))).
Proof. auto. Qed.

Lemma Jg_pub_only xr xs h g subj m : neutral_msg m = true -> pub_shape (mkpub subj m (h_clock h)) -> Jg xr xs h g ->
  Jg xr xs (fst (publish h subj m, @nil out)) (gouts g (snd (publish h subj m, @nil out))).
Proof. intros. cbn [fst snd gouts fold_left]. now apply Jg_publish_neutral. Qed.

Ltac pubonly := cbn [fst snd]; rewrite gouts_nil; apply Jg_publish_neutral; [reflexivity|exact I|try assumption].

Lemma Jg_do_message xr xs h g sid s kindn to tag cb : Jg xr xs h g ->
  Jg xr xs (fst (do_message h sid s kindn to tag cb)) (gouts g (snd (do_message h sid s kindn to tag cb))).
Proof.
  intros HJ. unfold do_message. cbv zeta. destruct to as [i|u| |].
  - destruct i as [n|n|k|n]; try (pubonly).
    destruct (get_sess h n) as [t|]; [|pubonly].
    destruct (cb && negb (N.eqb (s_backend t) (s_backend s))); [exact HJ|]. destruct (N.eqb n sid); [exact HJ|].
    destruct (s_kind t); (apply (Jg_quiet xr xs h g); [now apply quiet_send_irr|exact HJ]).
  - destruct (N.eqb u 0); [exact HJ|]. destruct (N.eqb u (sess_userid h sid s)); [exact HJ|].
    pubonly.
  - destruct (s_room s); [|exact HJ]. pubonly.
  - destruct (s_room s); [|exact HJ]. pubonly.
Qed.

Lemma Jg_fold_publish {A} xr xs g (f : hub -> A -> hub) l :
  (forall hh a, Jg xr xs hh g -> Jg xr xs (f hh a) g) -> forall h, Jg xr xs h g -> Jg xr xs (fold_left f l h) g.
Proof. intros Hf. induction l as [|a l IH]; intros h HJ; cbn [fold_left]; auto. Qed.

Lemma Jg_do_api xr xs h g b room q : Jg xr xs h g ->
  Jg xr xs (fst (do_api h b room q)) (gouts g (snd (do_api h b room q))).
Proof.
  intros HJ. unfold do_api. cbv zeta. destruct q as [|users rsessions|tag|l|l|ic|tag|ok|del key val]; try (pubonly).
  - cbn [fst snd]. rewrite gouts_nil. apply Jg_fold_publish.
    + intros hh rs Hh. destruct (aget (h_rs2 hh) (1000000 + rs)); [|exact Hh]. now apply Jg_publish_neutral.
    + apply Jg_fold_publish; [|exact HJ]. intros hh u Hh. now apply Jg_publish_neutral.
  - match goal with |- context [match ?l' with [] => _ | _ => _ end] => destruct l' eqn:El end; [exact HJ|].
    pubonly. apply Jg_fold_publish; [|exact HJ].
    intros hh [[i ic] pm] Hh. destruct i; try exact Hh. destruct pm; [|exact Hh]. now apply Jg_publish_neutral.
  - match goal with |- context [match ?l' with [] => _ | _ => _ end] => destruct l' eqn:El end; [exact HJ|].
    pubonly.
  - (* dial-out: a message no view reads, then a publication no view reads *)
    destruct ok; cbn [negb]; [|exact HJ]. destruct (dialout_session h b) as [x|]; [|exact HJ].
    pose proof (quiet_send_irr h x (SDialout room) eq_refl eq_refl) as Q.
    destruct (send_session h x (SDialout room)) as [h1 o1]. cbn [fst snd].
    pose proof (Jg_quiet xr xs h g (h1, o1) Q HJ) as J1. cbn [fst snd] in J1.
    apply Jg_publish_neutral; [reflexivity|exact I|exact J1].
Qed.

(* WF and the invariant together, through a function that returns outputs *)
Definition WJ (xr : N * N -> Prop) (xs : N -> Prop) (h : hub) (g : ghost) : Prop := WFg xr none1 h /\ Jg xr xs h g.
Definition WJr xr xs (g : ghost) (r : hub * list out) : Prop := WJ xr xs (fst r) (gouts g (snd r)).

Lemma WJ_fold_sessions xr xs l f :
  (forall hh gg x, WJ xr xs hh gg -> WJr xr xs gg (f hh x)) ->
  forall h g, WJ xr xs h g -> WJr xr xs g (fold_sessions h l f).
Proof.
  intros Hf. induction l as [|x l IH]; intros h g HW; [exact HW|].
  rewrite fold_sessions_cons. specialize (Hf h g x HW). destruct (f h x) as [h1 o1]. unfold WJr in Hf. cbn [fst snd] in Hf.
  specialize (IH h1 (gouts g o1) Hf). destruct (fold_sessions h1 l f) as [h2 o2]. unfold WJr in *. cbn [fst snd] in *.
  now rewrite gouts_app.
Qed.

Lemma WJ_close_session xr xs h g sid : WJ xr xs h g -> WJr xr xs g (close_session h sid).
Proof. intros [W HJ]. split; [now apply wf_close_session|now apply (Jg_close_session xr none1)]. Qed.
Lemma WJ_send_conn xr xs h g c m : msg_irr m = true -> WJ xr xs h g -> WJr xr xs g (send_conn h c m).
Proof. intros Hm [W HJ]. split; [now apply wf_send_conn|now apply Jg_send_conn]. Qed.
Lemma WJ_send_irr xr xs h g x m : msg_irr m = true -> WJ xr xs h g -> WJr xr xs g (send_session h x m).
Proof. intros Hm [W HJ]. split; [now apply wf_send_session|now apply Jg_send_irr]. Qed.
Lemma WJ_seq xr xs g r1 (f : hub -> hub * list out) :
  WJr xr xs g r1 -> (forall gg, WJ xr xs (fst r1) gg -> WJr xr xs gg (f (fst r1))) ->
  WJr xr xs g (let '(h1, o1) := r1 in let '(h2, o2) := f h1 in (h2, o1 ++ o2)).
Proof.
  destruct r1 as [h1 o1]. intros H1 Hf. unfold WJr in H1. cbn [fst snd] in *. specialize (Hf _ H1).
  destruct (f h1) as [h2 o2]. unfold WJr in *. cbn [fst snd] in *. now rewrite gouts_app.
Qed.

Lemma WJ_do_tick xr xs h g secs : WJ xr xs h g -> WJr xr xs g (do_tick h secs).
Proof.
  intros HW. unfold do_tick.
  assert (H1 : WJr xr xs g (if hub_expire_s <? secs then fold_sessions h (h_expired h) close_session else (h, []))).
  { destruct (hub_expire_s <? secs); [|exact HW]. apply WJ_fold_sessions; [|exact HW]. intros hh gg x. apply WJ_close_session. }
  destruct (if hub_expire_s <? secs then fold_sessions h (h_expired h) close_session else (h, [])) as [h1 o1].
  unfold WJr in H1. cbn [fst snd] in H1.
  match goal with |- context [if hub_anonymous_s <? secs then ?A else ?B] => assert (H2 : WJr xr xs (gouts g o1) (if hub_anonymous_s <? secs then A else B)) end.
  { destruct (hub_anonymous_s <? secs); [|exact H1]. apply WJ_fold_sessions; [|exact H1]. intros hh gg x Hh.
    destruct (get_sess hh x) as [s|]; [|exact Hh].
    apply (WJ_seq xr xs gg (match s_conn s with Some c => send_conn hh c (SBye B_room_join_timeout) | None => (hh, []) end)
                  (fun h3 => close_session h3 x)).
    - destruct (s_conn s); [now apply WJ_send_conn|exact Hh].
    - intros g' Hg'. now apply WJ_close_session. }
  match goal with |- context [if hub_anonymous_s <? secs then ?A else ?B] => destruct (if hub_anonymous_s <? secs then A else B) as [h2 o2] end.
  unfold WJr in H2. cbn [fst snd] in H2.
  match goal with |- context [if hub_hello_s <? secs then ?A else ?B] => assert (H3 : WJr xr xs (gouts (gouts g o1) o2) (if hub_hello_s <? secs then A else B)) end.
  { destruct (hub_hello_s <? secs); [|exact H2]. apply WJ_fold_sessions; [|exact H2]. intros hh gg x Hh. now apply WJ_send_conn. }
  match goal with |- context [if hub_hello_s <? secs then ?A else ?B] => destruct (if hub_hello_s <? secs then A else B) as [h3 o3] end.
  unfold WJr in *. cbn [fst snd] in *. now rewrite !gouts_app.
Qed.

(* ------------------------------------------------------------------ internal clients: virtual sessions *)
Lemma Jv_drop_virtual xr xs h g bus vs : Jv xr (or_sid xs vs) h g bus ->
  (forall s, get_sess h vs = Some s -> is_virtual (s_kind s) = true) -> Jv xr xs h g bus.
Proof.
  intros V Hv x t Ht Hvt Hx. apply V; auto. intros [A| ->]; [contradiction|]. rewrite (Hv t Ht) in Hvt. discriminate.
Qed.

Lemma WJ_publish_neutral xr xs h g subj m : neutral_msg m = true -> pub_shape (mkpub subj m (h_clock h)) ->
  WJ xr xs h g -> WJ xr xs (publish h subj m) g.
Proof. intros A B [W HJ]. split; [eapply wf_equiv; [apply equiv_publish|exact W]|now apply Jg_publish_neutral]. Qed.

Lemma WJ_same xr xs h h' g : same h h' -> WFg xr none1 h' -> WJ xr xs h g -> WJ xr xs h' g.
Proof. intros E W' [W HJ]. split; [exact W'|eapply Jg_same; eauto]. Qed.

Lemma J_do_internal h g c sid s q : WF h -> J h g -> get_sess h sid = Some s -> is_internal (s_kind s) = true ->
  J (fst (do_internal h c sid s q)) (gouts g (snd (do_internal h c sid s q))).
Proof.
  unfold WF, J. intros W HJ Hs Hint. unfold do_internal.
  assert (Hpub : forall hh sj m, WFg none2 none1 hh -> WFg none2 none1 (publish hh sj m)).
  { intros. eapply wf_equiv; [apply equiv_publish|assumption]. }
  destruct q as [v rn user flags incall|v rn flags incall|v rn|ic].
  - (* add *)
    set (k := (s_backend s, rn)). destruct (room_of h k) as [r|] eqn:Hr; [|exact HJ].
    set (vs := next_id h). set (h0 := set_nextsid h vs).
    assert (W0 : WFg none2 none1 h0) by (eapply wf_equiv; [apply equiv_nextsid|exact W]).
    assert (Hfresh : get_sess h0 vs = None) by (exact (next_id_fresh h)).
    match goal with |- context [mksess (s_backend s) (KVirtual sid v) user (Some k) ?rsv None None [] [] 0 ?ic ?fl [] [] [] 0] =>
      set (vsess := mksess (s_backend s) (KVirtual sid v) user (Some k) rsv None None [] [] 0 ic fl [] [] [] 0);
      set (vsess0 := mksess (s_backend s) (KVirtual sid v) user None rsv None None [] [] 0 ic fl [] [] [] 0) end.
    set (r' := mkroom (nadd vs (r_members r)) (r_incall r) (r_sessdata r) (r_transient r) (r_props r)).
    set (h1 := put_sess (set_rooms h0 (pset (h_rooms h0) k r')) vs vsess).
    assert (W1 : WFg none2 none1 h1).
    { assert (WA : WFg none2 none1 (put_sess h0 vs vsess0)).
      { apply wf_new_session; auto. intros p v' Hk. injection Hk as <- <-. right. exists s. auto. }
      assert (E : h1 = put_sess (set_rooms (put_sess h0 vs vsess0) (pset (h_rooms (put_sess h0 vs vsess0)) k r')) vs vsess).
      { unfold h1, put_sess. hsimpl. now rewrite aset_aset. }
      rewrite E. apply (wf_enter_room _ _ (put_sess h0 vs vsess0) vs vsess0 vsess k r'); auto.
      - unfold get_sess, put_sess. hsimpl. apply aget_aset_same.
      - assert (Hro : room_of (put_sess h0 vs vsess0) k = Some r) by exact Hr. rewrite Hro. reflexivity.
      - assert (Hro : room_of (put_sess h0 vs vsess0) k = Some r) by exact Hr. rewrite Hro. reflexivity. }
    assert (Hs1 : get_sess h1 vs = Some vsess) by (unfold h1, get_sess, put_sess; hsimpl; apply aget_aset_same).
    set (h2 := set_vtable h1 (pset (h_vtable h1) (sid, v) vs)).
    assert (W2 : WFg none2 none1 h2) by (apply (wf_set_vt h1 sid v vs vsess); auto).
    match goal with |- context [rs_set h2 vs ?x] => set (h5 := rs_set h2 vs x) end.
    assert (W5 : WFg none2 none1 h5) by (apply (wf_rs_set _ _ h2 vs _ vsess k); auto).
    (* the invariant once the new member is announced *)
    destruct (rs_set_proj h2 vs (2000000 + vs)) as (A1 & A2 & A3 & A4 & A5 & A6). fold h5 in A1, A2, A3, A4, A5, A6.
    assert (Hg5 : forall x, get_sess h5 x = if N.eqb x vs then Some vsess else get_sess h x).
    { intros x. unfold get_sess. rewrite A1. unfold h2, h1, put_sess. cbn [h_sessions set_vtable set_sessions set_rooms h0 set_nextsid]. apply aget_aset. }
    assert (Hlt : h_nextsid h < vs) by apply next_id_gt.
    assert (H5 : Jh h5 g).
    { destruct HJ as [H V]. constructor.
      - rewrite A1. unfold h2, h1, put_sess. cbn [h_sessions set_vtable set_sessions set_rooms h0 set_nextsid]. apply nodup_keys_aset, H.
      - intros k' rr. unfold room_of. rewrite A2. unfold h2, h1, put_sess. cbn [h_rooms set_vtable set_sessions set_rooms h0 set_nextsid].
        rewrite pget_pset. destruct (pair_eqb_spec k' k) as [->|]; [intros _; eapply (j_room0 _ _ H); eauto|apply (j_room0 _ _ H)].
      - rewrite A3, A4. apply H.
      - rewrite A3. apply H.
      - intros p b rr x i t Hp Hsu Hm Ht. rewrite A3 in Hp. rewrite Hg5 in Ht. destruct (N.eqb_spec x vs) as [->|].
        + pose proof (j_asj_id _ _ H p vs i Hp Hm). lia.
        + eapply (j_asj _ _ H); eauto.
      - intros p x i Hp Hm. rewrite A3 in Hp. rewrite A5. pose proof (j_asj_id _ _ H p x i Hp Hm). cbn. lia.
      - intros x Hx. rewrite A5 in Hx. apply H. cbn in Hx. lia.
      - intros c0 x Hx. rewrite A5. pose proof (j_fresh_bind _ _ H c0 x Hx). cbn. lia.
      - intros x t Ht. rewrite A5. rewrite Hg5 in Ht. destruct (N.eqb_spec x vs) as [->|]; [cbn; lia|].
        pose proof (j_live _ _ H x t Ht). cbn. lia.
      - intros x t Ht. rewrite A4. rewrite Hg5 in Ht. destruct (N.eqb_spec x vs) as [->|]; [injection Ht as <-; apply N.le_0_l|eapply (j_join _ _ H); eauto].
      - intros x t k' Ht. rewrite Hg5 in Ht. destruct (N.eqb_spec x vs) as [->|]; [injection Ht as <-; intros Hk'; injection Hk' as <-; reflexivity|eapply (j_backend _ _ H); eauto].
      - intros x t Ht. rewrite Hg5 in Ht. destruct (N.eqb_spec x vs) as [->|]; [injection Ht as <-; reflexivity|eapply (j_pc _ _ H); eauto].
      - intros x t m Ht. rewrite Hg5 in Ht. destruct (N.eqb_spec x vs) as [->|]; [injection Ht as <-; intros []|eapply (j_nohello _ _ H); eauto].
      - intros x t Ht. rewrite Hg5 in Ht. destruct (N.eqb_spec x vs) as [->|]; [injection Ht as <-; reflexivity|eapply (j_vconn _ _ H); eauto].
      - intros x t c0 Ht. rewrite A6. rewrite Hg5 in Ht. destruct (N.eqb_spec x vs) as [->|]; [injection Ht as <-; discriminate|eapply (j_cs _ _ H); eauto].
      - intros x t c0 Ht. rewrite Hg5 in Ht. destruct (N.eqb_spec x vs) as [->|]; [injection Ht as <-; discriminate|eapply (j_bind _ _ H); eauto]. }
    set (h6 := publish h5 (SubjRoom (fst k) (snd k)) (ARoomEvent (SJoin [(vs, user)]))).
    assert (J6 : Jg none2 no1 h6 g).
    { split; [apply Jh_publish; [exact H5|exact I| |]; [intros b rr x i t _ Hm|intros x i Hm]; discriminate|].
      apply (Jv_drop_virtual none2 no1 h6 g (h_bus h6) vs).
      - apply (Jv_member_added none2 (or_sid no1 vs) h h6 g k vs user (r_members r) (h_clock h5) (proj1 HJ)).
        + apply Jv_exempt, HJ.
        + now right.
        + intros x Hx. change (get_sess h6 x) with (get_sess h5 x). rewrite Hg5. destruct (N.eqb_spec x vs); [contradiction|reflexivity].
        + intros M HM. unfold mem_of in HM. rewrite Hr in HM. cbn in HM. congruence.
        + intros k'. change (mem_of h6 k') with (mem_of h5 k'). unfold mem_of, room_of. rewrite A2. unfold h2, h1, put_sess.
          cbn [h_rooms set_vtable set_sessions set_rooms h0 set_nextsid]. rewrite pget_pset. destruct (pair_eqb k' k); reflexivity.
        + unfold h6. rewrite bus_publish, A3. reflexivity.
        + rewrite A4. apply N.le_refl.
      - intros t Ht. change (get_sess h6 vs) with (get_sess h5 vs) in Ht. rewrite Hg5, N.eqb_refl in Ht. injection Ht as <-. reflexivity. }
    assert (W6 : WFg none2 none1 h6) by (apply Hpub; exact W5).
    set (h7 := publish h6 (SubjRoom (fst k) (snd k)) (AEvent (SPart 0) 0 false)).
    assert (WJ7 : WJ none2 no1 h7 g) by (apply WJ_publish_neutral; [reflexivity|exact I|split; assumption]).
    match goal with |- context [if N.eqb ?fl 0 then h7 else ?hp] => set (h8 := if N.eqb fl 0 then h7 else hp) end.
    assert (WJ8 : WJ none2 no1 h8 g).
    { unfold h8. destruct (N.eqb _ 0); [exact WJ7|]. apply WJ_publish_neutral; [reflexivity|exact I|exact WJ7]. }
    assert (Hg8 : forall x, get_sess h8 x = get_sess h5 x) by (intros x; unfold h8; destruct (N.eqb _ 0); reflexivity).
    set (h9 := publish h8 (SubjBackendRoom (fst k) (snd k)) (ASessionJoined vs false)).
    assert (WJ9 : WJ none2 no1 h9 g).
    { destruct WJ8 as [W8 [H8 V8]]. split; [now apply Hpub|]. split.
      - apply Jh_publish; [exact H8|exact I| |].
        + intros b rr x i t Hsu Hm Ht. injection Hsu as <- <-. injection Hm as <- _.
          rewrite Hg8, Hg5, N.eqb_refl in Ht. injection Ht as <-. right. reflexivity.
        + intros x i Hm. injection Hm as <- _. apply (j_live _ _ H8 vs vsess). now rewrite Hg8, Hg5, N.eqb_refl.
      - unfold h9. rewrite bus_publish. intros x t Ht Hvt Hx. apply view_ok_app_none; [|now apply V8].
        intros k' M _. rewrite pub_op_asj. destruct (N.eqb_spec vs x) as [<-|]; [|now rewrite andb_false_r].
        change (get_sess h8 vs = Some t) in Ht. rewrite Hg8, Hg5, N.eqb_refl in Ht. injection Ht as <-. discriminate. }
    match goal with |- context [let '(h10, outs10) := match ?pvx with Some _ => _ | None => _ end in _] => destruct pvx as [pv|] end.
    + destruct WJ9 as [W9 J9]. pose proof (Jg_close_one none2 none1 no1 h9 g pv W9 J9) as J10.
      pose proof (close_one_irr h9 pv) as I10. fold h6 h7 h8 h9.
      destruct (close_one h9 pv) as [h10 o10]. cbn [fst snd] in *. rewrite gouts_cons. exact J10.
    + fold h6 h7 h8 h9. cbn [fst snd]. rewrite gouts_cons. apply WJ9.
  - (* update *)
    set (k := (s_backend s, rn)).
    destruct (room_of h k) as [r|]; [|exact HJ]. destruct (pget (h_vtable h) (sid, v)) as [vs|]; [|exact HJ].
    destruct (get_sess h vs) as [t|] eqn:Ht; [|exact HJ]. cbn [fst snd]. rewrite gouts_nil.
    match goal with |- context [put_sess h vs ?t1] => set (h1 := put_sess h vs t1) end.
    assert (J1 : Jg none2 no1 h1 g) by (eapply Jg_same; [apply (same_put h vs t); [exact Ht|reflexivity|now apply pend_ok_eq]|exact HJ]).
    repeat match goal with |- context [if ?c then _ else _] => destruct c end;
      repeat (apply Jg_publish_neutral; [reflexivity|exact I|]); try (eapply Jg_same; [apply same_set_incall|]);
      repeat (apply Jg_publish_neutral; [reflexivity|exact I|]); exact J1.
  - (* remove *)
    set (k := (s_backend s, rn)).
    destruct (room_of h k) as [r|]; [|exact HJ]. destruct (pget (h_vtable h) (sid, v)) as [vs|] eqn:Hv; [|exact HJ].
    apply (Jg_close_one none2 none1); [apply wf_del_vt; exact W|].
    eapply Jg_same; [|exact HJ]. apply same_fields; try reflexivity; apply N.le_refl.
  - (* in-call flags of the internal client itself *)
    destruct (N.eqb ic (s_incall s)); [exact HJ|].
    match goal with |- context [put_sess h sid ?t1] => set (h1 := put_sess h sid t1) end.
    assert (J1 : Jg none2 no1 h1 g) by (eapply Jg_same; [apply (same_put h sid s); [exact Hs|reflexivity|now apply pend_ok_eq]|exact HJ]).
    destruct (s_room s) as [k|]; [|exact J1].
    destruct (N.testbit ic 0).
    + cbn [fst snd]. rewrite gouts_nil. apply Jg_publish_neutral; [reflexivity|exact I|]. eapply Jg_same; [apply same_set_incall|exact J1].
    + pose proof (quiet_leave_call (set_incall h1 k sid false) sid) as Q.
      destruct (leave_call (set_incall h1 k sid false) sid) as [h2 o2]. cbn [fst snd].
      apply Jg_publish_neutral; [reflexivity|exact I|]. apply (Jg_quiet none2 no1 (set_incall h1 k sid false) g (h2, o2) Q).
      eapply Jg_same; [apply same_set_incall|exact J1].
Qed.

(* ------------------------------------------------------------------ one step from an empty bus *)
Lemma quiet_fold_sessions l f : (forall hh x, quiet hh (f hh x)) -> forall h, quiet h (fold_sessions h l f).
Proof.
  intros Hf. induction l as [|x l IH]; intros h; [apply quiet_ret|].
  rewrite fold_sessions_cons. pose proof (Hf h x) as Q1. destruct (f h x) as [h1 o1].
  pose proof (IH h1) as Q2. destruct (fold_sessions h1 l f) as [h2 o2]. apply (quiet_seq h (h1, o1) (h2, o2) Q1 Q2).
Qed.

(* the room's transient data: the room keeps its members, the notices are read by no view *)
Lemma quiet_transient_update h k r del key val : room_of h k = Some r -> quiet h (transient_update h k r del key val).
Proof.
  intros Hr. unfold transient_update.
  assert (Hn : forall d m, quiet h (transient_notify h k r d m)).
  { intros d m. unfold transient_notify.
    eapply quiet_pre; [apply (same_room_update h k r (room_set_transient r d)); [exact Hr|reflexivity]|].
    apply quiet_fold_sessions. intros hh x. now apply quiet_send_irr. }
  destruct (del || N.eqb val 0).
  - destruct (aget (r_transient r) key); [apply Hn|apply quiet_ret].
  - destruct (aget (r_transient r) key) as [v|]; [destruct (N.eqb v val); [apply quiet_ret|apply Hn]|apply Hn].
Qed.

Ltac jerr := cbn [fst snd]; apply Jg_irr; [reflexivity|assumption].

Lemma J_with_session h g c f : WF h -> J h g ->
  (forall cn sid s, aget (h_conns h) c = Some cn -> c_sess cn = Some sid -> get_sess h sid = Some s ->
                    is_virtual (s_kind s) = false -> J (fst (f cn sid s)) (gouts g (snd (f cn sid s)))) ->
  J (fst (with_session h c f)) (gouts g (snd (with_session h c f))).
Proof.
  intros W HJ Hf. unfold with_session. destruct (aget (h_conns h) c) as [cn|] eqn:Hc; [|exact HJ].
  destruct (c_sess cn) as [sid|] eqn:Hcs; [|jerr].
  destruct (get_sess h sid) as [s|] eqn:Hs; [|jerr].
  apply (Hf cn sid s eq_refl Hcs Hs).
  destruct (wf_conns _ _ h W c cn sid Hc Hcs) as (s' & Hs' & Hc'). assert (s' = s) by congruence. subst s'.
  destruct (is_virtual (s_kind s)) eqn:Hv; [|reflexivity]. rewrite (j_vconn _ _ (proj1 HJ) sid s Hs Hv) in Hc'. discriminate.
Qed.

Lemma nobody_on h g c cn : Jh h g -> aget (h_conns h) c = Some cn -> c_sess cn = None ->
  forall x s, get_sess h x = Some s -> s_conn s <> Some c.
Proof. intros H Hc Hn x s Hx Hxc. destruct (j_cs _ _ H x s c Hx Hxc) as (cn' & Hcn' & Hcs'). congruence. Qed.

(* a join request must not be processed while a "session joined" notice for the same session is still queued *)
Definition join_guard (h : hub) (o : op) : Prop :=
  match o with
  | OJoin c _ _ _ => forall cn sid, aget (h_conns h) c = Some cn -> c_sess cn = Some sid ->
                                    forall p, In p (h_bus h) -> not_asj_for sid p
  | _ => True
  end.

Lemma J_step_gen h g o : WF h -> J h g -> join_guard h o ->
  (forall pos, o = ODeliver pos -> h_bus h = []) -> J (fst (step h o)) (gouts g (snd (step h o))).
Proof.
  intros W HJ Hquiet Hd. unfold J in *.
  destruct o as [c addr|c hl|c rn rs rep|c to tag|c to tag|c|c|secs|b signas room q|c q|c to mk stream media|tok ok|c kindn key val|pos|c hl late];
    cbn [step].
  - (* connect *)
    destruct (aget (h_conns h) c) as [cn|] eqn:Hc; [exact HJ|]. apply Jg_irr; [reflexivity|]. cbn [fst]. apply Jg_set_conn; [exact HJ|].
    intros x s Hx Hxc. destruct (j_cs _ _ (proj1 HJ) x s c Hx Hxc) as (cn' & Hcn' & _). congruence.
  - (* hello *)
    destruct (aget (h_conns h) c) as [cn|] eqn:Hc; [|exact HJ]. destruct (c_sess cn) eqn:Hcs; [exact HJ|].
    pose proof (nobody_on h g c cn (proj1 HJ) Hc Hcs) as Hno.
    apply Jg_do_hello; [now apply wf_set_conn_nosess|hsimpl; apply aget_aset_same| |now apply Jg_set_conn].
    exact Hno.
  - (* join *)
    apply J_with_session; auto. intros cn sid s Hc Hcs Hs Hv.
    pose proof (Jg_do_join h g c sid s rn rs rep W HJ Hs Hv (Hquiet cn sid Hc Hcs)) as J1.
    destruct (do_join h c sid s rn rs rep) as [h1 o1]. cbn [fst snd] in J1.
    destruct rep as [[p|] su|code]; try exact J1. destruct (get_sess h1 sid) as [s1|]; [|exact J1].
    match goal with |- context [if ?b then _ else _] => destruct b end; [|exact J1].
    pose proof (quiet_revoke h1 sid) as Q. destruct (revoke h1 sid) as [h2 o2]. cbn [fst snd]. rewrite gouts_app.
    apply (Jg_quiet none2 no1 h1 _ (h2, o2) Q J1).
  - (* message *)
    apply J_with_session; auto. intros cn sid s _ _ _ _. now apply Jg_do_message.
  - (* control *)
    apply J_with_session; auto. intros cn sid s _ _ _ _. destruct (allowed_control s); [now apply Jg_do_message|exact HJ].
  - (* bye *)
    destruct (aget (h_conns h) c) as [cn|]; [|exact HJ]. destruct (c_sess cn); [|jerr]. now apply Jg_send_conn.
  - (* drop *)
    destruct (aget (h_conns h) c) as [cn|] eqn:Hc; [|exact HJ]. apply Jg_irr; [destruct (c_sess cn) as [sid|]; [destruct (get_sess _ sid)|]; reflexivity|].
    assert (Hone : forall x s, get_sess h x = Some s -> s_conn s = Some c -> c_sess cn = Some x).
    { intros x s Hx Hxc. destruct (j_cs _ _ (proj1 HJ) x s c Hx Hxc) as (cn' & Hcn' & Hcs'). congruence. }
    destruct (c_sess cn) as [sid|] eqn:Hcs.
    2:{ cbn [fst]. apply Jg_conn_gone; [exact HJ|]. intros x s Hx Hxc. specialize (Hone x s Hx Hxc). discriminate. }
    change (get_sess (set_conns h (adel (h_conns h) c)) sid) with (get_sess h sid).
    destruct (get_sess h sid) as [s|] eqn:Hs.
    + cbn [fst]. apply (Jg_same none2 no1 (set_conns (put_sess h sid (sess_conn s None)) (adel (h_conns (put_sess h sid (sess_conn s None))) c))).
      2:{ apply Jg_conn_gone; [now apply Jg_disconnect|]. intros x t Hx Hxc. rewrite get_put in Hx.
          destruct (N.eqb_spec x sid) as [->|Hne]; [injection Hx as <-; discriminate|].
          specialize (Hone x t Hx Hxc). congruence. }
      apply same_fields; try reflexivity; apply N.le_refl.
    + cbn [fst]. apply Jg_conn_gone; [exact HJ|]. intros x t Hx Hxc. specialize (Hone x t Hx Hxc). congruence.
  - (* tick *)
    apply (WJ_do_tick none2 no1 h g secs). split; assumption.
  - (* room API *)
    destruct (negb (N.eqb b signas) || (h_nb h <=? b)); [exact HJ|now apply Jg_do_api].
  - (* internal *)
    apply J_with_session; auto. intros cn sid s _ _ Hs _. destruct (is_internal (s_kind s)) eqn:Hi; [|exact HJ].
    apply J_do_internal; auto.
  - (* media *)
    apply J_with_session; auto. intros cn sid s _ _ Hs _. apply (Jg_quiet none2 no1 h g); [now apply quiet_do_media|exact HJ].
  - (* media server *)
    apply (Jg_quiet none2 no1 h g); [apply quiet_do_mcudone|exact HJ].
  - (* transient data *)
    apply J_with_session; auto. intros cn sid s _ _ Hs _.
    destruct (s_room s) as [k|]; [|jerr]. destruct (2 <=? kindn); [jerr|]. destruct (negb (allowed_transient s)); [jerr|].
    destruct (room_of h k) as [r|] eqn:Hr; [|exact HJ].
    apply (Jg_quiet none2 no1 h g); [now apply quiet_transient_update|exact HJ].
  - (* deliver: nothing is queued *)
    unfold deliver_at. rewrite (Hd pos eq_refl). destruct (N.to_nat pos); exact HJ.
  - (* hello aborted *)
    destruct (aget (h_conns h) c) as [cn|]; [|exact HJ]. destruct (c_sess cn); [exact HJ|].
    destruct hl as [b u rej|b u t|b tok f d|i]; try exact HJ.
    + destruct rej; [exact HJ|]. destruct (h_nb h <=? b); [exact HJ|].
      match goal with |- context [close_conn ?hh c] => assert (WJ1 : WFg none2 none1 hh /\ Jg none2 no1 hh g) end.
      { destruct late; [|split; assumption]. split; [eapply wf_equiv; [apply equiv_nextsid|exact W]|].
        eapply Jg_same; [|exact HJ]. apply same_fields; try reflexivity; try apply N.le_refl. cbn. apply N.lt_le_incl, next_id_gt. }
      destruct WJ1 as [W1 J1].
      match goal with |- context [close_conn ?hh c] => pose proof (Jg_close_conn none2 no1 hh g c W1 J1) as J2; destruct (close_conn hh c) as [h2 o2] end.
      cbn [fst snd] in *. rewrite gouts_cons. exact J2.
    + now apply Jg_close_conn.
Qed.

Lemma J_step h g o : WF h -> J h g -> h_bus h = [] -> J (fst (step h o)) (gouts g (snd (step h o))).
Proof. intros W HJ Hb. apply J_step_gen; auto. destruct o; try exact I. intros cn sid _ _ p. rewrite Hb. intros []. Qed.

(* ------------------------------------------------------------------ delivering the first queued publication *)
Lemma Jh_pop h g p rest : h_bus h = p :: rest -> Jh h g -> Jh (set_bus h rest) g.
Proof.
  intros Hb H. constructor; try apply H.
  - intros q Hq. apply (j_times _ _ H). rewrite Hb. now right.
  - intros q Hq. apply (j_shape _ _ H). rewrite Hb. now right.
  - intros q b r x i s Hq. apply (j_asj _ _ H). rewrite Hb. now right.
  - intros q x i Hq. apply (j_asj_id _ _ H). rewrite Hb. now right.
Qed.

Lemma Jg_pop_none xr xs h g p rest : h_bus h = p :: rest -> (forall sid k tj M, pub_op sid k tj M p = None) ->
  Jg xr xs h g -> Jg xr xs (set_bus h rest) g.
Proof.
  intros Hb Hn [H V]. split; [eapply Jh_pop; eauto|]. intros x s Hs Hv Hx. specialize (V x s Hs Hv Hx). rewrite Hb in V.
  cbn [h_bus set_bus]. unfold view_ok in *. destruct (s_room s) as [k|]; [|exact V].
  destruct V as [V|(M & V0 & A & B & C & D)]; [now left|right]. exists M, V0. repeat split; auto.
  intros z. specialize (D z). rewrite bus_ops_cons, Hn in D. exact D.
Qed.

(* the view and the seen list after one join / leave notice *)
Definition seen_op (o : vop) (seen : list N) (z : N) : bool :=
  match o with VAdd l => nmem z seen || nmem z l | VRem l => negb (nmem z l) && nmem z seen end.

Lemma apply_view_op v m o k V : msg_op m = Some o -> v = Some (k, V) ->
  exists V', apply_view v m = Some (k, V') /\ forall z, nmem z V' = vop_after o (nmem z V) z.
Proof.
  intros Hm ->. destruct m; try discriminate Hm; injection Hm as <-; cbn [apply_view].
  - eexists. split; [reflexivity|]. intros z. cbn [vop_after]. apply nmem_fold_nadd.
  - eexists. split; [reflexivity|]. intros z. cbn [vop_after]. apply nmem_fold_nrem.
Qed.

(* one session receives the join / leave notice of the first publication *)
Lemma deliver_event xr h g x s m o k p rest :
  Jh h g -> get_sess h x = Some s -> is_virtual (s_kind s) = false -> s_room s = Some k -> msg_op m = Some o ->
  (forall M, pub_op x k (s_join s) M p = Some o) ->
  view_ok xr (mem_of h) (g_view g x) (p :: rest) x s ->
  let r := deliver_to_session h x m in
  Jh (fst r) (gouts g (snd r)) /\
  (exists s', get_sess (fst r) x = Some s' /\ vcore s' = vcore (sess_seen s (s_seen s')) /\
              view_ok xr (mem_of (fst r)) (g_view (gouts g (snd r)) x) rest x s') /\
  (forall y, y <> x -> get_sess (fst r) y = get_sess h y /\ g_view (gouts g (snd r)) y = g_view g y) /\
  (forall k', mem_of (fst r) k' = mem_of h k') /\ h_bus (fst r) = h_bus h /\
  map fst (h_sessions (fst r)) = map fst (h_sessions h).
Proof.
  intros H Hs Hv Hk Hm Hop V. cbv zeta. rewrite (deliver_to_session_eq h x m s Hs).
  assert (Hle : x <= h_nextsid h) by (eapply (j_live _ _ H); eauto).
  (* the new seen list *)
  set (sa := seen_after s m).
  assert (Hsa : vcore sa = vcore (sess_seen s (s_seen sa)) /\ s_pending sa = s_pending s /\
                forall z, nmem z (s_seen sa) = seen_op o (s_seen s) z).
  { unfold sa. destruct m; try discriminate Hm; injection Hm as <-; cbn [seen_after].
    - destruct (filter_seen (s_seen s) l) as [keep seen'] eqn:Hf. destruct (filter_seen_spec l _ _ _ Hf) as [_ B].
      cbn [snd]. split; [reflexivity|]. split; [reflexivity|]. intros z. cbn [seen_op s_seen sess_seen upd_sess]. apply B.
    - split; [reflexivity|]. split; [reflexivity|]. intros z. cbn [seen_op s_seen sess_seen upd_sess]. apply nmem_fold_nrem. }
  destruct Hsa as (Hsa1 & Hsa2 & Hsa3).
  pose proof (vcore_eq _ _ Hsa1) as (Sk & Sb & Sr & Sc & _ & Sj). cbn in Sk, Sb, Sr, Sc, Sj.
  (* what a state must satisfy to conclude *)
  assert (T : forall s7 o2,
    vcore s7 = vcore sa -> (s_conn s7 <> None -> s_pending s7 = []) -> (forall mm, In mm (s_pending s7) -> no_hello mm = true) ->
    (forall c0, g_bind (gouts g o2) c0 = g_bind g c0) -> (forall y, y <> x -> g_view (gouts g o2) y = g_view g y) ->
    (forall kk V, replay (s_pending s) (g_view g x) = Some (kk, V) -> (forall z, nmem z (s_seen s) = true -> nmem z V = true) ->
       exists V', replay (s_pending s7) (g_view (gouts g o2) x) = Some (kk, V') /\ forall z, nmem z V' = vop_after o (nmem z V) z) ->
    Jh (fst (put_sess h x s7, o2)) (gouts g (snd (put_sess h x s7, o2))) /\
    (exists s', get_sess (fst (put_sess h x s7, o2)) x = Some s' /\ vcore s' = vcore (sess_seen s (s_seen s')) /\
                view_ok xr (mem_of (fst (put_sess h x s7, o2))) (g_view (gouts g (snd (put_sess h x s7, o2))) x) rest x s') /\
    (forall y, y <> x -> get_sess (fst (put_sess h x s7, o2)) y = get_sess h y /\ g_view (gouts g (snd (put_sess h x s7, o2))) y = g_view g y) /\
    (forall k', mem_of (fst (put_sess h x s7, o2)) k' = mem_of h k') /\ h_bus (fst (put_sess h x s7, o2)) = h_bus h /\
    map fst (h_sessions (fst (put_sess h x s7, o2))) = map fst (h_sessions h)).
  { intros s7 o2 F1 F2 F3 Gb Gv Gr. cbn [fst snd].
    pose proof (vcore_eq _ _ F1) as (Tk & Tb & Tr & Tc & Ts & Tj).
    split; [|split; [|split; [|split; [|split]]]].
    - apply (Jh_gview _ g _ x); [|exact Gb|exact Gv|exact Hle]. apply (Jh_put h g x s s7 H Hs).
      + intros q b r i Hq Hsu Hmq. rewrite Tr, Sr. eapply (j_asj _ _ H); eauto.
      + rewrite Tj, Sj. eapply (j_join _ _ H); eauto.
      + intros k' Hk'. rewrite Tb, Sb. eapply (j_backend _ _ H); eauto. congruence.
      + exact F2.
      + exact F3.
      + intros Hvv. rewrite Tc, Sc. apply (j_vconn _ _ H x s Hs). congruence.
      + intros c0. congruence.
    - exists s7. split; [apply get_put_same|]. split.
      { rewrite F1, Hsa1. unfold vcore. cbn. now rewrite Ts. }
      unfold view_ok in *. rewrite Tr, Sr, Hk in *. destruct V as [V|(M & V0 & A & B & C & D)]; [now left|right].
      destruct (Gr _ _ B C) as (V' & HV' & HV'z). exists M, V'. split; [exact A|]. split; [exact HV'|]. split.
      + intros z. rewrite Ts, Hsa3, HV'z. destruct o; cbn [seen_op vop_after].
        * intros Hz. apply orb_true_iff in Hz as [Hz|Hz]; [rewrite (C z Hz); apply orb_true_r|rewrite Hz; reflexivity].
        * intros Hz. apply andb_true_iff in Hz as [Hz1 Hz2]. now rewrite Hz1, (C z Hz2).
      + intros z. rewrite Tj, Sj, HV'z. specialize (D z). rewrite bus_ops_cons, (Hop M) in D. exact D.
    - intros y Hy. split; [now apply get_put_other|now apply Gv].
    - intros k'. reflexivity.
    - reflexivity.
    - eapply keys_put_in; eauto. }
  (* a notice that is filtered away completely *)
  destruct (filtered s m) as [mm|] eqn:Hfm.
  2:{ apply (T sa []); auto.
      - intros Hn. rewrite Hsa2. apply (j_pc _ _ H x s Hs). congruence.
      - intros mm. rewrite Hsa2. apply (j_nohello _ _ H x s mm Hs).
      - intros kk V1 HV1 Hseen. exists V1. rewrite Hsa2. split; [exact HV1|]. intros z.
        destruct m; try discriminate Hm; injection Hm as <-; cbn [filtered] in Hfm; [|discriminate].
        destruct (filter_seen (s_seen s) l) as [keep seen'] eqn:Hf. destruct (filter_seen_spec l _ _ _ Hf) as [A _]. cbn [fst] in Hfm.
        destruct keep; [|discriminate]. specialize (A z). cbn in A. cbn [vop_after].
        destruct (nmem z (map fst l)) eqn:E1; [|reflexivity]. destruct (nmem z (s_seen s)) eqn:E2; [|discriminate].
        now rewrite (Hseen z E2). }
  (* the message that is written / queued *)
  assert (Hmm : no_hello mm = true /\ is_chat_refresh mm = false /\
                forall kk V, (forall z, nmem z (s_seen s) = true -> nmem z V = true) ->
                  exists V', apply_view (Some (kk, V)) mm = Some (kk, V') /\ forall z, nmem z V' = vop_after o (nmem z V) z).
  { destruct m; try discriminate Hm; injection Hm as <-; cbn [filtered] in Hfm.
    - destruct (filter_seen (s_seen s) l) as [keep seen'] eqn:Hf. destruct (filter_seen_spec l _ _ _ Hf) as [A _]. cbn [fst] in Hfm.
      destruct keep as [|e keep]; [discriminate|]. injection Hfm as <-. split; [reflexivity|]. split; [reflexivity|].
      intros kk V1 Hseen. cbn [apply_view]. eexists. split; [reflexivity|]. intros z. rewrite nmem_fold_nadd, A. cbn [vop_after].
      destruct (nmem z (map fst l)) eqn:E1; [|reflexivity]. destruct (nmem z (s_seen s)) eqn:E2; [|reflexivity].
      now rewrite (Hseen z E2).
    - injection Hfm as <-. split; [reflexivity|]. split; [reflexivity|]. intros kk V1 _. cbn [apply_view]. eexists. split; [reflexivity|].
      intros z. apply nmem_fold_nrem. }
  destruct Hmm as (Hnh & Hcr & Hap).
  destruct (s_conn s) as [c0|] eqn:Hc.
  - assert (Hp0 : s_pending s = []) by (apply (j_pc _ _ H x s Hs); congruence).
    assert (Hb0 : g_bind g c0 = Some x) by (apply (j_bind _ _ H x s c0 Hs Hc)).
    apply (T sa [ToConn c0 mm]); auto.
    + intros _. now rewrite Hsa2.
    + intros m0. rewrite Hsa2, Hp0. intros [].
    + intros c1. rewrite gouts_cons, gouts_nil, (gout_msg g c0 mm x Hnh Hb0). reflexivity.
    + intros y Hy. rewrite gouts_cons, gouts_nil, (gout_msg g c0 mm x Hnh Hb0). cbn [g_view]. destruct (N.eqb_spec y x); [contradiction|reflexivity].
    + intros kk V1 HV1 Hseen. rewrite gouts_cons, gouts_nil, (gout_msg g c0 mm x Hnh Hb0). cbn [g_view]. rewrite N.eqb_refl, Hsa2, Hp0.
      rewrite Hp0 in HV1. cbn [replay fold_left] in *. rewrite HV1. now apply Hap.
  - apply (T (sess_pending sa (enqueue (s_pending s) mm)) []); auto.
    + change (s_conn (sess_pending sa (enqueue (s_pending s) mm))) with (s_conn sa). rewrite Sc. intros Hn. contradiction.
    + intros m0 Hm0. change (In m0 (enqueue (s_pending s) mm)) in Hm0. rewrite enqueue_plain in Hm0 by exact Hcr.
      apply in_app_iff in Hm0 as [Hm0|[<-|[]]]; [|exact Hnh]. eapply (j_nohello _ _ H x s); eauto.
    + intros kk V1 HV1 Hseen. change (s_pending (sess_pending sa (enqueue (s_pending s) mm))) with (enqueue (s_pending s) mm).
      rewrite enqueue_plain by exact Hcr. rewrite replay_app. cbn [gouts fold_left]. rewrite HV1. cbn [replay fold_left]. now apply Hap.
Qed.

Lemma In_aget_nodup {V} (l : alist V) k v : NoDup (map fst l) -> In (k, v) l -> aget l k = Some v.
Proof.
  induction l as [|[k' v'] r IH]; cbn; [intros _ []|]. intros Hn [E|Hin].
  - injection E as -> ->. now rewrite N.eqb_refl.
  - inversion Hn as [|a b Hk' Hr]; subst. destruct (N.eqb_spec k k') as [->|]; [|auto].
    exfalso. apply Hk'. apply in_map_iff. exists (k', v). auto.
Qed.
Lemma nodup_map_filter_obs {A B} (gf : A -> B) (f : A -> bool) (l : list A) : NoDup (map gf l) -> NoDup (map gf (filter f l)).
Proof.
  induction l as [|x l IH]; cbn; intros H; [constructor|]. inversion H as [|? ? Hx Hl]; subst.
  destruct (f x); cbn; [constructor|]; auto.
  intros Hin. apply Hx. apply in_map_iff in Hin as [y [Hy Hin]]. apply filter_In in Hin as [Hin _]. apply in_map_iff. eauto.
Qed.

Lemma view_ok_pop_none xr mo v p rest x s : (forall k M, s_room s = Some k -> pub_op x k (s_join s) M p = None) ->
  view_ok xr mo v (p :: rest) x s -> view_ok xr mo v rest x s.
Proof.
  intros Hn V. unfold view_ok in *. destruct (s_room s) as [k|]; [|exact V].
  destruct V as [V|(M & V0 & A & B & C & D)]; [now left|right]. exists M, V0. repeat split; auto.
  intros z. specialize (D z). rewrite bus_ops_cons, (Hn k M eq_refl) in D. exact D.
Qed.

Lemma no_closing_filtered s m mm h c : msg_op m <> None -> filtered s m = Some mm -> is_closing h c mm = false.
Proof.
  intros Hm Hf. destruct m; try (exfalso; apply Hm; reflexivity); cbn [filtered] in Hf.
  - destruct (fst (filter_seen (s_seen s) l)); [discriminate|]. injection Hf as <-. reflexivity.
  - injection Hf as <-. reflexivity.
Qed.

Lemma send_event_eq h x s m : get_sess h x = Some s -> is_virtual (s_kind s) = false -> msg_op m <> None ->
  send_session h x m = deliver_to_session h x m.
Proof.
  intros Hs Hv Hm. rewrite send_session_eq, (target_nonvirtual h x s Hs Hv), (deliver_to_session_eq h x m s Hs).
  destruct (filtered s m) as [mm|] eqn:Hf; [|reflexivity]. destruct (s_conn s) as [c|]; [|reflexivity].
  now rewrite (no_closing_filtered s m mm _ c Hm Hf).
Qed.

(* what happens to one addressed session *)
Definition addressed (p : pub) (x : N) (s : session) : Prop :=
  (exists b r, p_subj p = SubjRoom b r /\ s_room s = Some (b, r)) \/ p_subj p = SubjSession x.

Lemma recv_room_event xr h g x s p rest m o :
  p_msg p = ARoomEvent m -> msg_op m = Some o -> Jh h g -> get_sess h x = Some s -> is_virtual (s_kind s) = false ->
  addressed p x s -> view_ok xr (mem_of h) (g_view g x) (p :: rest) x s ->
  let r := recv_event h x m 0 false true (p_time p) in
  Jh (fst r) (gouts g (snd r)) /\
  (exists s', get_sess (fst r) x = Some s' /\ vcore s' = vcore (sess_seen s (s_seen s')) /\
              view_ok xr (mem_of (fst r)) (g_view (gouts g (snd r)) x) rest x s') /\
  (forall y, y <> x -> get_sess (fst r) y = get_sess h y /\ g_view (gouts g (snd r)) y = g_view g y) /\
  (forall k', mem_of (fst r) k' = mem_of h k') /\ h_bus (fst r) = h_bus h /\
  map fst (h_sessions (fst r)) = map fst (h_sessions h).
Proof.
  intros Hpm Hm H Hs Hv Hadd V. cbv zeta. unfold recv_event. rewrite Hs.
  change (negb (N.eqb 0 0)) with false. rewrite andb_false_r. cbn [andb].
  assert (Hstay : view_ok xr (mem_of h) (g_view g x) rest x s ->
    Jh (fst (h, @nil out)) (gouts g (snd (h, @nil out))) /\
    (exists s', get_sess (fst (h, @nil out)) x = Some s' /\ vcore s' = vcore (sess_seen s (s_seen s')) /\
                view_ok xr (mem_of (fst (h, @nil out))) (g_view (gouts g (snd (h, @nil out))) x) rest x s') /\
    (forall y, y <> x -> get_sess (fst (h, @nil out)) y = get_sess h y /\ g_view (gouts g (snd (h, @nil out))) y = g_view g y) /\
    (forall k', mem_of (fst (h, @nil out)) k' = mem_of h k') /\ h_bus (fst (h, @nil out)) = h_bus h /\
    map fst (h_sessions (fst (h, @nil out))) = map fst (h_sessions h)).
  { intros V'. cbn [fst snd gouts fold_left]. split; [exact H|]. split; [exists s; repeat split; auto|]. repeat split; auto. }
  destruct (s_room s) as [k|] eqn:Hk.
  2:{ cbn [andb]. apply Hstay. unfold view_ok in *. rewrite Hk in *. exact V. }
  cbn [andb].
  assert (Hpo : forall M, pub_op x k (s_join s) M p = if negb (p_time p <? s_join s) then Some o else None).
  { intros M. unfold pub_op. rewrite Hpm. destruct Hadd as [(b & r & Hsu & Hr)|Hsu]; rewrite Hsu.
    - assert (Hkk : (b, r) = k) by congruence. rewrite Hkk, pair_eqb_refl. cbn [andb]. now rewrite Hm.
    - rewrite N.eqb_refl. cbn [andb]. now rewrite Hm. }
  destruct (p_time p <? s_join s) eqn:Ht; cbn [negb] in Hpo.
  - apply Hstay. eapply view_ok_pop_none; [|exact V]. intros k' M Hk'. assert (k' = k) by congruence. subst k'. apply Hpo.
  - rewrite (send_event_eq h x s m Hs Hv) by congruence. apply (deliver_event xr h g x s m o k p rest); auto.
Qed.

Lemma Jg_pop_sess xr xs h g p rest : h_bus h = p :: rest ->
  (forall y s k M, get_sess h y = Some s -> is_virtual (s_kind s) = false -> s_room s = Some k -> pub_op y k (s_join s) M p = None) ->
  Jg xr xs h g -> Jg xr xs (set_bus h rest) g.
Proof.
  intros Hb Hn [H V]. split; [eapply Jh_pop; eauto|]. intros x s Hs Hv Hx. specialize (V x s Hs Hv Hx). rewrite Hb in V.
  cbn [h_bus set_bus]. eapply view_ok_pop_none; [|exact V]. intros k M Hk. eapply Hn; eauto.
Qed.

Definition roomev (b r : N) (m : smsg) (t : N) : hub -> N -> hub * list out := fun hh x => recv_event hh x m 0 false true t.

Lemma fold_room_event p rest m o b r : p_msg p = ARoomEvent m -> msg_op m = Some o -> p_subj p = SubjRoom b r ->
  forall L, NoDup L -> forall hh gg, Jh hh gg -> h_bus hh = rest ->
  (forall y, In y L -> exists s, get_sess hh y = Some s /\ is_virtual (s_kind s) = false /\ s_room s = Some (b, r)) ->
  (forall y s, get_sess hh y = Some s -> is_virtual (s_kind s) = false ->
     (In y L -> view_ok none2 (mem_of hh) (g_view gg y) (p :: rest) y s) /\
     (~ In y L -> view_ok none2 (mem_of hh) (g_view gg y) rest y s)) ->
  let res := fold_sessions hh L (roomev b r m (p_time p)) in
  Jh (fst res) (gouts gg (snd res)) /\ h_bus (fst res) = rest /\
  forall y s, get_sess (fst res) y = Some s -> is_virtual (s_kind s) = false ->
    view_ok none2 (mem_of (fst res)) (g_view (gouts gg (snd res)) y) rest y s.
Proof.
  intros Hpm Hm Hsu. induction L as [|x L IH]; intros Hnd hh gg H Hb HL HV; cbv zeta.
  - cbn [fold_sessions fold_left fst snd gouts]. split; [exact H|]. split; [exact Hb|]. intros y s Hs Hv. now apply (HV y s Hs Hv).
  - rewrite fold_sessions_cons. inversion Hnd as [|a l Hx HndL]; subst.
    destruct (HL x (or_introl eq_refl)) as (s & Hs & Hv & Hr).
    assert (Hadd : addressed p x s) by (left; exists b, r; auto).
    destruct (recv_room_event none2 hh gg x s p (h_bus hh) m o Hpm Hm H Hs Hv Hadd (proj1 (HV x s Hs Hv) (or_introl eq_refl)))
      as (H1 & (s' & Hs' & Hc' & V') & Hfr & Hmem & Hbus & _).
    change (roomev b r m (p_time p) hh x) with (recv_event hh x m 0 false true (p_time p)).
    destruct (recv_event hh x m 0 false true (p_time p)) as [h1 o1]. cbn [fst snd] in *.
    specialize (IH HndL h1 (gouts gg o1) H1 Hbus).
    assert (HL1 : forall y, In y L -> exists s0, get_sess h1 y = Some s0 /\ is_virtual (s_kind s0) = false /\ s_room s0 = Some (b, r)).
    { intros y Hy. assert (y <> x) by (intros ->; contradiction). rewrite (proj1 (Hfr y H0)). apply HL. now right. }
    assert (HV1 : forall y s0, get_sess h1 y = Some s0 -> is_virtual (s_kind s0) = false ->
       (In y L -> view_ok none2 (mem_of h1) (g_view (gouts gg o1) y) (p :: h_bus hh) y s0) /\
       (~ In y L -> view_ok none2 (mem_of h1) (g_view (gouts gg o1) y) (h_bus hh) y s0)).
    { intros y s0 Hs0 Hv0. destruct (N.eqb_spec y x) as [->|Hne].
      - assert (s0 = s') by congruence. subst s0. split; [intros Hin; contradiction|intros _; exact V'].
      - destruct (Hfr y Hne) as [Hg1 Hg2]. rewrite Hg1 in Hs0. rewrite Hg2. destruct (HV y s0 Hs0 Hv0) as [A B]. split.
        + intros Hin. eapply view_ok_ext; [exact Hmem|reflexivity|]. apply A. now right.
        + intros Hin. eapply view_ok_ext; [exact Hmem|reflexivity|]. apply B. intros [E|E]; [congruence|contradiction]. }
    specialize (IH HL1 HV1). cbv zeta in IH.
    destruct (fold_sessions h1 L (roomev b r m (p_time p))) as [h2 o2]. cbn [fst snd] in *. rewrite gouts_app. exact IH.
Qed.

(* ---- room events ---- *)
Lemma J_deliver_room_event h g p rest b r m : WF h -> J h g -> h_bus h = p :: rest -> p_subj p = SubjRoom b r -> p_msg p = ARoomEvent m ->
  let res := fold_sessions (set_bus h rest) (room_listeners (set_bus h rest) (b, r)) (fun hh x => recv_event hh x m 0 false true (p_time p)) in
  J (fst res) (gouts g (snd res)).
Proof.
  intros W [H V] Hb Hsu Hpm. cbv zeta.
  assert (Hsh : exists o, msg_op m = Some o).
  { pose proof (j_shape _ _ H p) as Hs. rewrite Hb in Hs. specialize (Hs (or_introl eq_refl)). unfold pub_shape in Hs. rewrite Hpm in Hs.
    destruct m; try contradiction; eexists; reflexivity. }
  destruct Hsh as [o Hm]. set (h0 := set_bus h rest).
  assert (H0 : Jh h0 g) by (eapply Jh_pop; eauto).
  assert (Hspec : forall y, In y (room_listeners h0 (b, r)) <-> exists s, get_sess h0 y = Some s /\ is_virtual (s_kind s) = false /\ s_room s = Some (b, r)).
  { intros y. rewrite room_listener_spec. split; intros (s & A & B & C); exists s; (split; [|auto]).
    - apply In_aget_nodup; [apply (j_keys _ _ H0)|exact A].
    - now apply aget_In. }
  pose proof (fold_room_event p rest m o b r Hpm Hm Hsu (room_listeners h0 (b, r))) as F.
  assert (Hnd : NoDup (room_listeners h0 (b, r))) by (unfold room_listeners; apply nodup_map_filter_obs, (j_keys _ _ H0)).
  specialize (F Hnd h0 g H0 eq_refl).
  assert (HL : forall y, In y (room_listeners h0 (b, r)) -> exists s, get_sess h0 y = Some s /\ is_virtual (s_kind s) = false /\ s_room s = Some (b, r)) by (intros y; apply Hspec).
  assert (HV : forall y s, get_sess h0 y = Some s -> is_virtual (s_kind s) = false ->
     (In y (room_listeners h0 (b, r)) -> view_ok none2 (mem_of h0) (g_view g y) (p :: rest) y s) /\
     (~ In y (room_listeners h0 (b, r)) -> view_ok none2 (mem_of h0) (g_view g y) rest y s)).
  { intros y s Hs Hv. pose proof (V y s Hs Hv (fun F => F)) as Vy. rewrite Hb in Vy. split; [intros _; exact Vy|].
    intros Hnin. eapply view_ok_pop_none; [|exact Vy]. intros k M Hk. unfold pub_op. rewrite Hsu, Hpm.
    destruct (pair_eqb_spec (b, r) k) as [<-|]; [|reflexivity]. exfalso. apply Hnin. apply Hspec. eauto. }
  specialize (F HL HV). cbv zeta in F. unfold roomev in F.
  destruct (fold_sessions h0 (room_listeners h0 (b, r)) (fun hh x => recv_event hh x m 0 false true (p_time p))) as [h2 o2].
  cbn [fst snd] in *. destruct F as (F1 & F2 & F3). split; [exact F1|]. rewrite F2. intros y s Hs Hv _. now apply F3.
Qed.

Lemma J_deliver_session_event h g p rest x m : J h g -> h_bus h = p :: rest -> p_subj p = SubjSession x -> p_msg p = ARoomEvent m ->
  let res := match get_sess (set_bus h rest) x with
             | Some s => if is_virtual (s_kind s) then (set_bus h rest, []) else recv_event (set_bus h rest) x m 0 false true (p_time p)
             | None => (set_bus h rest, []) end in
  J (fst res) (gouts g (snd res)).
Proof.
  intros [H V] Hb Hsu Hpm. cbv zeta.
  assert (Hsh : exists o, msg_op m = Some o).
  { pose proof (j_shape _ _ H p) as Hs. rewrite Hb in Hs. specialize (Hs (or_introl eq_refl)). unfold pub_shape in Hs. rewrite Hpm in Hs.
    destruct m; try contradiction; eexists; reflexivity. }
  destruct Hsh as [o Hm]. set (h0 := set_bus h rest).
  assert (Hother : forall y s k M, get_sess h y = Some s -> y <> x -> pub_op y k (s_join s) M p = None).
  { intros y s k M _ Hne. unfold pub_op. rewrite Hsu, Hpm. destruct (N.eqb_spec x y); [congruence|reflexivity]. }
  assert (Hpop : (forall s, get_sess h x = Some s -> is_virtual (s_kind s) = true) -> J h0 g).
  { intros Hx. apply (Jg_pop_sess none2 no1 h g p rest Hb); [|split; assumption].
    intros y s k M Hs Hv _. apply (Hother y s k M Hs). intros ->. rewrite (Hx s Hs) in Hv. discriminate. }
  change (get_sess h0 x) with (get_sess h x). destruct (get_sess h x) as [s|] eqn:Hs.
  2:{ apply Hpop. intros s Hs'. discriminate. }
  destruct (is_virtual (s_kind s)) eqn:Hv.
  { apply Hpop. intros s' Hs'. congruence. }
  assert (H0 : Jh h0 g) by (eapply Jh_pop; eauto).
  pose proof (V x s Hs Hv (fun F => F)) as Vx. rewrite Hb in Vx.
  destruct (recv_room_event none2 h0 g x s p rest m o Hpm Hm H0 Hs Hv (or_intror Hsu) Vx) as (H1 & (s' & Hs' & Hc' & V') & Hfr & Hmem & Hbus & _).
  destruct (recv_event h0 x m 0 false true (p_time p)) as [h1 o1]. cbn [fst snd] in *. split; [exact H1|].
  rewrite Hbus. intros y t Ht Hvt _. destruct (N.eqb_spec y x) as [->|Hne].
  - assert (t = s') by congruence. subst t. exact V'.
  - destruct (Hfr y Hne) as [Hg1 Hg2]. rewrite Hg1 in Ht. rewrite Hg2. eapply view_ok_ext; [exact Hmem|reflexivity|].
    eapply view_ok_pop_none; [|pose proof (V y t Ht Hvt (fun F => F)) as Vy; rewrite Hb in Vy; exact Vy].
    intros k M _. apply (Hother y t k M Ht Hne).
Qed.

(* ---- "session joined": the members of that moment are sent to the new member ---- *)
Lemma map_fst_entries (f : N -> N) l : map fst (map (fun m => (m, f m)) l) = l.
Proof. induction l as [|a l IH]; cbn; [reflexivity|now rewrite IH]. Qed.

Lemma J_deliver_asj h g p rest b r sid i : J h g -> h_bus h = p :: rest -> p_subj p = SubjBackendRoom b r ->
  p_msg p = ASessionJoined sid i ->
  J (fst (deliver_pub (set_bus h rest) p)) (gouts g (snd (deliver_pub (set_bus h rest) p))).
Proof.
  intros [H V] Hb Hsu Hpm. set (h0 := set_bus h rest). unfold deliver_pub. rewrite Hsu, Hpm.
  assert (Hother : forall y s k M, get_sess h y = Some s -> y <> sid -> pub_op y k (s_join s) M p = None).
  { intros y s k M _ Hne. unfold pub_op. rewrite Hsu, Hpm. destruct (N.eqb_spec sid y); [congruence|]. now rewrite andb_false_r. }
  assert (H0 : Jh h0 g) by (eapply Jh_pop; eauto).
  (* nothing is sent: the notice had no effect on any view *)
  assert (Hnone : (forall s M, get_sess h sid = Some s -> is_virtual (s_kind s) = false -> s_room s = Some (b, r) ->
                     mem_of h (b, r) = Some M -> filter (fun m => negb (N.eqb m sid)) M = []) -> J h0 g).
  { intros Hemp. split; [exact H0|]. intros y s Hs Hv _. pose proof (V y s Hs Hv (fun F => F)) as Vy. rewrite Hb in Vy.
    cbn [h_bus set_bus h0]. destruct (N.eqb_spec y sid) as [->|Hne].
    2:{ eapply view_ok_pop_none; [|exact Vy]. intros k M _. now apply (Hother y s k M Hs). }
    unfold view_ok in *. destruct (s_room s) as [k|] eqn:Hk; [|exact Vy].
    destruct Vy as [[]|(M & V0 & A & B & C & D)]. right. exists M, V0. repeat split; auto. intros z. specialize (D z).
    rewrite bus_ops_cons in D. unfold pub_op at 1 in D. rewrite Hsu, Hpm, N.eqb_refl, andb_true_r in D.
    destruct (pair_eqb_spec (b, r) k) as [<-|]; [|exact D].
    rewrite (Hemp s M Hs Hv Hk A) in D. exact D. }
  change (room_of h0 (b, r)) with (room_of h (b, r)). destruct (room_of h (b, r)) as [rm|] eqn:Hrm.
  2:{ apply Hnone. intros s M _ _ _ HM. unfold mem_of in HM. rewrite Hrm in HM. discriminate. }
  set (others := filter (fun m => negb (N.eqb m sid)) (r_members rm)).
  destruct others as [|e0 oth] eqn:Hoth.
  { apply Hnone. intros s M _ _ _ HM. unfold mem_of in HM. rewrite Hrm in HM. injection HM as <-. exact Hoth. }
  rewrite <- Hoth. cbn [fst snd]. rewrite gouts_nil.
  set (entries := map (fun m => (m, match get_sess h0 m with Some s => sess_userid h0 m s | None => 0 end)) others).
  set (h1 := publish h0 (SubjSession sid) (ARoomEvent (SJoin entries))).
  (* the flag notices are neutral *)
  assert (Hfl : forall l hh, Jg none2 no1 hh g ->
            Jg none2 no1 (fold_left (fun hh m => match get_sess hh m with
                                                 | Some s => if is_virtual (s_kind s) && negb (N.eqb (s_flags s) 0)
                                                             then publish hh (SubjSession sid) (AEvent (SFlags m (s_flags s)) 0 false) else hh
                                                 | None => hh end) l hh) g).
  { induction l as [|a l IH]; intros hh Hh; cbn [fold_left]; [exact Hh|]. apply IH. destruct (get_sess hh a) as [sa|]; [|exact Hh].
    destruct (is_virtual (s_kind sa) && negb (N.eqb (s_flags sa) 0)); [|exact Hh]. now apply Jg_publish_neutral. }
  apply Hfl. split.
  - apply Jh_publish; [exact H0|exact I| |]; [intros b' r' x i' s _ Hm|intros x i' Hm]; discriminate.
  - unfold h1. rewrite bus_publish. cbn [h_bus set_bus h0 h_clock set_clock]. intros y s Hs Hv _.
    change (get_sess h y = Some s) in Hs. pose proof (V y s Hs Hv (fun F => F)) as Vy. rewrite Hb in Vy.
    change (mem_of (publish h0 (SubjSession sid) (ARoomEvent (SJoin entries)))) with (mem_of h).
    destruct (N.eqb_spec y sid) as [->|Hne].
    2:{ apply view_ok_app_none.
        - intros k M _. unfold pub_op. cbn [p_subj p_msg]. destruct (N.eqb_spec sid y); [congruence|reflexivity].
        - eapply view_ok_pop_none; [|exact Vy]. intros k M _. now apply (Hother y s k M Hs). }
    unfold view_ok in *. destruct (s_room s) as [k|] eqn:Hk; [|exact Vy].
    destruct Vy as [[]|(M & V0 & A & B & C & D)]. right. exists M, V0. repeat split; auto. intros z. specialize (D z).
    destruct (j_asj _ _ H p b r sid i s ltac:(rewrite Hb; now left) Hsu Hpm Hs) as [Hn|Hkk]; [congruence|].
    assert (k = (b, r)) by congruence. subst k.
    assert (M = r_members rm) by (unfold mem_of in A; rewrite Hrm in A; cbn in A; congruence). subst M.
    rewrite bus_ops_cons in D. unfold pub_op at 1 in D. rewrite Hsu, Hpm, pair_eqb_refl, N.eqb_refl in D. cbn [andb opt_list app] in D.
    fold others in D. rewrite after_cons in D. cbn [vop_after] in D.
    rewrite bus_ops_app, bus_ops_single. unfold pub_op. cbn [p_subj p_msg p_time]. rewrite N.eqb_refl.
    assert (Ht : (h_clock h <? s_join s) = false) by (apply N.ltb_ge; eapply (j_join _ _ H); eauto).
    rewrite Ht. cbn [negb andb msg_op opt_list]. rewrite after_snoc. cbn [vop_after]. unfold entries. rewrite map_fst_entries.
    destruct (nmem z others) eqn:Ez.
    + cbn [orb]. unfold others in Ez. rewrite nmem_filter in Ez. apply andb_true_iff in Ez as [Ez _]. now rewrite Ez.
    + cbn [orb] in *. exact D.
Qed.

(* ---- plain messages through the bus ---- *)
Lemma WJ_recv_plain h g x m sender co t : msg_irr m = true -> WJ none2 no1 h g -> WJr none2 no1 g (recv_event h x m sender co false t).
Proof.
  intros Hm HW. unfold recv_event. destruct (get_sess h x) as [s|]; [|exact HW].
  destruct (N.eqb sender x && negb (N.eqb sender 0)); [exact HW|]. destruct (co && negb (in_call h x s)); [exact HW|].
  cbn [andb]. now apply WJ_send_irr.
Qed.

Lemma apply_view_room_same rn V : rn <> 0 -> apply_view (Some (rn, V)) (SRoom rn) = Some (rn, V).
Proof. intros Hrn. destruct rn as [|q]; [contradiction|]. cbn [apply_view]. now rewrite N.eqb_refl. Qed.

(* the room's properties changed: the notice names the room the receiver is in *)
Definition vsame (h h' : hub) : Prop := forall y, option_map vcore (get_sess h' y) = option_map vcore (get_sess h y).

Lemma WJ_send_room_same h g x s k : WJ none2 no1 h g -> get_sess h x = Some s -> is_virtual (s_kind s) = false ->
  s_room s = Some k -> snd k <> 0 ->
  WJr none2 no1 g (send_session h x (SRoom (snd k))) /\ vsame h (fst (send_session h x (SRoom (snd k)))).
Proof.
  intros [W [H V0]] Hs Hv Hk Hk0. rename V0 into V.
  assert (Wr : WFg none2 none1 (fst (send_session h x (SRoom (snd k))))) by now apply wf_send_session.
  rewrite send_session_eq, (target_nonvirtual h x s Hs Hv), (deliver_to_session_eq h x _ s Hs) in *. cbn [filtered seen_after] in *.
  assert (Hle : x <= h_nextsid h) by (eapply (j_live _ _ H); eauto).
  pose proof (V x s Hs Hv (fun F => F)) as Vx. unfold view_ok in Vx. rewrite Hk in Vx.
  destruct Vx as [[]|(M & V0 & A & B & C & D)].
  assert (Hsame : apply_view (Some (snd k, V0)) (SRoom (snd k)) = Some (snd k, V0)).
  { now apply apply_view_room_same. }
  assert (T : forall s7 o2, vcore s7 = vcore s -> (s_conn s7 <> None -> s_pending s7 = []) ->
            (forall m, In m (s_pending s7) -> no_hello m = true) ->
            (forall c0, g_bind (gouts g o2) c0 = g_bind g c0) -> (forall y, y <> x -> g_view (gouts g o2) y = g_view g y) ->
            replay (s_pending s7) (g_view (gouts g o2) x) = Some (snd k, V0) ->
            Jg none2 no1 (put_sess h x s7) (gouts g o2) /\ vsame h (put_sess h x s7)).
  { intros s7 o2 F1 F2 F3 Gb Gv Gr. pose proof (vcore_eq _ _ F1) as (Tk & Tb & Tr & Tc & Ts & Tj). split; [split|].
    - apply (Jh_gview _ g _ x); [|exact Gb|exact Gv|exact Hle]. apply (Jh_put h g x s s7 H Hs).
      + intros q b r i Hq Hsu Hmq. rewrite Tr. eapply (j_asj _ _ H); eauto.
      + rewrite Tj. eapply (j_join _ _ H); eauto.
      + intros k' Hk'. rewrite Tb. eapply (j_backend _ _ H); eauto. congruence.
      + exact F2.
      + exact F3.
      + intros Hvv. rewrite Tc. apply (j_vconn _ _ H x s Hs). congruence.
      + intros c0. congruence.
    - intros y t Ht Hvt _. rewrite get_put in Ht. destruct (N.eqb_spec y x) as [->|Hne].
      + injection Ht as <-. unfold view_ok. rewrite Tr, Hk. right. exists M, V0. rewrite Ts, Tj. repeat split; auto.
      + rewrite Gv by exact Hne. now apply V.
    - intros y. rewrite get_put. destruct (N.eqb_spec y x) as [->|]; [rewrite Hs; cbn; now rewrite F1|reflexivity]. }
  destruct (s_conn s) as [c0|] eqn:Hc.
  - cbn [is_closing fst snd] in *.
    assert (Hp0 : s_pending s = []) by (apply (j_pc _ _ H x s Hs); congruence).
    assert (Hb0 : g_bind g c0 = Some x) by (apply (j_bind _ _ H x s c0 Hs Hc)).
    assert (TT : Jg none2 no1 (put_sess h x s) (gouts g [ToConn c0 (SRoom (snd k))]) /\ vsame h (put_sess h x s)).
    { apply T; auto.
    + intros m. rewrite Hp0. intros [].
    + intros c1. rewrite gouts_cons, gouts_nil, (gout_msg g c0 (SRoom (snd k)) x eq_refl Hb0). reflexivity.
    + intros y Hy. rewrite gouts_cons, gouts_nil, (gout_msg g c0 (SRoom (snd k)) x eq_refl Hb0). cbn [g_view].
      destruct (N.eqb_spec y x); [contradiction|reflexivity].
    + rewrite gouts_cons, gouts_nil, (gout_msg g c0 (SRoom (snd k)) x eq_refl Hb0). cbn [g_view]. rewrite N.eqb_refl, Hp0.
      rewrite Hp0 in B. cbn [replay fold_left] in *. now rewrite B. }
    destruct TT as [T1 T2]. split; [split; assumption|exact T2].
  - cbn [fst snd] in *.
    assert (TT : Jg none2 no1 (put_sess h x (sess_pending s (enqueue (s_pending s) (SRoom (snd k))))) (gouts g []) /\
                 vsame h (put_sess h x (sess_pending s (enqueue (s_pending s) (SRoom (snd k)))))).
    { apply T; auto.
    + change (s_conn (sess_pending s (enqueue (s_pending s) (SRoom (snd k))))) with (s_conn s). rewrite Hc. intros Hn. contradiction.
    + intros m Hm. change (In m (enqueue (s_pending s) (SRoom (snd k)))) in Hm. rewrite enqueue_plain in Hm by reflexivity.
      apply in_app_iff in Hm as [Hm|[<-|[]]]; [|reflexivity]. eapply (j_nohello _ _ H x s); eauto.
    + change (replay (enqueue (s_pending s) (SRoom (snd k))) (g_view g x) = Some (snd k, V0)). rewrite enqueue_plain by reflexivity.
      rewrite replay_app, B. exact Hsame. }
    destruct TT as [T1 T2]. split; [split; assumption|exact T2].
Qed.

Lemma WJ_deliver_room_aevent h g b r m sender co t : WJ none2 no1 h g ->
  msg_irr m = true \/ (m = SRoom r /\ r <> 0) ->
  WJr none2 no1 g (fold_sessions h (room_listeners h (b, r)) (fun hh x => recv_event hh x m sender co false t)).
Proof.
  intros HW [Hm|[-> Hr0]].
  - apply WJ_fold_sessions; [|exact HW]. intros hh gg x Hh. now apply WJ_recv_plain.
  - assert (Hspec : forall y, In y (room_listeners h (b, r)) -> exists s, get_sess h y = Some s /\ is_virtual (s_kind s) = false /\ s_room s = Some (b, r)).
    { intros y Hy. apply room_listener_spec in Hy as (s & A & B & C). exists s. split; [|auto].
      apply In_aget_nodup; [apply (j_keys _ _ (proj1 (proj2 HW)))|exact A]. }
    revert Hspec. generalize (room_listeners h (b, r)) as L. intros L. revert h g HW.
    induction L as [|x L IH]; intros h g HW HL; [exact HW|].
    rewrite fold_sessions_cons.
    assert (Hstep : WJr none2 no1 g (recv_event h x (SRoom r) sender co false t) /\ vsame h (fst (recv_event h x (SRoom r) sender co false t))).
    { destruct (HL x (or_introl eq_refl)) as (s & Hs & Hv & Hk). unfold recv_event. rewrite Hs.
      destruct (N.eqb sender x && negb (N.eqb sender 0)); [split; [exact HW|intros y; reflexivity]|].
      destruct (co && negb (in_call h x s)); [split; [exact HW|intros y; reflexivity]|]. cbn [andb].
      apply (WJ_send_room_same h g x s (b, r) HW Hs Hv Hk Hr0). }
    destruct Hstep as [S1 S2]. destruct (recv_event h x (SRoom r) sender co false t) as [h1 o1]. unfold WJr in S1. cbn [fst snd] in *.
    assert (HL1 : forall y, In y L -> exists s, get_sess h1 y = Some s /\ is_virtual (s_kind s) = false /\ s_room s = Some (b, r)).
    { intros y Hy. destruct (HL y (or_intror Hy)) as (s & Hs & Hv & Hk). specialize (S2 y). rewrite Hs in S2. cbn in S2.
      destruct (get_sess h1 y) as [s1|]; [|discriminate]. cbn in S2. exists s1. split; [reflexivity|].
      assert (Hc : vcore s1 = vcore s) by congruence. apply vcore_eq in Hc as (A & _ & C & _). split; congruence. }
    specialize (IH h1 (gouts g o1) S1 HL1). destruct (fold_sessions h1 L _) as [h2 o2]. unfold WJr in *. cbn [fst snd] in *.
    now rewrite gouts_app.
Qed.

(* ---- kick through the bus, permissions ---- *)
Lemma J_deliver_kick h g sid s : WF h -> J h g -> get_sess h sid = Some s ->
  let res := (let '(h1, o1) := leave_room h sid false in
              let '(h2, o2) := send_session h1 sid (SBye B_room_session_reconnected) in
              let '(h3, o3) := close_session h2 sid in (h3, o1 ++ o2 ++ o3)) in
  J (fst res) (gouts g (snd res)).
Proof.
  intros W HJ Hs. cbv zeta. unfold J, WF in *.
  pose proof (Jg_leave_room none2 none1 no1 h g sid false W HJ) as J1. pose proof (wf_leave_room none2 none1 h sid false W) as W1.
  destruct (leave_room h sid false) as [h1 o1]. cbn [fst snd] in *.
  pose proof (Jg_send_irr none2 (or_sid no1 sid) h1 (gouts g o1) sid (SBye B_room_session_reconnected) eq_refl W1 J1) as J2.
  pose proof (wf_send_session none2 h1 sid (SBye B_room_session_reconnected) W1) as W2.
  destruct (send_session h1 sid (SBye B_room_session_reconnected)) as [h2 o2]. cbn [fst snd] in *.
  pose proof (Jg_close_session none2 none1 (or_sid no1 sid) h2 _ sid W2 J2) as J3. pose proof (close_session_gone h2 sid) as G3.
  destruct (close_session h2 sid) as [h3 o3]. cbn [fst snd] in *. rewrite !gouts_app.
  now apply Jg_drop_exempt with (sid := sid).
Qed.

(* ---- the room's handling of a request of the room API ---- *)
Lemma Jg_del_room xr xs h g k : Jg xr xs h g -> Jg (or_room xr k) xs (set_rooms h (pdel (h_rooms h) k)) g.
Proof.
  intros [H V]. split.
  - apply (Jh_fields h _ g H); try reflexivity; try apply N.le_refl. intros k' r. rewrite room_of_set_rooms, pget_pdel.
    destruct (pair_eqb k' k); [discriminate|apply (j_room0 _ _ H)].
  - intros x s Hs Hv Hx. specialize (V x s Hs Hv Hx). unfold view_ok in *. destruct (s_room s) as [k'|]; [|exact V].
    destruct (pair_eqb_spec k' k) as [->|Hne]; [left; now right|].
    destruct V as [V|(M & V0 & A & B)]; [left; now left|right]. exists M, V0. split; [|exact B].
    rewrite mem_of_set_rooms, pget_pdel. destruct (pair_eqb_spec k' k); [contradiction|exact A].
Qed.
Lemma Jg_drop_room xr xs h g k : Jg (or_room xr k) xs h g -> (forall x s, get_sess h x = Some s -> s_room s <> Some k) -> Jg xr xs h g.
Proof.
  intros [H V] Hno. split; [exact H|]. intros x s Hs Hv Hx. specialize (V x s Hs Hv Hx). unfold view_ok in *.
  destruct (s_room s) as [k'|] eqn:Hk; [|exact V]. destruct V as [[V|V]|V]; [now left| |now right].
  subst k'. exfalso. eapply Hno; eauto.
Qed.

Lemma Jg_delete_member xr xs hh gg m : WFg xr none1 hh -> Jg xr xs hh gg ->
  Jg xr xs (fst (delete_member hh m)) (gouts gg (snd (delete_member hh m))).
Proof.
  intros W HJ. unfold delete_member. destruct (get_sess hh m) as [s|] eqn:Hs; [|exact HJ].
  pose proof (Jg_leave_room xr none1 xs hh gg m true W HJ) as J1.
  destruct (leave_room_sid hh m true s Hs) as (s1 & Hs1 & Hr1 & K1 & _).
  destruct (leave_room hh m true) as [h2 o1]. cbn [fst snd] in *.
  destruct (is_virtual (s_kind s)) eqn:Hv.
  - cbn [fst snd]. destruct J1 as [H1 V1]. split; [exact H1|]. apply (Jv_drop_virtual xr xs h2 _ _ m V1).
    intros t Ht. assert (t = s1) by congruence. subst t. congruence.
  - pose proof (Jg_send_room0 xr xs h2 (gouts gg o1) m s1 J1 Hs1 Hr1 ltac:(congruence)) as J2.
    destruct (send_session h2 m (SRoom 0)) as [h3 o2]. cbn [fst snd] in *. now rewrite gouts_app.
Qed.

Lemma Jg_delete_members xs k members : forall hh gg,
  WFg (or_room none2 k) none1 hh -> room_of hh k = None -> Jg (or_room none2 k) xs hh gg ->
  Jg (or_room none2 k) xs (fst (fold_sessions hh members delete_member)) (gouts gg (snd (fold_sessions hh members delete_member))).
Proof.
  induction members as [|m members IH]; intros hh gg W Hk HJ; [exact HJ|].
  rewrite fold_sessions_cons. destruct (wf_delete_member none2 k hh m W Hk) as (W1 & Hk1 & _).
  pose proof (Jg_delete_member (or_room none2 k) xs hh gg m W HJ) as J1.
  destruct (delete_member hh m) as [h1 o1]. cbn [fst snd] in *.
  specialize (IH h1 (gouts gg o1) W1 Hk1 J1). destruct (fold_sessions h1 members delete_member) as [h2 o2]. cbn [fst snd] in *.
  now rewrite gouts_app.
Qed.

Lemma quiet_fold_left_same {A} (f : hub -> A -> hub) l : (forall hh a, same hh (f hh a)) -> forall h, same h (fold_left f l h).
Proof.
  intros Hf. induction l as [|a l IH]; intros h; cbn [fold_left]; [apply same_refl|]. eapply same_trans; [apply Hf|apply IH].
Qed.

Lemma J_room_request h g k q : WF h -> J h g -> J (fst (room_request h k q)) (gouts g (snd (room_request h k q))).
Proof.
  unfold WF, J. intros W HJ. unfold room_request. destruct (room_of h k) as [r|] eqn:Hr; [|exact HJ].
  destruct q as [|users rs|tag|l|l|ic|tag|ok|del key val]; [| | | | | | |exact HJ|apply (Jg_quiet none2 no1 h g); [now apply quiet_transient_update|exact HJ]].
  - (* delete *)
    match goal with |- context [fold_sessions h ?int ?f] => set (internals := int); set (fdel := f) end.
    assert (Q0 : quiet h (fold_sessions h internals fdel)) by (apply quiet_fold_sessions; intros hh x; now apply quiet_send_irr).
    assert (Eq0 : equiv h (fst (fold_sessions h internals fdel))).
    { apply (wf_fold_sessions (fun hh => equiv h hh)); [apply equiv_refl|].
      intros hh x Ehh. eapply equiv_trans; [exact Ehh|]. apply (equiv_send_session hh x SRoomDeleted eq_refl). }
    destruct (fold_sessions h internals fdel) as [h0 o0]. cbn [fst] in Eq0.
    pose proof (Jg_quiet none2 no1 h g (h0, o0) Q0 HJ) as J0. cbn [fst snd] in J0.
    assert (W0 : WFg none2 none1 h0) by (eapply wf_equiv; eauto).
    assert (Hr0 : room_of h0 k = Some r) by (unfold room_of; rewrite (eq_rooms _ _ Eq0); exact Hr).
    set (h1 := set_rooms h0 (pdel (h_rooms h0) k)).
    assert (W1 : WFg (or_room none2 k) none1 h1) by (apply wf_del_room; exact W0).
    assert (Hk1 : room_of h1 k = None) by (unfold h1, room_of; hsimpl; apply pget_pdel_same).
    pose proof (Jg_delete_members no1 k (r_members r) h1 (gouts g o0) W1 Hk1 (Jg_del_room _ _ _ _ k J0)) as J9.
    destruct (wf_delete_members none2 k (r_members r) h1 W1 Hk1) as (W9 & Hk9 & Hc9).
    destruct (fold_sessions h1 (r_members r) delete_member) as [h9 o9]. cbn [fst snd] in *. rewrite gouts_app.
    apply (Jg_drop_room none2 no1 h9 _ k J9).
    intros x s9 Hx Hroom. destruct (Hc9 x s9 Hx Hroom) as [Hnin [s1 [Hs1 Hr1]]].
    apply Hnin. assert (Hs0 : get_sess h0 x = Some s1) by exact Hs1.
    destruct (wf_room _ _ h0 W0 x s1 k Hs0 Hr1) as [[]|[r0 [Hr00 Hm0]]].
    rewrite Hr0 in Hr00. injection Hr00 as <-. exact Hm0.
  - exact HJ.
  - (* update *)
    destruct (N.eqb (r_props r) (tag + 1)); [exact HJ|]. cbn [fst snd]. rewrite gouts_nil.
    apply Jg_publish_neutral; [reflexivity| |].
    + cbn. split; [eapply (j_room0 _ _ (proj1 HJ)); eauto|]. exists (fst k). reflexivity.
    + eapply Jg_same; [|exact HJ]. apply (same_room_update h k r); [exact Hr|reflexivity].
  - cbn [fst snd]. rewrite gouts_nil. now apply Jg_publish_neutral.
  - (* incall *)
    match goal with |- context [fold_left ?f l (h, [])] => set (fic := f) end.
    assert (G : forall acc, quiet h acc -> quiet h (fold_left fic l acc)).
    { induction l as [|u l IH]; intros acc Hacc; cbn [fold_left]; [exact Hacc|]. apply IH.
      destruct acc as [hh oo]. unfold fic. destruct u as [[i icv] pm].
      destruct i as [n|sid|kk|n]; try exact Hacc.
      destruct (get_sess hh sid); [|exact Hacc].
      destruct (N.testbit icv 0).
      - destruct Hacc as [E I]. split; cbn [fst snd] in *; [eapply same_trans; [exact E|apply same_set_incall]|exact I].
      - pose proof (quiet_leave_call (set_incall hh k sid false) sid) as Q. destruct (leave_call (set_incall hh k sid false) sid) as [h2 o2].
        apply (quiet_seq h (hh, oo) (h2, o2) Hacc). eapply quiet_pre; [apply same_set_incall|exact Q]. }
    specialize (G (h, []) (quiet_ret h)). destruct (fold_left fic l (h, [])) as [h1 outs]. cbn [fst snd].
    pose proof (Jg_quiet none2 no1 h g (h1, outs) G HJ) as J1. cbn [fst snd] in J1. now apply Jg_publish_neutral.
  - (* incall for everybody *)
    destruct (N.testbit ic 0).
    + match goal with |- context [filter ?f (filter ?g0 (r_members r))] => set (fresh := filter f (filter g0 (r_members r))); set (joiners := filter g0 (r_members r)) end.
      destruct fresh as [|f0 fr]; [exact HJ|].
      apply (Jg_quiet none2 no1 h g); [|exact HJ].
      apply (quiet_pre h (fold_left (fun hh m => set_incall hh k m true) (f0 :: fr) h)); [apply quiet_fold_left_same; intros; apply same_set_incall|].
      apply quiet_fold_sessions. intros hh x. now apply quiet_send_irr.
    + destruct (r_incall r) eqn:Hic; [exact HJ|].
      set (h1 := set_rooms h (pset (h_rooms h) k (mkroom (r_members r) [] (r_sessdata r) (r_transient r) (r_props r)))).
      assert (E1 : same h h1) by (apply (same_room_update h k r); [exact Hr|reflexivity]).
      match goal with |- context [fold_sessions h1 ?lv leave_call] => pose proof (quiet_fold_sessions lv leave_call quiet_leave_call h1) as Q2;
        destruct (fold_sessions h1 lv leave_call) as [h2 o1] end.
      match goal with |- context [fold_sessions h2 ?lv ?f] => pose proof (quiet_fold_sessions lv f (fun hh x => quiet_send_irr hh x (SPart 1) eq_refl eq_refl) h2) as Q3;
        destruct (fold_sessions h2 lv f) as [h3 o2] end.
      apply (Jg_quiet none2 no1 h g (h3, o1 ++ o2)); [|exact HJ]. eapply quiet_pre; [exact E1|]. apply (quiet_seq h1 (h2, o1) (h3, o2) Q2 Q3).
  - cbn [fst snd]. rewrite gouts_nil. now apply Jg_publish_neutral.
Qed.

(* ---- one delivery ---- *)
Lemma shape_irr p m sender co : pub_shape p -> p_msg p = AEvent m sender co ->
  msg_irr m = true \/ exists b r, m = SRoom r /\ r <> 0 /\ p_subj p = SubjRoom b r.
Proof.
  unfold pub_shape. intros Hs Hm. rewrite Hm in Hs. destruct m; try contradiction; try (left; reflexivity).
  right. destruct Hs as [H0 [b Hb]]. eauto.
Qed.

Lemma J_deliver h g : WF h -> J h g -> J (fst (deliver_at h 0)) (gouts g (snd (deliver_at h 0))).
Proof.
  unfold WF, J. intros W HJ. unfold deliver_at. destruct (h_bus h) as [|p rest] eqn:Hb; [exact HJ|]. cbn [take_nth].
  set (h0 := set_bus h rest).
  assert (W0 : WFg none2 none1 h0) by (eapply wf_equiv; [apply equiv_bus|exact W]).
  assert (Hsh : pub_shape p) by (apply (j_shape _ _ (proj1 HJ)); rewrite Hb; now left).
  assert (Hpop : (forall sid k tj M, pub_op sid k tj M p = None) -> Jg none2 no1 h0 g).
  { intros Hn. now apply (Jg_pop_none none2 no1 h g p rest Hb Hn). }
  unfold deliver_pub.
  destruct (p_subj p) as [b r|b r|b u|sid|] eqn:Hsu; destruct (p_msg p) as [m sender co|m|x i|pm| |q] eqn:Hpm;
    try (apply Hpop; intros; unfold pub_op; rewrite Hsu, ?Hpm; reflexivity).
  - (* room, message *)
    assert (J0 : Jg none2 no1 h0 g) by (apply Hpop; intros; unfold pub_op; rewrite Hsu, ?Hpm; reflexivity).
    apply (WJ_deliver_room_aevent h0 g b r m sender co (p_time p) (conj W0 J0)).
    destruct (shape_irr p m sender co Hsh Hpm) as [Hi|(b' & r' & -> & Hr' & Hs')]; [now left|right].
    rewrite Hsu in Hs'. injection Hs' as _ <-. auto.
  - (* room, join / leave event *)
    apply (J_deliver_room_event h g p rest b r m W HJ Hb Hsu Hpm).
  - (* session joined *)
    pose proof (J_deliver_asj h g p rest b r x i HJ Hb Hsu Hpm) as JA. unfold deliver_pub in JA. rewrite Hsu, Hpm in JA. exact JA.
  - (* room request *)
    assert (J0 : Jg none2 no1 h0 g) by (apply Hpop; intros; unfold pub_op; rewrite Hsu, ?Hpm; reflexivity).
    now apply J_room_request.
  - (* user, message *)
    assert (J0 : Jg none2 no1 h0 g) by (apply Hpop; intros; unfold pub_op; rewrite Hsu, ?Hpm; reflexivity).
    apply (WJ_fold_sessions none2 no1 (user_listeners h0 b u) _); [|split; assumption].
    intros hh gg y Hh. apply WJ_recv_plain; [|exact Hh].
    destruct (shape_irr p m sender co Hsh Hpm) as [Hi|(b' & r' & _ & _ & Hs')]; [exact Hi|]. rewrite Hsu in Hs'. discriminate.
  - (* session, message *)
    assert (J0 : Jg none2 no1 h0 g) by (apply Hpop; intros; unfold pub_op; rewrite Hsu, ?Hpm; reflexivity).
    destruct (get_sess h0 sid) as [s|]; [|exact J0]. destruct (is_virtual (s_kind s)); [exact J0|].
    apply (WJ_recv_plain h0 g sid m sender co (p_time p)); [|split; assumption].
    destruct (shape_irr p m sender co Hsh Hpm) as [Hi|(b' & r' & _ & _ & Hs')]; [exact Hi|]. rewrite Hsu in Hs'. discriminate.
  - (* session, join event *)
    apply (J_deliver_session_event h g p rest sid m HJ Hb Hsu Hpm).
  - (* permissions *)
    assert (J0 : Jg none2 no1 h0 g) by (apply Hpop; intros; unfold pub_op; rewrite Hsu, ?Hpm; reflexivity).
    destruct (get_sess h0 sid) as [s|] eqn:Hs; [|exact J0]. destruct (is_virtual (s_kind s)); [exact J0|].
    apply (Jg_quiet none2 no1 h0 g); [|exact J0]. eapply quiet_pre; [|apply quiet_revoke].
    apply (same_put h0 sid s); [exact Hs|reflexivity|now apply pend_ok_eq].
  - (* kick *)
    assert (J0 : Jg none2 no1 h0 g) by (apply Hpop; intros; unfold pub_op; rewrite Hsu, ?Hpm; reflexivity).
    destruct (get_sess h0 sid) as [s|] eqn:Hs; [|exact J0]. destruct (is_virtual (s_kind s)); [exact J0|].
    now apply (J_deliver_kick h0 g sid s).
Qed.

(* ------------------------------------------------------------------ quiescent steps *)
Lemma J_drain fuel : forall h g, WF h -> J h g -> J (fst (drain fuel h)) (gouts g (snd (drain fuel h))).
Proof.
  induction fuel as [|f IH]; intros h g W HJ; cbn [drain]; [exact HJ|].
  destruct (h_bus h) eqn:Hb; [exact HJ|].
  pose proof (J_deliver h g W HJ) as J1. pose proof (wf_deliver_at h 0 W) as W1.
  destruct (deliver_at h 0) as [h1 o1]. cbn [fst snd] in *.
  specialize (IH h1 (gouts g o1) W1 J1). destruct (drain f h1) as [h2 o2]. cbn [fst snd] in *. now rewrite gouts_app.
Qed.

Lemma J_qstep h g o : WF h -> J h g -> h_bus h = [] -> J (fst (qstep h o)) (gouts g (snd (qstep h o))).
Proof.
  intros W HJ Hb. unfold qstep. pose proof (J_step h g o W HJ Hb) as J1. pose proof (wf_step h o W) as W1.
  destruct (step h o) as [h1 o1]. cbn [fst snd] in *.
  pose proof (J_drain 500 h1 (gouts g o1) W1 J1) as J2. destruct (drain 500 h1) as [h2 o2]. cbn [fst snd] in *. now rewrite gouts_app.
Qed.

(* ------------------------------------------------------------------ every quiescent history *)
Lemma J_init limits gated : J (init limits gated) g0.
Proof.
  split.
  - constructor; unfold init, get_sess, room_of; cbn; intros; try discriminate; try contradiction; try constructor.
  - intros x s Hs. unfold init, get_sess in Hs. cbn in Hs. discriminate.
Qed.

(* the bus is empty again after every step of the history (the step's cascade of publications was
   delivered completely: drain did not run out of fuel) *)
Fixpoint drained (h : hub) (ops : list op) : Prop :=
  match ops with
  | [] => True
  | o :: r => h_bus (fst (qstep h o)) = [] /\ drained (fst (qstep h o)) r
  end.
Fixpoint drainedb (h : hub) (ops : list op) : bool :=
  match ops with
  | [] => true
  | o :: r => match h_bus (fst (qstep h o)) with [] => drainedb (fst (qstep h o)) r | _ => false end
  end.
Lemma drainedb_ok ops : forall h, drainedb h ops = true -> drained h ops.
Proof.
  induction ops as [|o r IH]; intros h H; cbn [drained drainedb] in *; [exact I|].
  destruct (h_bus (fst (qstep h o))) eqn:Hb; [|discriminate]. split; [reflexivity|now apply IH].
Qed.

Lemma vrun_cons st o r : vrun st (o :: r) = vrun (vstep st o) r.
Proof. reflexivity. Qed.
Lemma vstep_fst st o : fst (vstep st o) = fst (qstep (fst st) o).
Proof. unfold vstep. destruct (qstep (fst st) o). reflexivity. Qed.
Lemma vstep_snd st o : snd (vstep st o) = gouts (snd st) (snd (qstep (fst st) o)).
Proof. unfold vstep. destruct (qstep (fst st) o). reflexivity. Qed.

Lemma vrun_hub ops : forall st, fst (vrun st ops) = qrun (fst st) ops.
Proof.
  induction ops as [|o r IH]; intros st; [reflexivity|]. rewrite vrun_cons, IH, vstep_fst. reflexivity.
Qed.

Theorem J_vrun ops : forall h g, WF h -> J h g -> h_bus h = [] -> drained h ops ->
  J (fst (vrun (h, g) ops)) (snd (vrun (h, g) ops)) /\ h_bus (fst (vrun (h, g) ops)) = [].
Proof.
  induction ops as [|o r IH]; intros h g W HJ Hb Hd; [split; assumption|].
  destruct Hd as [Hd1 Hd2]. rewrite vrun_cons.
  pose proof (J_qstep h g o W HJ Hb) as J1. pose proof (wf_qstep h o W) as W1.
  destruct (vstep (h, g) o) as [h1 g1] eqn:Hv.
  assert (E1 : h1 = fst (qstep h o)) by (change h1 with (fst (h1, g1)); rewrite <- Hv; apply vstep_fst).
  assert (E2 : g1 = gouts g (snd (qstep h o))) by (change g1 with (snd (h1, g1)); rewrite <- Hv; apply vstep_snd).
  subst h1 g1. now apply IH.
Qed.

(* ------------------------------------------------------------------ the statement of the property *)
Definition set_eq (a b : list N) : Prop := forall z, In z a <-> In z b.

(* what the session reconstructs is the member list of its room; in no room: no view *)
Definition observer_ok (h : hub) (v : view) (s : session) : Prop :=
  match s_room s with
  | Some k => exists r V, room_of h k = Some r /\ v = Some (snd k, V) /\ set_eq V (r_members r)
  | None => v = None
  end.

(* every live client session with a connection *)
Definition observers_converged (h : hub) (g : ghost) : Prop :=
  forall sid s c, get_sess h sid = Some s -> is_virtual (s_kind s) = false -> s_conn s = Some c ->
    observer_ok h (g_view g sid) s.
(* ... and every disconnected one, once it has resumed and received what was queued for it *)
Definition observers_converged_queued (h : hub) (g : ghost) : Prop :=
  forall sid s, get_sess h sid = Some s -> is_virtual (s_kind s) = false ->
    observer_ok h (replay (s_pending s) (g_view g sid)) s.

Lemma nmem_set_eq a b : (forall z, nmem z a = nmem z b) -> set_eq a b.
Proof. intros H z. rewrite <- !nmem_In, H. reflexivity. Qed.

Lemma J_observers_queued h g : J h g -> h_bus h = [] -> observers_converged_queued h g.
Proof.
  intros [H V] Hb sid s Hs Hv. specialize (V sid s Hs Hv (fun F => F)). rewrite Hb in V. unfold view_ok, observer_ok in *.
  destruct (s_room s) as [k|]; [|exact V]. destruct V as [[]|(M & V0 & A & B & C & D)].
  apply mem_of_some in A as (r & Hr & <-). exists r, V0. split; [exact Hr|]. split; [exact B|].
  apply nmem_set_eq. intros z. exact (D z).
Qed.
Lemma J_observers h g : J h g -> h_bus h = [] -> observers_converged h g.
Proof.
  intros HJ Hb sid s c Hs Hv Hc. pose proof (J_observers_queued h g HJ Hb sid s Hs Hv) as O.
  rewrite (j_pc _ _ (proj1 HJ) sid s Hs) in O by congruence. exact O.
Qed.

Theorem observers_converge_quiescent limits gated ops :
  drained (init limits gated) ops ->
  let st := vrun (init limits gated, g0) ops in
  fst st = qrun (init limits gated) ops /\ observers_converged (fst st) (snd st) /\ observers_converged_queued (fst st) (snd st).
Proof.
  intros Hd. cbv zeta. split; [apply (vrun_hub ops (init limits gated, g0))|].
  destruct (J_vrun ops (init limits gated) g0 (wf_init limits gated) (J_init limits gated) eq_refl Hd) as [HJ Hb].
  split; [now apply J_observers|now apply J_observers_queued].
Qed.

(* the invariant itself, for reference: it also holds after every single delivery in publication order *)
Theorem observers_invariant_quiescent limits gated ops :
  drained (init limits gated) ops -> J (fst (vrun (init limits gated, g0) ops)) (snd (vrun (init limits gated, g0) ops)).
Proof. intros Hd. apply (J_vrun ops (init limits gated) g0 (wf_init limits gated) (J_init limits gated) eq_refl Hd). Qed.

(* ------------------------------------------------------------------ the hypothesis is satisfiable; what is not true *)
Definition views_of (st : hub * ghost) : list (N * view * option (N * N)) :=
  map (fun e => (fst e, g_view (snd st) (fst e), s_room (snd e))) (h_sessions (fst st)).
Definition members_of (h : hub) : list ((N * N) * list N) := map (fun e => (fst e, r_members (snd e))) (h_rooms h).

(* three clients and an internal client with virtual sessions: joins, a room change, a drop and a resume,
   a takeover of a Nextcloud session id (the previous holder is removed), a room deletion, expiry *)
Definition obs_ops : list op :=
  [OConnect 1 0; OConnect 2 0; OConnect 3 0; OConnect 4 0;
   OHello 1 (HV1 0 1 false); OHello 2 (HV1 0 2 false); OHello 3 (HV1 0 3 false); OHello 4 (HInternal 0 0 true false);
   OJoin 1 5 11 (RepOk None 0); OJoin 2 5 12 (RepOk None 0); OJoin 3 5 13 (RepOk None 0);
   OInternal 4 (IAdd 7 5 70 None None);
   ODrop 2; OJoin 3 6 0 (RepOk None 0); OInternal 4 (IAdd 8 5 80 (Some 1) None); OInternal 4 (IRemove 7 5);
   OConnect 5 0; OHello 5 (HResume (IdPriv 2));
   OConnect 6 0; OHello 6 (HV1 0 6 false); OJoin 6 5 11 (RepOk None 0);
   OApi 0 0 6 ADelete; OTick 100].

Example obs_ops_drained : drained (init [0; 0] false) obs_ops.
Proof. apply drainedb_ok. vm_compute. reflexivity. Qed.
Example obs_ops_views :
  views_of (vrun (init [0; 0] false, g0) obs_ops) =
    [(2, Some (5, [2; 6; 7]), Some (0, 5)); (3, None, None); (4, None, None); (6, None, Some (0, 5)); (7, Some (5, [7; 2; 6]), Some (0, 5))] /\
  members_of (fst (vrun (init [0; 0] false, g0) obs_ops)) = [((0, 5), [2; 6; 7])].
Proof. vm_compute. split; reflexivity. Qed.

(* Publication order alone is NOT enough (mode 2: explicit deliveries, every one of the first queued
   publication): a client that joins room 5 and changes to room 6 before its "session joined" notice
   for room 5 was processed is sent the members of room 5 afterwards and keeps them: the notice does
   not name the room, and its time stamp is later than the second join.  The bus is empty at the end. *)
Definition stale_snapshot_ops : list op :=
  [OConnect 1 0; OConnect 2 0; OHello 1 (HV1 0 1 false); OHello 2 (HV1 0 2 false);
   OJoin 2 5 0 (RepOk None 0); ODeliver 0; ODeliver 0;
   OJoin 1 5 0 (RepOk None 0); OJoin 1 6 0 (RepOk None 0);
   ODeliver 0; ODeliver 0; ODeliver 0; ODeliver 0; ODeliver 0; ODeliver 0].

Lemma observers_fifo_refuted :
  exists ops, Forall (fun o => match o with ODeliver pos => pos = 0 | _ => True end) ops /\
              h_bus (run_mode 2 (init [0; 0] false) ops) = [] /\
              P_hub 4 (model_case 2 [0; 0] ops) = Some (14, 2).
Proof.
  exists stale_snapshot_ops. split; [repeat constructor|]. split; vm_compute; reflexivity.
Qed.

(* The same effect inside the quiescent semantics when a step leaves publications behind (drain has
   fuel for 500 deliveries; one request of the room API can publish more): the next steps start with a
   bus that is not empty.  An artefact of the fuel, the reason for the hypothesis "drained". *)
Definition fuel_ops : list op :=
  [OConnect 1 0; OConnect 2 0; OHello 1 (HV1 0 1 false); OHello 2 (HV1 0 2 false);
   OJoin 2 5 0 (RepOk None 0); OApi 0 0 9 (ADisinvite (map N.of_nat (seq 1000 1100)) []);
   OJoin 1 5 0 (RepOk None 0); OJoin 1 6 0 (RepOk None 0)].

Lemma observers_quiescent_without_drained_refuted :
  h_bus (qrun (init [0; 0] false) fuel_ops) = [] /\ drainedb (init [0; 0] false) fuel_ops = false /\
  views_of (vrun (init [0; 0] false, g0) fuel_ops) = [(1, Some (6, [1; 2]), Some (0, 6)); (2, Some (5, [2]), Some (0, 5))] /\
  members_of (fst (vrun (init [0; 0] false, g0) fuel_ops)) = [((0, 5), [2]); ((0, 6), [1])].
Proof. vm_compute. repeat split; reflexivity. Qed.

(* ------------------------------------------------------------------ explicit deliveries in publication order *)
(* Histories with explicit deliveries (run), every one of them of the FIRST queued publication.  The
   invariant survives every such history in which no session's join request is processed while a
   "session joined" notice for that same session is still queued (observers_fifo_refuted: the
   exclusion is needed); the quiescent histories are the special case "nothing is queued". *)
Definition vstep2 (st : hub * ghost) (o : op) : hub * ghost :=
  let '(h', outs) := step (fst st) o in (h', gouts (snd st) outs).
Definition vrun2 (st : hub * ghost) (ops : list op) : hub * ghost := fold_left vstep2 ops st.

Fixpoint fifo_guarded (h : hub) (ops : list op) : Prop :=
  match ops with
  | [] => True
  | o :: r => (forall pos, o = ODeliver pos -> pos = 0) /\ join_guard h o /\ fifo_guarded (fst (step h o)) r
  end.

Lemma J_step_fifo h g o : WF h -> J h g -> (forall pos, o = ODeliver pos -> pos = 0) -> join_guard h o ->
  J (fst (step h o)) (gouts g (snd (step h o))).
Proof.
  intros W HJ Hp Hq. destruct o; try (apply J_step_gen; auto; intros pos' E; discriminate E).
  rewrite (Hp pos eq_refl). cbn [step]. now apply J_deliver.
Qed.

Lemma vrun2_hub ops : forall st, fst (vrun2 st ops) = run (fst st) ops.
Proof.
  induction ops as [|o r IH]; intros st; [reflexivity|]. cbn [vrun2 fold_left run]. fold (vrun2 (vstep2 st o) r). rewrite IH.
  unfold vstep2. destruct (step (fst st) o). reflexivity.
Qed.

Theorem J_vrun2 ops : forall h g, WF h -> J h g -> fifo_guarded h ops -> J (fst (vrun2 (h, g) ops)) (snd (vrun2 (h, g) ops)).
Proof.
  induction ops as [|o r IH]; intros h g W HJ Hg; [exact HJ|]. destruct Hg as (Hp & Hq & Hr).
  cbn [vrun2 fold_left]. fold (vrun2 (vstep2 (h, g) o) r).
  pose proof (J_step_fifo h g o W HJ Hp Hq) as J1. pose proof (wf_step h o W) as W1.
  unfold vstep2. cbn [fst snd]. destruct (step h o) as [h1 o1]. cbn [fst snd] in *. now apply IH.
Qed.

Theorem observers_converge_fifo_guarded limits gated ops :
  fifo_guarded (init limits gated) ops ->
  let st := vrun2 (init limits gated, g0) ops in
  fst st = run (init limits gated) ops /\
  (h_bus (fst st) = [] -> observers_converged (fst st) (snd st) /\ observers_converged_queued (fst st) (snd st)).
Proof.
  intros Hg. cbv zeta. split; [apply (vrun2_hub ops (init limits gated, g0))|]. intros Hb.
  pose proof (J_vrun2 ops (init limits gated) g0 (wf_init limits gated) (J_init limits gated) Hg) as HJ.
  split; [now apply J_observers|now apply J_observers_queued].
Qed.

(* the quiescent semantics without a bound on the number of deliveries: every request finds the bus empty *)
Fixpoint fully_drained (h : hub) (ops : list op) : Prop :=
  match ops with
  | [] => True
  | o :: r => match o with ODeliver pos => pos = 0 | _ => h_bus h = [] end /\ fully_drained (fst (step h o)) r
  end.
Lemma fully_drained_guarded ops : forall h, fully_drained h ops -> fifo_guarded h ops.
Proof.
  induction ops as [|o r IH]; intros h H; cbn [fully_drained fifo_guarded] in *; [exact I|]. destruct H as [H1 H2].
  split; [|split; [|now apply IH]].
  - intros pos ->. exact H1.
  - destruct o; try exact I. intros cn sid _ _ p. rewrite H1. intros [].
Qed.

Corollary observers_converge_fully_drained limits gated ops :
  fully_drained (init limits gated) ops ->
  let st := vrun2 (init limits gated, g0) ops in
  fst st = run (init limits gated) ops /\
  (h_bus (fst st) = [] -> observers_converged (fst st) (snd st) /\ observers_converged_queued (fst st) (snd st)).
Proof. intros H. apply observers_converge_fifo_guarded. now apply fully_drained_guarded. Qed.

(* the history of the existing refutation for ARBITRARY delivery orders in the order a FIFO bus produces,
   with more requests between the deliveries: guarded *)
Definition fifo_ops : list op :=
  [OConnect 1 0; OConnect 2 0; OConnect 3 0; OHello 1 (HV1 0 1 false); OHello 2 (HV1 0 2 false); OHello 3 (HV1 0 3 false);
   OJoin 1 1 1 (RepOk None 0); ODeliver 0; ODeliver 0;
   OJoin 2 1 2 (RepOk None 0); ODeliver 0; OMsg 1 RRoom 9; OJoin 3 1 3 (RepOk None 0); ODeliver 0; ODeliver 0; ODeliver 0;
   ODeliver 0; ODeliver 0; ODeliver 0;
   OJoin 2 0 0 (RepOk None 0); OBye 3; ODeliver 0; ODeliver 0].
Definition join_guardb (h : hub) (o : op) : bool :=
  match o with
  | OJoin c _ _ _ => match aget (h_conns h) c with
                     | Some cn => match c_sess cn with
                                  | Some sid => forallb (fun p => match p_msg p with ASessionJoined x _ => negb (N.eqb x sid) | _ => true end) (h_bus h)
                                  | None => true end
                     | None => true end
  | _ => true
  end.
Fixpoint fifo_guardedb (h : hub) (ops : list op) : bool :=
  match ops with
  | [] => true
  | o :: r => (match o with ODeliver pos => N.eqb pos 0 | _ => true end) && join_guardb h o && fifo_guardedb (fst (step h o)) r
  end.
Lemma join_guardb_ok h o : join_guardb h o = true -> join_guard h o.
Proof.
  destruct o; try (intros _; exact I). cbn [join_guardb join_guard]. intros H cn sid Hc Hs p Hp i Hm. rewrite Hc, Hs in H.
  rewrite forallb_forall in H. specialize (H p Hp). rewrite Hm, N.eqb_refl in H. discriminate.
Qed.
Lemma fifo_guardedb_ok ops : forall h, fifo_guardedb h ops = true -> fifo_guarded h ops.
Proof.
  induction ops as [|o r IH]; intros h H; cbn [fifo_guarded fifo_guardedb] in *; [exact I|].
  apply andb_true_iff in H as [H H3]. apply andb_true_iff in H as [H1 H2]. split; [|split; [now apply join_guardb_ok|now apply IH]].
  intros pos ->. now apply N.eqb_eq.
Qed.
Example fifo_ops_guarded : fifo_guarded (init [0; 0] false) fifo_ops /\ h_bus (run (init [0; 0] false) fifo_ops) = [] /\
  views_of (vrun2 (init [0; 0] false, g0) fifo_ops) = [(1, Some (1, [1]), Some (0, 1)); (2, None, None)].
Proof. split; [apply fifo_guardedb_ok; vm_compute; reflexivity|]. vm_compute. split; reflexivity. Qed.
(* ... and the history of observers_fifo_refuted is not *)
Example stale_snapshot_not_guarded : fifo_guardedb (init [0; 0] false) stale_snapshot_ops = false.
Proof. vm_compute. reflexivity. Qed.

(* the trace predicate of the harness (corr/Hub_preds.observers_ok, with its own attribution of the
   messages to sessions) judges the model's quiescent trace of that history the same way *)
Example obs_ops_trace_predicate : P_hub 4 (model_case 1 [0; 0] obs_ops) = None.
Proof. vm_compute. reflexivity. Qed.

(* Summary
   Jg / J                                   the invariant (hub-level part Jh, per-session part view_ok)
   J_step_gen, J_step                       every request preserves it (a join: no "session joined" notice for the same session queued)
   J_deliver                                every delivery of the first queued publication preserves it
   J_drain, J_qstep, J_vrun                 quiescent steps and histories
   observers_converge_quiescent             C04, observer side, quiescent semantics (hypothesis: drained)
   observers_converge_fifo_guarded          the same for explicit deliveries in publication order, with the exclusion
   observers_fifo_refuted                   publication order alone is not enough (stale "session joined" notice)
   observers_quiescent_without_drained_refuted   the fuel of drain: why "drained" is assumed *)
