(* Media objects of the hub model, for every history (C08, C09):
   - Own:   every object open at the media server is held by a live session;
   - Held:  every object a live session holds is open (so: open = held);
   - NoDup: no object is open twice, a session has at most one publisher per stream type,
            an object sits in exactly one slot of exactly one session;
   - Hold:  every publisher of a live non-virtual session is allowed by the session's current
            permissions (the statement revoke / finish_create / the offer check enforce).
   Organisation as in Hub_wf.v: a relation `Rel` between the state before and after that every
   model function not creating objects satisfies (it may close sessions and release objects),
   proved once per function; direct lemmas for the functions that create objects. *)
From Coq Require Import List NArith Bool Lia.
From Verif Require Import model.Hub proofs.Hub_basics proofs.Hub_wf.
Import ListNotations.
Open Scope N_scope.

(* ------------------------------------------------------------------ definitions *)
Definition toks (s : session) : list N := map snd s.(s_pubs) ++ map snd s.(s_subs).
Definition media_of (pm : list (N * N)) (tok : N) : N := match aget pm tok with Some m => m | None => 0 end.
Definition pend_keys (h : hub) : list N := map fst h.(h_mcupending).

(* every open object has a live owner *)
Definition Own (h : hub) : Prop :=
  forall tok, In tok h.(h_mcuopen) -> exists sid s, get_sess h sid = Some s /\ In tok (toks s).
(* every object in a session's tables is open *)
Definition Held (h : hub) : Prop :=
  forall sid s tok, get_sess h sid = Some s -> In tok (toks s) -> In tok h.(h_mcuopen).

(* a publisher is allowed by the permissions: the model's own offer check, applied to the media
   bits recorded for the publisher *)
Definition sess_hold (s : session) : Prop :=
  forall stream tok, In (stream, tok) s.(s_pubs) ->
    offer_allowed s.(s_perms) stream (media_of s.(s_pubmedia) tok) = true.
Definition Hold (h : hub) : Prop :=
  forall sid s, get_sess h sid = Some s -> is_virtual s.(s_kind) = false -> sess_hold s.

(* tokens: handed out in increasing order; a token is pending or (possibly) held, never both *)
Record TokInv (h : hub) : Prop := {
  ti_held : forall sid s tok, get_sess h sid = Some s -> In tok (toks s) ->
              tok <= h_mcutok h /\ ~ In tok (pend_keys h);
  ti_pend : forall tok, In tok (pend_keys h) -> tok <= h_mcutok h;
}.

Record Uniq (h : hub) : Prop := {
  u_keys : forall sid s, get_sess h sid = Some s -> NoDup (map fst s.(s_pubs));
  u_skeys : forall sid s, get_sess h sid = Some s -> NoDup (map fst s.(s_subs));
  u_slot : forall sid s, get_sess h sid = Some s -> NoDup (toks s);
  u_sess : forall sid1 sid2 s1 s2 tok, get_sess h sid1 = Some s1 -> get_sess h sid2 = Some s2 ->
              In tok (toks s1) -> In tok (toks s2) -> sid1 = sid2;
}.

Record Inv (h : hub) : Prop := {
  i_own : Own h;
  i_held : Held h;
  i_nodup : NoDup h.(h_mcuopen);
  i_tok : TokInv h;
  i_uniq : Uniq h;
  i_hold : Hold h;
}.

(* ------------------------------------------------------------------ lists *)
Lemma filter_true {A} (l : list A) : filter (fun _ => true) l = l.
Proof. induction l as [|x l IH]; cbn; [reflexivity|now rewrite IH]. Qed.
Lemma filter_filter {A} (f g : A -> bool) (l : list A) :
  filter f (filter g l) = filter (fun x => g x && f x) l.
Proof.
  induction l as [|x l IH]; cbn; [reflexivity|]. destruct (g x); cbn; [destruct (f x); now rewrite IH|assumption].
Qed.
Lemma filter_nil_of {A} (f : A -> bool) (l : list A) : l = [] -> filter f l = [].
Proof. intros ->. reflexivity. Qed.

Lemma NoDup_map_filter {A B} (g : A -> B) (f : A -> bool) (l : list A) :
  NoDup (map g l) -> NoDup (map g (filter f l)).
Proof.
  induction l as [|x l IH]; cbn; intros H; [constructor|]. inversion H as [|? ? Hx Hl]; subst.
  destruct (f x); cbn; [constructor|]; auto.
  intros Hin. apply Hx. apply in_map_iff in Hin as [y [Hy Hin]]. apply filter_In in Hin as [Hin _].
  apply in_map_iff. eauto.
Qed.
Lemma in_map_filter {A B} (g : A -> B) (f : A -> bool) (l : list A) y :
  In y (map g (filter f l)) -> In y (map g l).
Proof.
  intros Hin. apply in_map_iff in Hin as [x [Hx Hin]]. apply filter_In in Hin as [Hin _]. apply in_map_iff. eauto.
Qed.
Lemma NoDup_app_filter {A B} (g : A -> B) (f : A -> bool) (l : list A) (r : list B) :
  NoDup (map g l ++ r) -> NoDup (map g (filter f l) ++ r).
Proof.
  induction l as [|x l IH]; cbn; intros H; [assumption|]. inversion H as [|? ? Hx Hl]; subst.
  destruct (f x); cbn; [constructor|]; auto.
  intros Hin. apply Hx. apply in_app_or in Hin as [Hin|Hin]; apply in_or_app; [left; eapply in_map_filter; eauto|now right].
Qed.
(* an element of the part filtered out does not occur in the rest *)
Lemma NoDup_filter_split {A B} (g : A -> B) (f : A -> bool) (l : list A) (r : list B) y :
  NoDup (map g l ++ r) -> In y (map g (filter f l)) -> In y (map g (filter (fun x => negb (f x)) l) ++ r) -> False.
Proof.
  induction l as [|x l IH]; cbn; intros H H1 H2; [destruct H1|]. inversion H as [|? ? Hx Hl]; subst.
  destruct (f x); cbn in *.
  - destruct H1 as [<-|H1]; [|eauto]. apply Hx.
    apply in_app_or in H2 as [H2|H2]; apply in_or_app; [left; eapply in_map_filter; eauto|now right].
  - destruct H2 as [<-|H2]; [|eauto]. apply Hx. apply in_or_app. left. eapply in_map_filter; eauto.
Qed.

Lemma NoDup_nrem x l : NoDup l -> NoDup (nrem x l).
Proof.
  induction l as [|y l IH]; cbn; intros H; [constructor|]. inversion H as [|? ? Hy Hl]; subst.
  destruct (N.eqb x y); [auto|]. constructor; [|auto]. intros Hin. apply Hy. eapply in_nrem; eauto.
Qed.
Lemma in_fold_nrem t ts : forall opn,
  In t (fold_left (fun acc x => nrem x acc) ts opn) <-> In t opn /\ ~ In t ts.
Proof.
  induction ts as [|x ts IH]; intros opn; cbn [fold_left].
  - cbn. tauto.
  - rewrite IH. split.
    + intros [H1 H2]. split; [eapply in_nrem; eauto|]. intros [<-|H3]; [|contradiction]. eapply in_nrem_ne; eauto.
    + intros [H1 H2]. split; [|intros H3; apply H2; now right].
      apply nmem_In. rewrite nmem_nrem. apply nmem_In in H1. rewrite H1.
      destruct (N.eqb_spec t x) as [->|]; [exfalso; apply H2; now left|reflexivity].
Qed.
Lemma NoDup_fold_nrem ts : forall opn, NoDup opn -> NoDup (fold_left (fun acc x => nrem x acc) ts opn).
Proof. induction ts as [|x ts IH]; intros opn H; cbn [fold_left]; [assumption|]. apply IH. now apply NoDup_nrem. Qed.

Lemma aset_new {V} (l : alist V) k v : aget l k = None -> aset l k v = l ++ [(k, v)].
Proof.
  induction l as [|[k' v'] r IH]; cbn; [reflexivity|]. destruct (N.eqb k k'); [discriminate|]. intros H. now rewrite IH.
Qed.
Lemma pset_new {V} (l : list ((N * N) * V)) k v : pget l k = None -> pset l k v = l ++ [(k, v)].
Proof.
  induction l as [|[k' v'] r IH]; cbn; [reflexivity|]. destruct (pair_eqb k k'); [discriminate|]. intros H. now rewrite IH.
Qed.
Lemma aget_none_keys {V} (l : alist V) k : aget l k = None -> ~ In k (map fst l).
Proof.
  induction l as [|[k' v'] r IH]; cbn; [tauto|]. destruct (N.eqb_spec k k'); [discriminate|].
  intros H [H1|H1]; [congruence|now apply IH].
Qed.
Lemma aget_some_keys {V} (l : alist V) k v : aget l k = Some v -> In k (map fst l).
Proof. intros H. apply aget_In in H. apply in_map_iff. exists (k, v). auto. Qed.
Lemma pget_none_keys {V} (l : list ((N * N) * V)) k : pget l k = None -> ~ In k (map fst l).
Proof.
  induction l as [|[k' v'] r IH]; cbn; [tauto|]. destruct (pair_eqb_spec k k'); [discriminate|].
  intros H [H1|H1]; [congruence|now apply IH].
Qed.
Lemma in_keys_adel {V} (l : alist V) k k' : In k' (map fst (adel l k)) -> In k' (map fst l) /\ k' <> k.
Proof.
  induction l as [|[k0 v0] r IH]; cbn; [tauto|]. destruct (N.eqb_spec k k0) as [->|Hne].
  - intros H. destruct (IH H). auto.
  - cbn. intros [<-|H]; [split; [now left|congruence]|]. destruct (IH H). auto.
Qed.

(* ------------------------------------------------------------------ permissions *)
Lemma testbit_land3_0 m : N.testbit (N.land m 3) 0 = N.testbit m 0.
Proof. rewrite N.land_spec. cbn. apply andb_true_r. Qed.
Lemma testbit_land3_1 m : N.testbit (N.land m 3) 1 = N.testbit m 1.
Proof. rewrite N.land_spec. cbn. apply andb_true_r. Qed.
Lemma offer_allowed_land p stream m : offer_allowed p stream (N.land m 3) = offer_allowed p stream m.
Proof. unfold offer_allowed. now rewrite testbit_land3_0, testbit_land3_1. Qed.
(* the decision does not depend on which non-screen stream is asked for *)
Lemma offer_allowed_stream p st st' m : st <> 2 -> st' <> 2 -> offer_allowed p st m = offer_allowed p st' m.
Proof. intros H1 H2. unfold offer_allowed. destruct (N.eqb_spec st 2); [contradiction|]. destruct (N.eqb_spec st' 2); [contradiction|]. reflexivity. Qed.
Lemma offer_allowed_screen p m m' : offer_allowed p 2 m = offer_allowed p 2 m'.
Proof. reflexivity. Qed.

(* revoke's `bad` is the negation of the offer check *)
Definition pub_bad (p : option N) (pm : list (N * N)) (e : N * N) : bool :=
  let '(stream, tok) := e in
  if N.eqb stream 2 then negb (has_perm p P_SCREEN)
  else negb (has_perm p P_MEDIA) &&
       ((N.testbit (media_of pm tok) 0 && negb (has_perm p P_AUDIO)) ||
        (N.testbit (media_of pm tok) 1 && negb (has_perm p P_VIDEO))).
Lemma pub_bad_spec p pm stream tok :
  pub_bad p pm (stream, tok) = negb (offer_allowed p stream (media_of pm tok)).
Proof.
  unfold pub_bad, offer_allowed. destruct (N.eqb stream 2); [reflexivity|].
  destruct (has_perm p P_MEDIA), (has_perm p P_AUDIO), (has_perm p P_VIDEO),
    (N.testbit (media_of pm tok) 0), (N.testbit (media_of pm tok) 1); reflexivity.
Qed.

(* ------------------------------------------------------------------ sessions *)
Lemma get_put h sid s x : get_sess (put_sess h sid s) x = if N.eqb x sid then Some s else get_sess h x.
Proof. unfold get_sess, put_sess. hsimpl. apply aget_aset. Qed.

Lemma some_inj {A} (a b : A) : Some a = Some b -> a = b.
Proof. intros H. now inversion H. Qed.
Lemma get_put_eq h sid s : get_sess (put_sess h sid s) sid = Some s.
Proof. now rewrite get_put, N.eqb_refl. Qed.

Definition mcore (s : session) := (s.(s_kind), s.(s_perms), s.(s_pubs), s.(s_subs), s.(s_pubmedia)).
Arguments mcore : simpl never.
Lemma mcore_eq s s' : mcore s' = mcore s ->
  s_kind s' = s_kind s /\ s_perms s' = s_perms s /\ s_pubs s' = s_pubs s /\ s_subs s' = s_subs s /\ s_pubmedia s' = s_pubmedia s.
Proof. unfold mcore. intros H. inversion H. auto. Qed.
Lemma toks_nil s : s_pubs s = [] -> s_subs s = [] -> toks s = [].
Proof. unfold toks. intros -> ->. reflexivity. Qed.
Lemma toks_nil_inv s : toks s = [] -> s_pubs s = [] /\ s_subs s = [].
Proof.
  unfold toks. intros H. apply app_eq_nil in H as [H1 H2].
  split; [destruct (s_pubs s)|destruct (s_subs s)]; try reflexivity; discriminate.
Qed.

(* ------------------------------------------------------------------ the relation *)
(* xs: sessions whose permissions may have changed *)
Record Rel (xs : N -> Prop) (h h' : hub) : Prop := {
  r_tok : h_mcutok h' = h_mcutok h;
  r_pend : incl (h_mcupending h') (h_mcupending h);
  r_open : incl (h_mcuopen h') (h_mcuopen h);
  r_nodup : NoDup (h_mcuopen h) -> NoDup (h_mcuopen h');
  r_sess : forall sid s', get_sess h' sid = Some s' ->
     toks s' = [] \/
     exists s f, get_sess h sid = Some s /\ s_kind s' = s_kind s /\
                 s_pubs s' = filter f (s_pubs s) /\ s_subs s' = s_subs s /\ s_pubmedia s' = s_pubmedia s /\
                 (s_perms s' = s_perms s \/ xs sid);
  r_own : forall tok sid s, In tok (h_mcuopen h') -> get_sess h sid = Some s -> In tok (toks s) ->
     exists s', get_sess h' sid = Some s' /\ In tok (toks s');
  r_held : Uniq h -> forall tok sid s', get_sess h' sid = Some s' -> In tok (toks s') ->
     In tok (h_mcuopen h) -> In tok (h_mcuopen h');
}.

Lemma rel_weaken (xs xs' : N -> Prop) h h' : (forall x, xs x -> xs' x) -> Rel xs h h' -> Rel xs' h h'.
Proof.
  intros Hx R. constructor; try apply R.
  intros sid s' Hs'. destruct (r_sess _ _ _ R sid s' Hs') as [He|(s & f & Hs & Hk & Hp & Hsu & Hpm & Hpe)]; [now left|right].
  exists s, f. repeat split; auto. destruct Hpe; auto.
Qed.

Lemma rel_refl xs h : Rel xs h h.
Proof.
  constructor; auto using incl_refl.
  - intros sid s' Hs'. right. exists s', (fun _ => true). rewrite filter_true. repeat split; auto.
  - intros tok sid s _ Hs Hin. eauto.
Qed.

Lemma toks_filter_in s s' f tok :
  s_pubs s' = filter f (s_pubs s) -> s_subs s' = s_subs s -> In tok (toks s') -> In tok (toks s).
Proof.
  unfold toks. intros -> ->. intros H. apply in_app_or in H as [H|H]; apply in_or_app; [left; eapply in_map_filter; eauto|now right].
Qed.

(* what the relation keeps of the uniqueness invariant *)
Lemma uniq_rel xs h h' : Rel xs h h' -> Uniq h -> Uniq h'.
Proof.
  intros R U. constructor.
  - intros sid s' Hs'. destruct (r_sess _ _ _ R sid s' Hs') as [He|(s & f & Hs & Hk & Hp & Hsu & Hpm & Hpe)].
    + apply toks_nil_inv in He as [-> _]. constructor.
    + rewrite Hp. apply NoDup_map_filter. eapply u_keys; eauto.
  - intros sid s' Hs'. destruct (r_sess _ _ _ R sid s' Hs') as [He|(s & f & Hs & Hk & Hp & Hsu & Hpm & Hpe)].
    + apply toks_nil_inv in He as [_ ->]. constructor.
    + rewrite Hsu. eapply u_skeys; eauto.
  - intros sid s' Hs'. destruct (r_sess _ _ _ R sid s' Hs') as [He|(s & f & Hs & Hk & Hp & Hsu & Hpm & Hpe)].
    + rewrite He. constructor.
    + unfold toks. rewrite Hp, Hsu. apply NoDup_app_filter. eapply (u_slot _ U); eauto.
  - intros sid1 sid2 s1' s2' tok H1 H2 I1 I2.
    destruct (r_sess _ _ _ R sid1 s1' H1) as [He|(s1 & f1 & Hs1 & _ & Hp1 & Hsu1 & _)]; [rewrite He in I1; destruct I1|].
    destruct (r_sess _ _ _ R sid2 s2' H2) as [He|(s2 & f2 & Hs2 & _ & Hp2 & Hsu2 & _)]; [rewrite He in I2; destruct I2|].
    eapply (u_sess _ U); eauto using toks_filter_in.
Qed.

Lemma rel_trans xs h1 h2 h3 : Rel xs h1 h2 -> Rel xs h2 h3 -> Rel xs h1 h3.
Proof.
  intros R1 R2. constructor.
  - rewrite (r_tok _ _ _ R2). apply R1.
  - eapply incl_tran; [apply R2|apply R1].
  - eapply incl_tran; [apply R2|apply R1].
  - intros H. apply R2, R1, H.
  - intros sid s3 Hs3. destruct (r_sess _ _ _ R2 sid s3 Hs3) as [He|(s2 & f2 & Hs2 & Hk2 & Hp2 & Hsu2 & Hpm2 & Hpe2)]; [now left|].
    destruct (r_sess _ _ _ R1 sid s2 Hs2) as [He|(s1 & f1 & Hs1 & Hk1 & Hp1 & Hsu1 & Hpm1 & Hpe1)].
    + left. apply toks_nil_inv in He as [E1 E2]. apply toks_nil; [rewrite Hp2, E1; reflexivity|congruence].
    + right. exists s1, (fun x => f1 x && f2 x). split; [assumption|]. split; [congruence|].
      split; [rewrite Hp2, Hp1; apply filter_filter|]. split; [congruence|]. split; [congruence|].
      destruct Hpe2 as [Hpe2|]; [|now right]. destruct Hpe1 as [Hpe1|]; [left; congruence|now right].
  - intros tok sid s1 Hin Hs1 Ht. destruct (r_own _ _ _ R1 tok sid s1 (r_open _ _ _ R2 _ Hin) Hs1 Ht) as [s2 [Hs2 Ht2]].
    eapply (r_own _ _ _ R2); eauto.
  - intros U tok sid s3 Hs3 Ht Hin. pose proof (uniq_rel _ _ _ R1 U) as U2.
    apply (r_held _ _ _ R2 U2 tok sid s3 Hs3 Ht).
    destruct (r_sess _ _ _ R2 sid s3 Hs3) as [He|(s2 & f2 & Hs2 & _ & Hp2 & Hsu2 & _)]; [rewrite He in Ht; destruct Ht|].
    apply (r_held _ _ _ R1 U tok sid s2 Hs2); [eapply toks_filter_in; eauto|assumption].
Qed.

(* what the relation keeps of the other invariants *)
Lemma own_rel xs h h' : Rel xs h h' -> Own h -> Own h'.
Proof.
  intros R O tok Hin. destruct (O tok (r_open _ _ _ R _ Hin)) as (sid & s & Hs & Ht).
  destruct (r_own _ _ _ R tok sid s Hin Hs Ht) as [s' [Hs' Ht']]. eauto.
Qed.
Lemma held_rel xs h h' : Rel xs h h' -> Uniq h -> Held h -> Held h'.
Proof.
  intros R U Hh sid s' tok Hs' Ht. apply (r_held _ _ _ R U tok sid s' Hs' Ht).
  destruct (r_sess _ _ _ R sid s' Hs') as [He|(s & f & Hs & _ & Hp & Hsu & _)]; [rewrite He in Ht; destruct Ht|].
  eapply Hh; eauto using toks_filter_in.
Qed.
Lemma tokinv_rel xs h h' : Rel xs h h' -> TokInv h -> TokInv h'.
Proof.
  intros R T.
  assert (Hk : forall tok, In tok (pend_keys h') -> In tok (pend_keys h)).
  { intros tok Hin. unfold pend_keys in *. apply in_map_iff in Hin as [e [He Hin]]. apply in_map_iff. exists e. split; [assumption|]. now apply (r_pend _ _ _ R). }
  constructor.
  - intros sid s' tok Hs' Ht.
    destruct (r_sess _ _ _ R sid s' Hs') as [He|(s & f & Hs & _ & Hp & Hsu & _)]; [rewrite He in Ht; destruct Ht|].
    destruct (ti_held _ T sid s tok Hs) as [H1 H2]; [eapply toks_filter_in; eauto|].
    rewrite (r_tok _ _ _ R). split; [assumption|]. intros Hin. apply H2. now apply Hk.
  - intros tok Hin. rewrite (r_tok _ _ _ R). apply (ti_pend _ T). now apply Hk.
Qed.
Lemma hold_rel_sess xs h h' sid s' : Rel xs h h' -> Hold h -> get_sess h' sid = Some s' -> ~ xs sid ->
  is_virtual (s_kind s') = false -> sess_hold s'.
Proof.
  intros R Ho Hs' Hx Hv.
  destruct (r_sess _ _ _ R sid s' Hs') as [He|(s & f & Hs & Hk & Hp & Hsu & Hpm & Hpe)].
  - apply toks_nil_inv in He as [E _]. intros st tok Hin. rewrite E in Hin. destruct Hin.
  - destruct Hpe as [Hpe|]; [|contradiction]. intros st tok Hin. rewrite Hpe, Hpm.
    apply (Ho sid s Hs); [congruence|]. rewrite Hp in Hin. apply filter_In in Hin as [Hin _]. exact Hin.
Qed.
Lemma hold_rel h h' : Rel none1 h h' -> Hold h -> Hold h'.
Proof. intros R Ho sid s' Hs' Hv. eapply hold_rel_sess; eauto. Qed.

Lemma inv_rel h h' : Rel none1 h h' -> Inv h -> Inv h'.
Proof.
  intros R I. constructor.
  - eapply own_rel; eauto. apply I.
  - eapply held_rel; eauto; apply I.
  - apply (r_nodup _ _ _ R), I.
  - eapply tokinv_rel; eauto. apply I.
  - eapply uniq_rel; eauto. apply I.
  - eapply hold_rel; eauto. apply I.
Qed.

(* ------------------------------------------------------------------ building blocks *)
Ltac msimpl :=
  cbn [h_mcutok h_mcupending h_mcuopen h_sessions set_mcu put_sess set_sessions fst snd].

(* sessions may appear and disappear when they hold nothing, and otherwise keep their media part *)
Lemma rel_sessions xs h h' :
  h_mcutok h' = h_mcutok h -> h_mcupending h' = h_mcupending h -> h_mcuopen h' = h_mcuopen h ->
  (forall sid s', get_sess h' sid = Some s' -> toks s' = [] \/ exists s, get_sess h sid = Some s /\ mcore s' = mcore s) ->
  (forall sid s, get_sess h sid = Some s -> toks s = [] \/ exists s', get_sess h' sid = Some s' /\ mcore s' = mcore s) ->
  Rel xs h h'.
Proof.
  intros Ht Hp Ho H1 H2. constructor.
  - exact Ht.
  - rewrite Hp. apply incl_refl.
  - rewrite Ho. apply incl_refl.
  - now rewrite Ho.
  - intros sid s' Hs'. destruct (H1 sid s' Hs') as [He|[s [Hs Hm]]]; [now left|right].
    apply mcore_eq in Hm as (Hk & Hpe & Hpu & Hsu & Hpm). exists s, (fun _ => true). rewrite filter_true. repeat split; auto.
  - intros tok sid s _ Hs Hin. destruct (H2 sid s Hs) as [He|[s' [Hs' Hm]]]; [rewrite He in Hin; destruct Hin|].
    apply mcore_eq in Hm as (Hk & Hpe & Hpu & Hsu & Hpm). exists s'. split; [assumption|]. unfold toks in *. now rewrite Hpu, Hsu.
  - intros _ tok sid s' _ _. now rewrite Ho.
Qed.

Lemma rel_nosess xs h h' :
  h_sessions h' = h_sessions h -> h_mcutok h' = h_mcutok h -> h_mcupending h' = h_mcupending h ->
  h_mcuopen h' = h_mcuopen h -> Rel xs h h'.
Proof.
  intros Hs Ht Hp Ho. apply rel_sessions; auto; intros sid s; unfold get_sess; rewrite Hs; intros H; right; eauto.
Qed.
Ltac rel_ns :=
  apply rel_nosess;
  (cbn [h_sessions h_mcutok h_mcupending h_mcuopen fst publish set_conns set_sessions set_rooms set_rs set_vtable
        set_expired set_anonymous set_dialout set_clients set_counted set_fail set_bus set_nextsid set_clock
        record_failure]; reflexivity).
(* peel the outermost table update off the state on the right *)
Ltac peel :=
  match goal with
  | |- Rel _ _ (set_conns ?hh _) => apply rel_trans with hh; [|rel_ns]
  | |- Rel _ _ (set_clients ?hh _) => apply rel_trans with hh; [|rel_ns]
  | |- Rel _ _ (set_expired ?hh _) => apply rel_trans with hh; [|rel_ns]
  | |- Rel _ _ (set_anonymous ?hh _) => apply rel_trans with hh; [|rel_ns]
  | |- Rel _ _ (set_dialout ?hh _) => apply rel_trans with hh; [|rel_ns]
  | |- Rel _ _ (set_rooms ?hh _) => apply rel_trans with hh; [|rel_ns]
  | |- Rel _ _ (set_vtable ?hh _) => apply rel_trans with hh; [|rel_ns]
  | |- Rel _ _ (set_clock ?hh _) => apply rel_trans with hh; [|rel_ns]
  | |- Rel _ _ (set_bus ?hh _) => apply rel_trans with hh; [|rel_ns]
  | |- Rel _ _ (set_nextsid ?hh _) => apply rel_trans with hh; [|rel_ns]
  | |- Rel _ _ (set_counted ?hh _) => apply rel_trans with hh; [|rel_ns]
  | |- Rel _ _ (publish ?hh _ _) => apply rel_trans with hh; [|rel_ns]
  end.

Lemma rel_put xs h sid s s1 : get_sess h sid = Some s -> mcore s1 = mcore s -> Rel xs h (put_sess h sid s1).
Proof.
  intros Hs Hm. apply rel_sessions; try reflexivity; intros x sx; rewrite get_put; destruct (N.eqb_spec x sid) as [->|Hne]; intros H; right.
  - injection H as <-. eauto.
  - eauto.
  - rewrite Hs in H. injection H as <-. eauto.
  - eauto.
Qed.
Lemma rel_new xs h sid s1 : get_sess h sid = None -> toks s1 = [] -> Rel xs h (put_sess h sid s1).
Proof.
  intros Hs He. apply rel_sessions; try reflexivity; intros x sx; rewrite get_put; destruct (N.eqb_spec x sid) as [->|Hne]; intros H.
  - injection H as <-. now left.
  - right. eauto.
  - congruence.
  - right. eauto.
Qed.
Lemma rel_remove xs h h' sid :
  (forall s, get_sess h sid = Some s -> toks s = []) -> h_sessions h' = adel (h_sessions h) sid ->
  h_mcutok h' = h_mcutok h -> h_mcupending h' = h_mcupending h -> h_mcuopen h' = h_mcuopen h -> Rel xs h h'.
Proof.
  intros He Hs Ht Hp Ho. apply rel_sessions; auto; intros x sx; unfold get_sess; rewrite Hs, aget_adel; destruct (N.eqb_spec x sid) as [->|Hne]; intros H.
  - discriminate.
  - right. eauto.
  - left. now apply He.
  - right. eauto.
Qed.
Lemma rel_pend xs h tok pend : incl pend (h_mcupending h) -> tok = h_mcutok h -> Rel xs h (set_mcu h tok pend (h_mcuopen h)).
Proof.
  intros Hi ->. pose proof (rel_refl xs h) as R. constructor; try apply R; try reflexivity. exact Hi.
Qed.

Lemma rs_set_mcu h sid rs :
  h_mcutok (rs_set h sid rs) = h_mcutok h /\ h_mcupending (rs_set h sid rs) = h_mcupending h /\ h_mcuopen (rs_set h sid rs) = h_mcuopen h.
Proof.
  unfold rs_set. destruct (N.eqb rs 0).
  - destruct (aget (h_rs1 h) sid); repeat split; reflexivity.
  - destruct (aget (h_rs1 h) sid) as [prev|]; [destruct (N.eqb prev rs)|]; repeat split; reflexivity.
Qed.
Lemma rel_rs_set xs h sid rs : Rel xs h (rs_set h sid rs).
Proof. destruct (rs_set_mcu h sid rs) as (A & B & C). apply rel_nosess; auto using rs_set_sessions. Qed.
Lemma rel_rs_del xs h sid : Rel xs h (rs_del h sid).
Proof. apply rel_rs_set. Qed.
Lemma rel_publish xs h subj m : Rel xs h (publish h subj m).
Proof. rel_ns. Qed.

Lemma rel_room_remove xs h k sid : Rel xs h (room_remove h k sid).
Proof.
  unfold room_remove. destruct (room_of h k) as [r|]; [|apply rel_refl].
  destruct (nmem sid (r_members r)); [|apply rel_refl].
  eapply rel_trans; [|apply rel_publish]. unfold remove_room_if_empty.
  match goal with |- context [room_of ?hh k] => destruct (room_of hh k) as [r1|] end; [|rel_ns].
  destruct (r_members r1); rel_ns.
Qed.

Lemma rel_deliver_to_session xs h sid m : Rel xs h (fst (deliver_to_session h sid m)).
Proof.
  unfold deliver_to_session. destruct (get_sess h sid) as [s|] eqn:Hs; [|apply rel_refl].
  match goal with |- context [let '(m', s1) := ?X in _] => destruct X as [m' s1] eqn:HX end.
  assert (Hc : mcore s1 = mcore s).
  { destruct m; try (injection HX as <- <-; reflexivity).
    - destruct (filter_seen (s_seen s) l) as [keep seen']. injection HX as <- <-. reflexivity. }
  destruct m' as [mm|]; cbn [fst].
  - destruct (s_conn s1); cbn [fst]; apply rel_put with s; auto.
  - apply rel_put with s; auto.
Qed.

(* ------------------------------------------------------------------ releasing and revoking *)
Lemma rel_release_mcu xs h sid : Rel xs h (fst (release_mcu h sid)).
Proof.
  unfold release_mcu. destruct (get_sess h sid) as [s|] eqn:Hs; [|apply rel_refl].
  unfold close_tokens. cbn [fst].
  set (s1 := sess_rel (sess_media s (s_incall s) (s_flags s) [] [] []) (s_rel s + 1)).
  match goal with |- Rel xs h ?X => set (F := X) end.
  assert (Hget : forall x, get_sess F x = if N.eqb x sid then Some s1 else get_sess h x) by (intros x; apply get_put).
  assert (Hopen : forall t, In t (h_mcuopen F) <-> In t (h_mcuopen h) /\ ~ In t (toks s)) by (intros t; apply in_fold_nrem).
  constructor.
  - reflexivity.
  - apply incl_refl.
  - intros t Ht. now apply Hopen in Ht.
  - apply NoDup_fold_nrem.
  - intros x s'. rewrite Hget. destruct (N.eqb_spec x sid) as [->|Hne]; intros H.
    + injection H as <-. left. reflexivity.
    + right. exists s', (fun _ => true). rewrite filter_true. repeat split; auto.
  - intros tok x sx Hin Hx Ht. apply Hopen in Hin as [Hin Hnot]. rewrite Hget. destruct (N.eqb_spec x sid) as [->|Hne].
    + rewrite Hs in Hx. injection Hx as <-. contradiction.
    + eauto.
  - intros U tok x s'. rewrite Hget. destruct (N.eqb_spec x sid) as [->|Hne]; intros Hx Ht Hin.
    + injection Hx as <-. destruct Ht.
    + apply Hopen. split; [assumption|]. intros Hts. apply Hne. eapply (u_sess _ U); eauto.
Qed.

Lemma release_mcu_empty h sid s2 : get_sess (fst (release_mcu h sid)) sid = Some s2 -> toks s2 = [].
Proof.
  unfold release_mcu. destruct (get_sess h sid) as [s|] eqn:Hs; [|cbn [fst]; congruence].
  unfold close_tokens. cbn [fst]. intros H.
  assert (Hg : get_sess (put_sess h sid (sess_rel (sess_media s (s_incall s) (s_flags s) [] [] []) (s_rel s + 1))) sid = Some s2) by exact H.
  rewrite get_put, N.eqb_refl in Hg. injection Hg as <-. reflexivity.
Qed.

Lemma revoke_eq h sid :
  revoke h sid =
  match get_sess h sid with
  | None => (h, [])
  | Some s =>
      close_tokens
        (put_sess h sid (sess_media s (s_incall s) (s_flags s)
           (filter (fun e => negb (pub_bad (s_perms s) (s_pubmedia s) e)) (s_pubs s)) (s_subs s) (s_pubmedia s)))
        (map snd (filter (pub_bad (s_perms s) (s_pubmedia s)) (s_pubs s)))
  end.
Proof. unfold revoke. destruct (get_sess h sid); reflexivity. Qed.

Lemma rel_revoke xs h sid : Rel xs h (fst (revoke h sid)).
Proof.
  rewrite revoke_eq. destruct (get_sess h sid) as [s|] eqn:Hs; [|apply rel_refl].
  unfold close_tokens. cbn [fst].
  set (bad := pub_bad (s_perms s) (s_pubmedia s)).
  set (s1 := sess_media s (s_incall s) (s_flags s) (filter (fun e => negb (bad e)) (s_pubs s)) (s_subs s) (s_pubmedia s)).
  match goal with |- Rel xs h ?X => set (F := X) end.
  assert (Hget : forall x, get_sess F x = if N.eqb x sid then Some s1 else get_sess h x) by (intros x; apply get_put).
  assert (Hopen : forall t, In t (h_mcuopen F) <-> In t (h_mcuopen h) /\ ~ In t (map snd (filter bad (s_pubs s)))) by (intros t; apply in_fold_nrem).
  constructor.
  - reflexivity.
  - apply incl_refl.
  - intros t Ht. now apply Hopen in Ht.
  - apply NoDup_fold_nrem.
  - intros x s'. rewrite Hget. destruct (N.eqb_spec x sid) as [->|Hne]; intros H; right.
    + injection H as <-. exists s, (fun e => negb (bad e)). repeat split; auto.
    + exists s', (fun _ => true). rewrite filter_true. repeat split; auto.
  - intros tok x sx Hin Hx Ht. apply Hopen in Hin as [Hin Hnot]. rewrite Hget. destruct (N.eqb_spec x sid) as [->|Hne]; [|eauto].
    rewrite Hs in Hx. injection Hx as <-. exists s1. split; [reflexivity|].
    unfold toks in *. cbn [s1 s_pubs s_subs sess_media]. apply in_app_or in Ht as [Ht|Ht]; apply in_or_app; [left|now right].
    apply in_map_iff in Ht as [e [He Ht]]. apply in_map_iff. exists e. split; [assumption|]. apply filter_In. split; [assumption|].
    destruct (bad e) eqn:Hb; [|reflexivity]. exfalso. apply Hnot. apply in_map_iff. exists e. split; [assumption|]. apply filter_In. auto.
  - intros U tok x s'. rewrite Hget. destruct (N.eqb_spec x sid) as [->|Hne]; intros Hx Ht Hin; apply Hopen; (split; [assumption|]); intros Hb.
    + injection Hx as <-. eapply (NoDup_filter_split snd bad (s_pubs s) (map snd (s_subs s)) tok); eauto. apply (u_slot _ U sid s Hs).
    + apply Hne. eapply (u_sess _ U x sid s' s tok); eauto. unfold toks. apply in_or_app. left. eapply in_map_filter; eauto.
Qed.

(* after revoke, the session's publishers are the allowed ones: whatever they were before *)
Lemma revoke_establishes h sid s' : get_sess (fst (revoke h sid)) sid = Some s' -> sess_hold s'.
Proof.
  rewrite revoke_eq. destruct (get_sess h sid) as [s|] eqn:Hs; [|cbn [fst]; congruence].
  unfold close_tokens. cbn [fst]. intros H.
  match type of H with get_sess (set_mcu (put_sess _ _ ?s1) _ _ _) _ = _ => assert (Hg : get_sess (put_sess h sid s1) sid = Some s') by exact H end.
  rewrite get_put, N.eqb_refl in Hg. injection Hg as <-.
  intros st tok Hin. cbn [s_pubs s_perms s_pubmedia sess_media] in *. apply filter_In in Hin as [_ Hb].
  rewrite pub_bad_spec, negb_involutive in Hb. exact Hb.
Qed.

Lemma rel_leave_call xs h sid : Rel xs h (fst (leave_call h sid)).
Proof.
  unfold leave_call. destruct (get_sess h sid) as [s|]; [|apply rel_refl].
  destruct (s_kind s); destruct (s_room s); try apply rel_refl; apply rel_release_mcu.
Qed.

(* ------------------------------------------------------------------ leaving, closing *)
Lemma rel_leave_room xs h sid n : Rel xs h (fst (leave_room h sid n)).
Proof.
  unfold leave_room. destruct (get_sess h sid) as [s|] eqn:Hs; [|apply rel_refl].
  destruct (s_room s) as [k|]; [|apply rel_refl].
  assert (Hs1 : get_sess (rs_del h sid) sid = Some s) by (unfold get_sess; now rewrite rs_del_sessions).
  destruct (is_virtual (s_kind s)).
  - cbn [fst]. eapply rel_trans; [|apply rel_room_remove]. eapply rel_trans; [apply rel_rs_del|]. now apply rel_put with s.
  - match goal with |- context [release_mcu ?hh sid] => destruct (release_mcu hh sid) as [h3 o2] eqn:Hr end. cbn [fst].
    eapply rel_trans; [|apply rel_room_remove]. rewrite (fst_eq _ _ _ Hr).
    eapply rel_trans; [|apply rel_release_mcu]. eapply rel_trans; [apply rel_rs_del|]. now apply rel_put with s.
Qed.

Lemma drop_vt_mcu h kd sid :
  h_mcutok (drop_vt h kd sid) = h_mcutok h /\ h_mcupending (drop_vt h kd sid) = h_mcupending h /\ h_mcuopen (drop_vt h kd sid) = h_mcuopen h.
Proof.
  unfold drop_vt. destruct kd as [| |p v]; try (repeat split; reflexivity).
  destruct (pget (h_vtable h) (p, v)) as [x|]; [destruct (N.eqb x sid)|]; repeat split; reflexivity.
Qed.
Lemma detach_conn_mcu h oc :
  h_mcutok (detach_conn h oc) = h_mcutok h /\ h_mcupending (detach_conn h oc) = h_mcupending h /\ h_mcuopen (detach_conn h oc) = h_mcuopen h.
Proof.
  unfold detach_conn. destruct oc as [c0|]; [|repeat split; reflexivity].
  destruct (aget (h_conns h) c0); repeat split; reflexivity.
Qed.

Lemma rel_close_one xs h sid : Rel xs h (fst (close_one h sid)).
Proof.
  unfold close_one. destruct (get_sess h sid) as [s|] eqn:Hs; [|apply rel_refl].
  destruct (leave_room h sid true) as [h1 o1] eqn:Hl. destruct (release_mcu h1 sid) as [h2a o2a] eqn:Hr.
  assert (R1 : Rel xs h h1) by (rewrite (fst_eq _ _ _ Hl); apply rel_leave_room).
  assert (R2 : Rel xs h1 h2a) by (rewrite (fst_eq _ _ _ Hr); apply rel_release_mcu).
  match goal with |- context [scrub ?hh sid] => set (h2 := hh) end.
  assert (R : Rel xs h (drop_vt (detach_conn (scrub h2 sid) (s_conn s)) (s_kind s) sid)).
  { eapply rel_trans; [exact R1|]. eapply rel_trans; [exact R2|].
    eapply rel_trans with h2; [apply rel_pend; [apply incl_filter|reflexivity]|].
    destruct (drop_vt_other (detach_conn (scrub h2 sid) (s_conn s)) (s_kind s) sid) as (D1 & _).
    destruct (detach_conn_other (scrub h2 sid) (s_conn s)) as (F1 & _).
    destruct (drop_vt_mcu (detach_conn (scrub h2 sid) (s_conn s)) (s_kind s) sid) as (D2 & D3 & D4).
    destruct (detach_conn_mcu (scrub h2 sid) (s_conn s)) as (F2 & F3 & F4).
    apply rel_remove with sid.
    - intros s2 Hs2. apply (release_mcu_empty h1 sid). rewrite Hr. exact Hs2.
    - rewrite D1, F1. reflexivity.
    - rewrite D2, F2. reflexivity.
    - rewrite D3, F3. reflexivity.
    - rewrite D4, F4. reflexivity. }
  destruct (s_kind s); cbn [fst]; exact R.
Qed.

Lemma rel_close_all xs kids : forall h0 hh o, Rel xs h0 hh -> Rel xs h0 (fst (close_all kids (hh, o))).
Proof.
  induction kids as [|k kids IH]; intros h0 hh o R; cbn [close_all fold_left fst]; [exact R|].
  destruct (close_one hh k) as [h1 o1] eqn:Hc. fold (close_all kids (h1, o ++ o1)). apply IH.
  eapply rel_trans; [exact R|]. rewrite (fst_eq _ _ _ Hc). apply rel_close_one.
Qed.
Lemma rel_close_session xs h sid : Rel xs h (fst (close_session h sid)).
Proof.
  unfold close_session. destruct (close_one h sid) as [h1 o1] eqn:Hc.
  fold (close_all (children h sid) (h1, o1)). apply rel_close_all. rewrite (fst_eq _ _ _ Hc). apply rel_close_one.
Qed.

Lemma rel_close_conn xs h c : Rel xs h (fst (close_conn h c)).
Proof.
  unfold close_conn. destruct (aget (h_conns h) c) as [cn|]; [|apply rel_refl].
  destruct (c_sess cn) as [sid|]; [|rel_ns].
  match goal with |- context [close_session ?hh sid] => destruct (close_session hh sid) as [h3 outs] eqn:Hcl end. cbn [fst].
  rewrite (fst_eq _ _ _ Hcl). eapply rel_trans; [|apply rel_close_session].
  eapply rel_trans with (set_conns h (adel (h_conns h) c)); [rel_ns|].
  destruct (get_sess (set_conns h (adel (h_conns h) c)) sid) as [s|] eqn:Hs; [|apply rel_refl].
  now apply rel_put with s.
Qed.

Lemma rel_send_session xs h sid m : Rel xs h (fst (send_session h sid m)).
Proof.
  unfold send_session.
  match goal with |- context [deliver_to_session h ?t m] => set (target := t) end.
  destruct (deliver_to_session h target m) as [h1 outs] eqn:Hd.
  assert (R1 : Rel xs h h1) by (rewrite (fst_eq _ _ _ Hd); apply rel_deliver_to_session).
  destruct outs as [|[c mm| | |] [|o2 outs2]]; cbn [fst]; try exact R1.
  destruct (is_closing h1 c mm); [|exact R1].
  destruct (close_conn h1 c) as [h2 outs2] eqn:Hc. cbn [fst]. rewrite (fst_eq _ _ _ Hc).
  eapply rel_trans; [exact R1|apply rel_close_conn].
Qed.
Lemma rel_send_conn xs h c m : Rel xs h (fst (send_conn h c m)).
Proof.
  unfold send_conn. destruct (aget (h_conns h) c); [|apply rel_refl].
  destruct (is_closing h c m); [|apply rel_refl].
  destruct (close_conn h c) as [h2 outs2] eqn:Hc. cbn [fst]. rewrite (fst_eq _ _ _ Hc). apply rel_close_conn.
Qed.

Lemma rel_fold_sessions xs h0 h l f :
  Rel xs h0 h -> (forall hh x, Rel xs hh (fst (f hh x))) -> Rel xs h0 (fst (fold_sessions h l f)).
Proof.
  intros R Hf. apply (wf_fold_sessions (fun hh => Rel xs h0 hh)); [exact R|].
  intros hh x Rh. eapply rel_trans; [exact Rh|apply Hf].
Qed.
Lemma rel_fold_left {A} xs (f : hub -> A -> hub) l : forall h0 h,
  Rel xs h0 h -> (forall hh x, Rel xs hh (f hh x)) -> Rel xs h0 (fold_left f l h).
Proof.
  induction l as [|x l IH]; intros h0 h R Hf; cbn [fold_left]; [exact R|]. apply IH; [|exact Hf].
  eapply rel_trans; [exact R|apply Hf].
Qed.

(* ------------------------------------------------------------------ hello *)
Lemma rel_register xs h c cn b k u : Rel xs h (fst (register h c cn b k u)).
Proof.
  unfold register. cbv zeta.
  match goal with |- Rel _ _ (fst (if ?X then _ else _)) => destruct X end; [rel_ns|]. cbn [fst].
  match goal with |- context [put_sess ?hh (next_id h) ?ss] => set (h1 := hh); set (ns := ss) end.
  assert (R2 : Rel xs h (put_sess h1 (next_id h) ns)).
  { eapply rel_trans with h1; [unfold h1; match goal with |- context [if ?X then _ else _] => destruct X end; rel_ns|].
    apply rel_new; [|reflexivity].
    unfold h1. match goal with |- context [if ?X then _ else _] => destruct X end; exact (next_id_fresh h). }
  match goal with |- Rel _ _ (if ?X then _ else _) => destruct X end.
  - eapply rel_trans; [exact R2|rel_ns].
  - destruct k as [|f d|p v]; try (eapply rel_trans; [exact R2|rel_ns]).
    destruct d; eapply rel_trans; try exact R2; rel_ns.
Qed.

Lemma send_bye_nosess h c r :
  (forall cn, aget (h_conns h) c = Some cn -> c_sess cn = None) ->
  let h' := fst (send_conn h c (SBye r)) in
  h_sessions h' = h_sessions h /\ h_mcutok h' = h_mcutok h /\ h_mcupending h' = h_mcupending h /\ h_mcuopen h' = h_mcuopen h.
Proof.
  intros Hn. unfold send_conn. destruct (aget (h_conns h) c) as [cn|] eqn:Hc; [|repeat split; reflexivity].
  cbn [is_closing]. unfold close_conn. rewrite Hc, (Hn cn eq_refl). repeat split; reflexivity.
Qed.

Lemma rel_do_hello xs h c cn hl : Rel xs h (fst (do_hello h c cn hl)).
Proof.
  unfold do_hello. destruct hl as [b u rej|b u t|b tok f d|i].
  - destruct (h_nb h <=? b); [rel_ns|]. destruct rej; [rel_ns|].
    destruct (register h c cn b KClient u) as [h1 o1] eqn:Hr. cbn [fst]. rewrite (fst_eq _ _ _ Hr). apply rel_register.
  - destruct (v2_check (h_nb h) b t); [apply rel_register|rel_ns].
  - destruct (N.eqb tok 4); [rel_ns|].
    destruct (throttled h (c_addr cn) ACT_INTERNAL); [rel_ns|].
    destruct (negb (N.eqb tok 0)); [rel_ns|]. destruct (h_nb h <=? b); [rel_ns|]. apply rel_register.
  - destruct (throttled h (c_addr cn) ACT_RESUME); [apply rel_refl|].
    destruct i as [n|n|k|n]; try rel_ns.
    destruct (get_sess h n) as [s|] eqn:Hs; [|apply rel_refl].
    destruct (is_virtual (s_kind s)); [apply rel_refl|].
    set (P := match s_conn s with
              | Some c' => if N.eqb c' c then (h, [])
                           else send_conn (match aget (h_conns h) c' with
                                           | Some cn' => set_conns h (aset (h_conns h) c' (mkconn (c_addr cn') None (c_expect cn')))
                                           | None => h end) c' (SBye B_session_resumed)
              | None => (h, []) end).
    assert (HP : h_sessions (fst P) = h_sessions h /\ h_mcutok (fst P) = h_mcutok h /\
                 h_mcupending (fst P) = h_mcupending h /\ h_mcuopen (fst P) = h_mcuopen h).
    { unfold P. destruct (s_conn s) as [c'|]; [|repeat split; reflexivity].
      destruct (N.eqb c' c); [repeat split; reflexivity|].
      destruct (aget (h_conns h) c') as [cn'|] eqn:Hc'.
      - match goal with |- context [send_conn ?hh c' _] => destruct (send_bye_nosess hh c' B_session_resumed) as (A & B & C & D) end.
        + intros cn0. hsimpl. rewrite aget_aset_same. intros H. injection H as <-. reflexivity.
        + rewrite A, B, C, D. repeat split; reflexivity.
      - apply send_bye_nosess. intros cn0 H. congruence. }
    destruct P as [h1 outs1]. cbn [fst] in HP. destruct HP as (A & B & C & D). cbn [fst].
    match goal with |- Rel _ _ (fst (if _ then _ else (?hh, _))) => assert (R5 : Rel xs h hh) end.
    { peel. peel. peel.
      eapply rel_trans with h1; [now apply rel_nosess|].
      apply rel_put with s; [unfold get_sess; now rewrite A|reflexivity]. }
    destruct (queue_closes s); [|exact R5].
    match goal with |- context [close_conn ?hh c] => destruct (close_conn hh c) as [h6 o6] eqn:H6 end. cbn [fst].
    rewrite (fst_eq _ _ _ H6). eapply rel_trans; [exact R5|apply rel_close_conn].
Qed.

(* ------------------------------------------------------------------ joining *)
Lemma rel_put_perms xs h sid s s1 :
  get_sess h sid = Some s -> s_kind s1 = s_kind s -> s_pubs s1 = s_pubs s -> s_subs s1 = s_subs s ->
  s_pubmedia s1 = s_pubmedia s -> (s_perms s1 = s_perms s \/ xs sid) -> Rel xs h (put_sess h sid s1).
Proof.
  intros Hs Hk Hp Hsu Hpm Hpe. constructor; try reflexivity; try apply incl_refl; auto.
  - intros x sx. rewrite get_put. destruct (N.eqb_spec x sid) as [->|Hne]; intros H; right.
    + injection H as <-. exists s, (fun _ => true). rewrite filter_true. repeat split; auto.
    + exists sx, (fun _ => true). rewrite filter_true. repeat split; auto.
  - intros tok x sx _ Hx Ht. rewrite get_put. destruct (N.eqb_spec x sid) as [->|Hne]; [|eauto].
    rewrite Hs in Hx. injection Hx as <-. exists s1. split; [reflexivity|]. unfold toks in *. now rewrite Hp, Hsu.
Qed.

(* the sessions' room, kind and connection are the same in both states *)
Definition score (h h' : hub) : Prop := forall x, option_map core (get_sess h' x) = option_map core (get_sess h x).
Lemma score_refl h : score h h. Proof. intros x. reflexivity. Qed.
Lemma score_trans h1 h2 h3 : score h1 h2 -> score h2 h3 -> score h1 h3.
Proof. intros A B x. now rewrite B, A. Qed.
Lemma score_equiv h h' : equiv h h' -> score h h'.
Proof. intros E x. apply (eq_sess _ _ E). Qed.
Lemma score_nosess h h' : h_sessions h' = h_sessions h -> score h h'.
Proof. intros E x. unfold get_sess. now rewrite E. Qed.
Lemma score_room h h' sid s k s' : score h h' -> get_sess h sid = Some s -> s_room s = Some k ->
  get_sess h' sid = Some s' -> s_room s' = Some k.
Proof.
  intros S Hs Hk Hs'. specialize (S sid). rewrite Hs, Hs' in S. cbn in S. apply core_some_eq in S as (A & _). congruence.
Qed.

Section JoinRoom.
  Context (xs : N -> Prop) (h : hub) (c sid : N) (k : N * N) (rs : N) (perms : option N) (su : N).

  Lemma join_room_both :
    (perms <> None -> xs sid) ->
    Rel xs h (fst (join_room h c sid k rs perms su)) /\
    (forall s', get_sess (fst (join_room h c sid k rs perms su)) sid = Some s' -> s_room s' = Some k).
  Proof.
    intros Hx. unfold join_room.
    destruct (leave_room h sid true) as [h1 o1] eqn:Hl.
    assert (R1 : Rel xs h h1) by (rewrite (fst_eq _ _ _ Hl); apply rel_leave_room).
    destruct (get_sess h1 sid) as [s|] eqn:Hs; [|cbn [fst]; split; [exact R1|intros s' H; congruence]].
    set (r := match room_of h1 k with Some x => x | None => empty_room end).
    set (r' := mkroom (nadd sid (r_members r)) (r_incall r) (if N.eqb su 0 then r_sessdata r else aset (r_sessdata r) sid su) (r_transient r) (r_props r)).
    set (s1 := upd_sess s (Some k) rs (s_conn s) (match perms with Some p => Some p | None => s_perms s end) (s_pending s) [] (h_clock h1)).
    set (hA := put_sess (set_rooms h1 (pset (h_rooms h1) k r')) sid s1).
    assert (RA : Rel xs h hA).
    { eapply rel_trans; [exact R1|]. eapply rel_trans with (set_rooms h1 (pset (h_rooms h1) k r')); [rel_ns|].
      apply rel_put_perms with s; try reflexivity; [exact Hs|].
      destruct perms as [p|]; [right; apply Hx; discriminate|left; reflexivity]. }
    assert (HsA : get_sess hA sid = Some s1) by (unfold hA; rewrite get_put, N.eqb_refl; reflexivity).
    set (h2 := set_clock hA (h_clock h1 + 1)).
    set (h3 := if N.eqb rs 0 then h2 else rs_set h2 sid rs).
    assert (R3 : Rel xs h h3 /\ score hA h3).
    { unfold h3. destruct (N.eqb rs 0).
      - split; [eapply rel_trans; [exact RA|rel_ns]|apply score_nosess; reflexivity].
      - split; [eapply rel_trans; [exact RA|]; eapply rel_trans with h2; [rel_ns|apply rel_rs_set]|].
        apply score_nosess. rewrite rs_set_sessions. reflexivity. }
    destruct R3 as [R3 S3].
    set (h4 := set_anonymous h3 (nrem sid (h_anonymous h3))).
    set (h5 := match s_kind s with KInternal _ true => set_dialout h4 (nrem sid (h_dialout h4)) | _ => h4 end).
    assert (R5 : Rel xs h h5 /\ score hA h5).
    { unfold h5. destruct (s_kind s) as [|f d|]; try (split; [eapply rel_trans; [exact R3|rel_ns]|eapply score_trans; [exact S3|apply score_nosess; reflexivity]]).
      destruct d; (split; [eapply rel_trans; [exact R3|rel_ns]|eapply score_trans; [exact S3|apply score_nosess; reflexivity]]). }
    destruct R5 as [R5 S5].
    destruct (send_session h5 sid (SRoom (snd k))) as [h7 o2] eqn:Hsend. pose proof (fst_eq _ _ _ Hsend) as E7.
    assert (R7 : Rel xs h h7) by (eapply rel_trans; [exact R5|rewrite E7; apply rel_send_session]).
    assert (S7 : score hA h7).
    { eapply score_trans; [exact S5|]. rewrite E7. apply score_equiv. now apply equiv_send_session. }
    destruct (room_of h7 k).
    2:{ cbn [fst]. split; [exact R7|]. intros s' Hs'. eapply (score_room hA h7); eauto. }
    set (h9 := if nmem sid (r_members r) then h7 else publish h7 (SubjRoom (fst k) (snd k)) (ARoomEvent (SJoin [(sid, if N.eqb (s_user s) 0 then su else s_user s)]))).
    assert (R9 : Rel xs h h9 /\ score hA h9).
    { unfold h9. destruct (nmem sid (r_members r)); [auto|].
      split; [eapply rel_trans; [exact R7|apply rel_publish]|eapply score_trans; [exact S7|apply score_nosess; reflexivity]]. }
    destruct R9 as [R9 S9].
    match goal with |- context [let '(h10, outs3) := ?X in _] => destruct X as [h10 o3] eqn:H10 end.
    assert (R10 : Rel xs h h10 /\ score hA h10).
    { destruct (nmem sid (r_members r)); [injection H10 as <- <-; auto|].
      destruct (r_transient r); [injection H10 as <- <-; auto|].
      rewrite (fst_eq _ _ _ H10). split; [eapply rel_trans; [exact R9|apply rel_send_session]|].
      eapply score_trans; [exact S9|]. apply score_equiv. now apply equiv_send_session. }
    destruct R10 as [R10 S10]. cbn [fst].
    split; [eapply rel_trans; [exact R10|apply rel_publish]|].
    intros s' Hs'. eapply (score_room hA); [|exact HsA|reflexivity|exact Hs'].
    eapply score_trans; [exact S10|apply score_nosess; reflexivity].
  Qed.
End JoinRoom.

Lemma rel_join_room (xs : N -> Prop) h c sid k rs perms su :
  (perms <> None -> xs sid) -> Rel xs h (fst (join_room h c sid k rs perms su)).
Proof. intros Hx. now apply join_room_both. Qed.
Lemma join_room_room h c sid k rs perms su s' :
  get_sess (fst (join_room h c sid k rs perms su)) sid = Some s' -> s_room s' = Some k.
Proof. apply (join_room_both (fun _ => True)). auto. Qed.

Lemma rel_kick xs h rs : Rel xs h (fst (kick_room_session h rs)).
Proof.
  unfold kick_room_session. destruct (aget (h_rs2 h) rs) as [sid'|]; [|apply rel_refl].
  destruct (get_sess h sid') as [s'|]; [|rel_ns].
  destruct (leave_room h sid' false) as [h1 o1] eqn:Hl.
  assert (R1 : Rel xs h h1) by (rewrite (fst_eq _ _ _ Hl); apply rel_leave_room).
  match goal with |- context [let '(h2, outs2) := ?X in _] => destruct X as [h2 o2] eqn:H2 end.
  assert (R2 : Rel xs h h2).
  { destruct (s_kind s') as [| |p v]; destruct (s_conn s') as [c'|];
      try (injection H2 as <- <-; exact R1); rewrite (fst_eq _ _ _ H2); (eapply rel_trans; [exact R1|apply rel_send_conn]). }
  destruct (close_session h2 sid') as [h3 o3] eqn:H3. cbn [fst]. rewrite (fst_eq _ _ _ H3).
  eapply rel_trans; [exact R2|apply rel_close_session].
Qed.

(* the join request whose reply sets new permissions *)
Definition join_sets_perms (h : hub) (sid : N) (s : session) (rn : N) (rep : roomreply) : Prop :=
  rn <> 0 /\ is_internal (s_kind s) = false /\
  (match room_of h (s_backend s, rn) with Some r => nmem sid (r_members r) | None => false end) = false /\
  exists p su, rep = RepOk (Some p) su.

Lemma do_join_both h c sid s rn rs rep :
  get_sess h sid = Some s ->
  Rel (fun x => x = sid /\ join_sets_perms h sid s rn rep) h (fst (do_join h c sid s rn rs rep)) /\
  (join_sets_perms h sid s rn rep ->
   forall s1, get_sess (fst (do_join h c sid s rn rs rep)) sid = Some s1 -> s_room s1 = Some (s_backend s, rn)).
Proof.
  intros Hs. unfold join_sets_perms. set (xs := fun x : N => _). unfold do_join. destruct (N.eqb_spec rn 0) as [->|Hrn].
  - split; [|intros [H _]; now contradiction H].
    destruct (s_room s); [|apply rel_refl].
    destruct (leave_room h sid true) as [h1 o1] eqn:Hl.
    destruct (send_session h1 sid (SRoom 0)) as [h2 o2] eqn:H2. cbn [fst].
    assert (R1 : Rel xs h h1) by (rewrite (fst_eq _ _ _ Hl); apply rel_leave_room).
    assert (R2 : Rel xs h h2) by (eapply rel_trans; [exact R1|]; rewrite (fst_eq _ _ _ H2); apply rel_send_session).
    destruct (N.eqb (s_user s) 0 && negb (is_internal (s_kind s))); [|exact R2]. eapply rel_trans; [exact R2|rel_ns].
  - set (k := (s_backend s, rn)). set (rsv := if N.eqb rs 0 then 0 else 1000000 + rs).
    destruct (match room_of h k with Some r => nmem sid (r_members r) | None => false end) eqn:Hin.
    + split; [|intros (_ & _ & H & _); discriminate].
      set (newrs := if N.eqb rs 0 then 2000000 + sid else rsv).
      set (h1 := if N.eqb (s_rs s) newrs then h else put_sess (rs_set h sid newrs) sid (sess_rs s newrs)).
      assert (R1 : Rel xs h h1).
      { unfold h1. destruct (N.eqb (s_rs s) newrs); [apply rel_refl|].
        eapply rel_trans; [apply rel_rs_set|]. apply rel_put with s; [|reflexivity].
        unfold get_sess. rewrite rs_set_sessions. exact Hs. }
      destruct (send_session h1 sid (SError E_already_joined)) as [h2 o2] eqn:H2. cbn [fst].
      rewrite (fst_eq _ _ _ H2). eapply rel_trans; [exact R1|apply rel_send_session].
    + destruct (is_internal (s_kind s)) eqn:Hint.
      { split; [apply rel_join_room; intros H; now contradiction H|]. intros (_ & H & _). discriminate. }
      match goal with |- context [let '(h1, outs1) := ?X in _] => destruct X as [h1 o1] eqn:H1 end.
      assert (R1 : Rel xs h h1).
      { destruct (N.eqb rs 0 || N.eqb (s_rs s) rsv); [injection H1 as <- <-; apply rel_refl|].
        rewrite (fst_eq _ _ _ H1). apply rel_kick. }
      destruct (get_sess h1 sid) eqn:Hs1.
      2:{ cbn [fst]. split; [exact R1|]. intros _ s1 H. congruence. }
      destruct rep as [perms su|code].
      * destruct (join_room h1 c sid k rsv perms su) as [h2 o2] eqn:H2. cbn [fst]. rewrite (fst_eq _ _ _ H2).
        split; [|intros _ s1; apply join_room_room].
        eapply rel_trans; [exact R1|]. apply rel_join_room. intros Hp. unfold xs. split; [reflexivity|].
        repeat split; auto. destruct perms as [p|]; [eauto|now contradiction Hp].
      * destruct (send_session h1 sid (SError code)) as [h2 o2] eqn:H2. cbn [fst]. rewrite (fst_eq _ _ _ H2).
        split; [eapply rel_trans; [exact R1|apply rel_send_session]|]. intros (_ & _ & _ & p & su0 & H). discriminate.
Qed.

(* ------------------------------------------------------------------ messages, rooms, the bus *)
Lemma rel_do_message xs h sid s kindn to tag cb : Rel xs h (fst (do_message h sid s kindn to tag cb)).
Proof.
  unfold do_message. destruct to as [i|u| |].
  - destruct i as [n|n|k|n]; try rel_ns.
    destruct (get_sess h n) as [t|]; [|rel_ns].
    destruct (cb && negb (N.eqb (s_backend t) (s_backend s))); [apply rel_refl|].
    destruct (N.eqb n sid); [apply rel_refl|].
    destruct (s_kind t); apply rel_send_session.
  - destruct (N.eqb u 0); [apply rel_refl|]. destruct (N.eqb u (sess_userid h sid s)); [apply rel_refl|]. rel_ns.
  - destruct (s_room s); [rel_ns|apply rel_refl].
  - destruct (s_room s); [rel_ns|apply rel_refl].
Qed.

Lemma rel_recv_event xs h sid m sender co re t : Rel xs h (fst (recv_event h sid m sender co re t)).
Proof.
  unfold recv_event. destruct (get_sess h sid) as [s|]; [|apply rel_refl].
  destruct (N.eqb sender sid && negb (N.eqb sender 0)); [apply rel_refl|].
  destruct (co && negb (in_call h sid s)); [apply rel_refl|].
  match goal with |- context [if ?c then _ else _] => destruct c end; [apply rel_refl|]. apply rel_send_session.
Qed.

Lemma rel_set_incall xs h k sid on : Rel xs h (set_incall h k sid on).
Proof.
  unfold set_incall. destruct (room_of h k) as [r|]; [|apply rel_refl].
  destruct (on && negb (nmem sid (r_members r))); [apply rel_refl|rel_ns].
Qed.

Lemma rel_delete_member xs h m : Rel xs h (fst (delete_member h m)).
Proof.
  unfold delete_member. destruct (get_sess h m) as [s|]; [|apply rel_refl].
  destruct (leave_room h m true) as [h2 o1] eqn:Hl.
  assert (R2 : Rel xs h h2) by (rewrite (fst_eq _ _ _ Hl); apply rel_leave_room).
  destruct (is_virtual (s_kind s)); [exact R2|].
  destruct (send_session h2 m (SRoom 0)) as [h3 o2] eqn:H3. cbn [fst]. rewrite (fst_eq _ _ _ H3).
  eapply rel_trans; [exact R2|apply rel_send_session].
Qed.

Lemma rel_transient_update xs h k r del key val : Rel xs h (fst (transient_update h k r del key val)).
Proof.
  unfold transient_update.
  assert (Hn : forall d m, Rel xs h (fst (transient_notify h k r d m))).
  { intros d m. unfold transient_notify. apply rel_fold_sessions; [rel_ns|]. intros. apply rel_send_session. }
  destruct (del || N.eqb val 0).
  - destruct (aget (r_transient r) key); [apply Hn|apply rel_refl].
  - destruct (aget (r_transient r) key) as [v|]; [destruct (N.eqb v val); [apply rel_refl|apply Hn]|apply Hn].
Qed.

Lemma rel_room_request xs h k q : Rel xs h (fst (room_request h k q)).
Proof.
  unfold room_request. destruct (room_of h k) as [r|]; [|apply rel_refl].
  destruct q as [|users rs|tag|l|l|ic|tag|ok|del key val]; [| | | | | | |apply rel_refl|apply rel_transient_update].
  - match goal with |- context [fold_sessions h ?int ?f] => destruct (fold_sessions h int f) as [h0 o0] eqn:H0 end.
    assert (R0 : Rel xs h h0).
    { rewrite (fst_eq _ _ _ H0). apply rel_fold_sessions; [apply rel_refl|]. intros. apply rel_send_session. }
    match goal with |- context [fold_sessions ?h1 ?mm delete_member] => destruct (fold_sessions h1 mm delete_member) as [h9 o9] eqn:H9 end.
    cbn [fst]. rewrite (fst_eq _ _ _ H9). apply rel_fold_sessions; [|intros; apply rel_delete_member].
    eapply rel_trans; [exact R0|rel_ns].
  - apply rel_refl.
  - destruct (N.eqb (r_props r) (tag + 1)); [apply rel_refl|rel_ns].
  - rel_ns.
  - match goal with |- context [fold_left ?f l (h, [])] => set (g := f) end.
    assert (G : forall acc, Rel xs h (fst acc) -> Rel xs h (fst (fold_left g l acc))).
    { induction l as [|u l IH]; intros acc Hacc; cbn [fold_left]; [exact Hacc|]. apply IH.
      destruct acc as [hh oo]. cbn [fst] in Hacc. unfold g. destruct u as [[i icv] pm].
      destruct i as [n|sid|kk|n]; try exact Hacc.
      destruct (get_sess hh sid); [|exact Hacc].
      destruct (N.testbit icv 0); [cbn [fst]; eapply rel_trans; [exact Hacc|apply rel_set_incall]|].
      destruct (leave_call (set_incall hh k sid false) sid) as [h2 o2] eqn:H2. cbn [fst].
      rewrite (fst_eq _ _ _ H2). eapply rel_trans; [exact Hacc|]. eapply rel_trans; [apply rel_set_incall|apply rel_leave_call]. }
    specialize (G (h, []) (rel_refl xs h)).
    destruct (fold_left g l (h, [])) as [h1 outs]. cbn [fst] in *. eapply rel_trans; [exact G|apply rel_publish].
  - destruct (N.testbit ic 0).
    + match goal with |- context [filter ?f (filter ?g0 (r_members r))] => destruct (filter f (filter g0 (r_members r))) end; [apply rel_refl|].
      apply rel_fold_sessions; [|intros; apply rel_send_session].
      apply rel_fold_left; [apply rel_refl|]. intros. apply rel_set_incall.
    + destruct (r_incall r); [apply rel_refl|].
      match goal with |- context [fold_sessions ?h1 ?lv leave_call] => destruct (fold_sessions h1 lv leave_call) as [h2 o1] eqn:H2 end.
      assert (R2 : Rel xs h h2).
      { rewrite (fst_eq _ _ _ H2). apply rel_fold_sessions; [rel_ns|]. intros. apply rel_leave_call. }
      match goal with |- context [fold_sessions h2 ?lv ?f] => destruct (fold_sessions h2 lv f) as [h3 o2] eqn:H3 end.
      cbn [fst]. rewrite (fst_eq _ _ _ H3). apply rel_fold_sessions; [exact R2|]. intros. apply rel_send_session.
  - rel_ns.
Qed.

Lemma hold_rel_xs xs h h' : Rel xs h h' -> Hold h ->
  (forall sid s', xs sid -> get_sess h' sid = Some s' -> is_virtual (s_kind s') = false -> sess_hold s') -> Hold h'.
Proof.
  intros R Ho Hx sid s' Hs' Hv.
  destruct (r_sess _ _ _ R sid s' Hs') as [He|(s & f & Hs & Hk & Hp & Hsu & Hpm & Hpe)].
  - apply toks_nil_inv in He as [E _]. intros st tok Hin. rewrite E in Hin. destruct Hin.
  - destruct Hpe as [Hpe|Hxs]; [|now apply (Hx sid s')]. intros st tok Hin. rewrite Hpe, Hpm.
    apply (Ho sid s Hs); [congruence|]. rewrite Hp in Hin. apply filter_In in Hin as [Hin _]. exact Hin.
Qed.
Lemma inv_rel_xs xs h h' : Rel xs h h' -> Inv h ->
  (forall sid s', xs sid -> get_sess h' sid = Some s' -> is_virtual (s_kind s') = false -> sess_hold s') -> Inv h'.
Proof.
  intros R I Hx. constructor.
  - eapply own_rel; eauto. apply I.
  - eapply held_rel; eauto; apply I.
  - apply (r_nodup _ _ _ R), I.
  - eapply tokinv_rel; eauto. apply I.
  - eapply uniq_rel; eauto. apply I.
  - eapply hold_rel_xs; eauto. apply I.
Qed.

Lemma inv_deliver_pub h p : Inv h -> Inv (fst (deliver_pub h p)).
Proof.
  intros I. unfold deliver_pub.
  destruct (p_subj p) as [b r|b r|b u|sid|]; destruct (p_msg p) as [m sender co|m|sj internal|pm| |q]; try exact I.
  - apply (inv_rel h); [|exact I]. apply rel_fold_sessions; [apply rel_refl|]. intros. apply rel_recv_event.
  - apply (inv_rel h); [|exact I]. apply rel_fold_sessions; [apply rel_refl|]. intros. apply rel_recv_event.
  - destruct (room_of h (b, r)) as [rm|]; [|exact I].
    match goal with |- context [match ?o with [] => _ | _ => _ end] => destruct o end; [exact I|]. cbn [fst].
    apply (inv_rel h); [|exact I]. apply rel_fold_left; [rel_ns|].
    intros hh x. destruct (get_sess hh x) as [sx|]; [|apply rel_refl].
    destruct (is_virtual (s_kind sx) && negb (N.eqb (s_flags sx) 0)); [rel_ns|apply rel_refl].
  - apply (inv_rel h); [|exact I]. apply rel_room_request.
  - apply (inv_rel h); [|exact I]. apply rel_fold_sessions; [apply rel_refl|]. intros. apply rel_recv_event.
  - destruct (get_sess h sid) as [s|]; [|exact I]. destruct (is_virtual (s_kind s)); [exact I|].
    apply (inv_rel h); [|exact I]. apply rel_recv_event.
  - destruct (get_sess h sid) as [s|]; [|exact I]. destruct (is_virtual (s_kind s)); [exact I|].
    apply (inv_rel h); [|exact I]. apply rel_recv_event.
  - (* permissions: set, then revoke *)
    destruct (get_sess h sid) as [s|] eqn:Hs; [|exact I]. destruct (is_virtual (s_kind s)); [exact I|].
    apply (inv_rel_xs (fun x => x = sid) h); [|exact I|].
    + eapply rel_trans; [|apply rel_revoke]. apply rel_put_perms with s; try reflexivity; [exact Hs|now right].
    + intros x s' -> Hs' _. eapply revoke_establishes; eauto.
  - destruct (get_sess h sid) as [s|]; [|exact I]. destruct (is_virtual (s_kind s)); [exact I|].
    destruct (leave_room h sid false) as [h1 o1] eqn:H1.
    destruct (send_session h1 sid (SBye B_room_session_reconnected)) as [h2 o2] eqn:H2.
    destruct (close_session h2 sid) as [h3 o3] eqn:H3. cbn [fst].
    apply (inv_rel h); [|exact I].
    apply rel_trans with h1; [rewrite (fst_eq _ _ _ H1); apply rel_leave_room|].
    apply rel_trans with h2; [rewrite (fst_eq _ _ _ H2); apply rel_send_session|].
    rewrite (fst_eq _ _ _ H3); apply rel_close_session.
Qed.

Lemma inv_deliver_at h pos : Inv h -> Inv (fst (deliver_at h pos)).
Proof.
  intros I. unfold deliver_at. destruct (take_nth pos (h_bus h)) as [[p rest]|]; [|exact I].
  apply inv_deliver_pub. apply (inv_rel h); [rel_ns|exact I].
Qed.

Lemma rel_do_api xs h b room q : Rel xs h (fst (do_api h b room q)).
Proof.
  unfold do_api. destruct q as [|users rs|tag|l|l|ic|tag|ok|del key val]; cbn [fst]; try rel_ns.
  - apply rel_fold_left.
    + apply rel_fold_left; [apply rel_refl|]. intros. rel_ns.
    + intros hh x. destruct (aget (h_rs2 hh) (1000000 + x)); [rel_ns|apply rel_refl].
  - match goal with |- context [match ?o with [] => _ | _ => _ end] => destruct o end; cbn [fst]; [apply rel_refl|].
    peel. apply rel_fold_left; [apply rel_refl|].
    intros hh [[i icv] pm]. destruct i; try apply rel_refl. destruct pm; [rel_ns|apply rel_refl].
  - match goal with |- context [match ?o with [] => _ | _ => _ end] => destruct o end; cbn [fst]; [apply rel_refl|rel_ns].
  - (* dial-out *)
    destruct ok; cbn [negb fst]; [|apply rel_refl]. destruct (dialout_session h b) as [sid|]; [|apply rel_refl].
    destruct (send_session h sid (SDialout room)) as [h1 o1] eqn:H1. cbn [fst].
    apply rel_trans with h1; [rewrite (fst_eq _ _ _ H1); apply rel_send_session|apply rel_publish].
Qed.

Lemma rel_do_tick xs h secs : Rel xs h (fst (do_tick h secs)).
Proof.
  unfold do_tick.
  match goal with |- context [let '(h1, o1) := ?X in _] => destruct X as [h1 o1] eqn:H1 end.
  assert (R1 : Rel xs h h1).
  { destruct (hub_expire_s <? secs); [|injection H1 as <- <-; apply rel_refl].
    rewrite (fst_eq _ _ _ H1). apply rel_fold_sessions; [apply rel_refl|]. intros. apply rel_close_session. }
  match goal with |- context [let '(h2, o2) := ?X in _] => destruct X as [h2 o2] eqn:H2 end.
  assert (R2 : Rel xs h h2).
  { destruct (hub_anonymous_s <? secs); [|injection H2 as <- <-; exact R1].
    rewrite (fst_eq _ _ _ H2). apply rel_fold_sessions; [exact R1|]. intros hh sid.
    destruct (get_sess hh sid) as [s|]; [|apply rel_refl].
    match goal with |- context [let '(h3, o3) := ?X in _] => destruct X as [h3 o3] eqn:H3 end.
    assert (R3 : Rel xs hh h3).
    { destruct (s_conn s); [|injection H3 as <- <-; apply rel_refl]. rewrite (fst_eq _ _ _ H3). apply rel_send_conn. }
    destruct (close_session h3 sid) as [h4 o4] eqn:H4. cbn [fst]. rewrite (fst_eq _ _ _ H4).
    eapply rel_trans; [exact R3|apply rel_close_session]. }
  match goal with |- context [let '(h3, o3) := ?X in _] => destruct X as [h3 o3] eqn:H3 end.
  cbn [fst]. destruct (hub_hello_s <? secs); [|injection H3 as <- <-; exact R2].
  rewrite (fst_eq _ _ _ H3). apply rel_fold_sessions; [exact R2|]. intros. apply rel_send_conn.
Qed.

Lemma rel_do_internal xs h c sid s q : get_sess h sid = Some s -> Rel xs h (fst (do_internal h c sid s q)).
Proof.
  intros Hs. unfold do_internal.
  destruct q as [v rn user flags incall|v rn flags incall|v rn|ic].
  - set (k := (s_backend s, rn)). destruct (room_of h k) as [r|]; [|apply rel_refl].
    set (vs := next_id h). set (h0 := set_nextsid h vs).
    match goal with |- context [put_sess ?hh vs ?ss] => set (hr := hh); set (vsess := ss) end.
    set (h1 := put_sess hr vs vsess).
    assert (R1 : Rel xs h h1).
    { apply rel_trans with hr; [rel_ns|]. apply rel_new; [exact (next_id_fresh h)|reflexivity]. }
    set (h2 := set_vtable h1 (pset (h_vtable h1) (sid, v) vs)).
    match goal with |- context [rs_set h2 vs ?x] => set (h5 := rs_set h2 vs x) end.
    assert (R5 : Rel xs h h5).
    { eapply rel_trans; [exact R1|]. apply rel_trans with h2; [rel_ns|apply rel_rs_set]. }
    match goal with |- context [let '(h10, outs10) := match ?pvx with Some _ => _ | None => _ end in _] => destruct pvx as [pv|] end.
    + match goal with |- context [close_one ?hh pv] => set (h9 := hh) end.
      assert (R9 : Rel xs h h9).
      { unfold h9. peel. destruct (N.eqb _ 0); repeat peel; exact R5. }
      destruct (close_one h9 pv) as [h10 o10] eqn:H10. cbn [fst]. rewrite (fst_eq _ _ _ H10).
      eapply rel_trans; [exact R9|apply rel_close_one].
    + cbn [fst]. peel. destruct (N.eqb _ 0); repeat peel; exact R5.
  - set (k := (s_backend s, rn)).
    destruct (room_of h k) as [r|]; [|apply rel_refl]. destruct (pget (h_vtable h) (sid, v)) as [vs|]; [|apply rel_refl].
    destruct (get_sess h vs) as [t|] eqn:Ht; [|apply rel_refl]. cbn [fst].
    match goal with |- context [put_sess h vs ?t1] => set (h1 := put_sess h vs t1) end.
    assert (R1 : Rel xs h h1) by (apply rel_put with t; [exact Ht|reflexivity]).
    repeat match goal with |- context [if ?c then _ else _] => destruct c end; repeat peel;
      try (eapply rel_trans; [|apply rel_set_incall]); repeat peel; exact R1.
  - set (k := (s_backend s, rn)).
    destruct (room_of h k) as [r|]; [|apply rel_refl]. destruct (pget (h_vtable h) (sid, v)) as [vs|]; [|apply rel_refl].
    eapply rel_trans; [|apply rel_close_one]. rel_ns.
  - destruct (N.eqb ic (s_incall s)); [apply rel_refl|].
    match goal with |- context [put_sess h sid ?t1] => set (h1 := put_sess h sid t1) end.
    assert (R1 : Rel xs h h1) by (apply rel_put with s; [exact Hs|reflexivity]).
    destruct (s_room s) as [k|]; [|exact R1].
    destruct (N.testbit ic 0); [cbn [fst]; peel; eapply rel_trans; [exact R1|apply rel_set_incall]|].
    destruct (leave_call (set_incall h1 k sid false) sid) as [h2 o2] eqn:H2. cbn [fst]. peel.
    rewrite (fst_eq _ _ _ H2). eapply rel_trans; [exact R1|]. eapply rel_trans; [apply rel_set_incall|apply rel_leave_call].
Qed.

(* ------------------------------------------------------------------ creating objects *)
(* a token that is neither pending nor in any session's tables *)
Definition Fresh (h : hub) (tok : N) : Prop :=
  tok <= h_mcutok h /\ ~ In tok (pend_keys h) /\ forall sid s, get_sess h sid = Some s -> ~ In tok (toks s).

Lemma NoDup_app_single {A} (l : list A) x : NoDup l -> ~ In x l -> NoDup (l ++ [x]).
Proof.
  induction l as [|y l IH]; cbn; intros H Hx; [constructor; [tauto|constructor]|].
  inversion H as [|? ? Hy Hl]; subst. constructor.
  - intros Hin. apply in_app_or in Hin as [Hin|[<-|[]]]; [contradiction|]. apply Hx. now left.
  - apply IH; [assumption|]. intros Hin. apply Hx. now right.
Qed.
Lemma NoDup_insert_mid {A} (a b : list A) x : NoDup (a ++ b) -> ~ In x (a ++ b) -> NoDup ((a ++ [x]) ++ b).
Proof.
  induction a as [|y a IH]; cbn; intros H Hx; [now constructor|].
  inversion H as [|? ? Hy Hl]; subst. constructor.
  - intros Hin. apply in_app_or in Hin as [Hin|Hin].
    + apply in_app_or in Hin as [Hin|[<-|[]]]; [apply Hy, in_or_app; now left|]. apply Hx. now left.
    + apply Hy, in_or_app. now right.
  - apply IH; [assumption|]. intros Hin. apply Hx. now right.
Qed.

(* changing the token counter and the pending table only *)
Lemma inv_set_mcu h t pend :
  Inv h -> h_mcutok h <= t ->
  (forall k, In k (map fst pend) -> In k (pend_keys h) \/ (h_mcutok h < k /\ k <= t)) ->
  Inv (set_mcu h t pend (h_mcuopen h)).
Proof.
  intros I Ht Hp. constructor; try apply I.
  2:{ pose proof (i_uniq _ I) as U. constructor; [apply (u_keys _ U)|apply (u_skeys _ U)|apply (u_slot _ U)|apply (u_sess _ U)]. }
  constructor.
  - intros sid s tok Hs Hin. destruct (ti_held _ (i_tok _ I) sid s tok Hs Hin) as [H1 H2]. msimpl. split; [lia|].
    intros Hk. destruct (Hp tok Hk) as [Hk'|[Hk' _]]; [contradiction|lia].
  - intros tok Hk. msimpl. destruct (Hp tok Hk) as [Hk'|[_ Hk']]; [|assumption].
    pose proof (ti_pend _ (i_tok _ I) tok Hk'). lia.
Qed.

(* a session takes a fresh token into its tables and the token becomes open *)
Lemma inv_add h sid s s1 tok :
  Inv h -> Fresh h tok -> get_sess h sid = Some s ->
  (forall t, In t (toks s1) <-> t = tok \/ In t (toks s)) ->
  NoDup (toks s1) -> NoDup (map fst (s_pubs s1)) -> NoDup (map fst (s_subs s1)) ->
  (is_virtual (s_kind s1) = false -> sess_hold s1) ->
  Inv (set_mcu (put_sess h sid s1) (h_mcutok h) (h_mcupending h) (h_mcuopen h ++ [tok])).
Proof.
  intros I (Fle & Fpend & Fheld) Hs Ht Hnd Hk1 Hk2 Hho.
  match goal with |- Inv ?X => set (F := X) end.
  assert (Hget : forall x, get_sess F x = if N.eqb x sid then Some s1 else get_sess h x) by (intros x; apply get_put).
  assert (Hopen : h_mcuopen F = h_mcuopen h ++ [tok]) by reflexivity.
  assert (Hnotopen : ~ In tok (h_mcuopen h)).
  { intros Hin. destruct (i_own _ I tok Hin) as (x & sx & Hx & Hin'). eapply Fheld; eauto. }
  constructor.
  - intros t. rewrite Hopen. intros Hin. apply in_app_or in Hin as [Hin|[<-|[]]].
    + destruct (i_own _ I t Hin) as (x & sx & Hx & Hin'). exists x. rewrite Hget. destruct (N.eqb_spec x sid) as [->|].
      * exists s1. split; [reflexivity|]. apply Ht. right. congruence.
      * eauto.
    + exists sid, s1. rewrite Hget, N.eqb_refl. split; [reflexivity|]. apply Ht. now left.
  - intros x sx t. rewrite Hget, Hopen. destruct (N.eqb_spec x sid) as [->|]; intros Hx Hin; apply in_or_app.
    + injection Hx as <-. apply Ht in Hin as [->|Hin]; [right; now left|left]. eapply (i_held _ I); eauto.
    + left. eapply (i_held _ I); eauto.
  - rewrite Hopen. apply NoDup_app_single; [apply I|assumption].
  - constructor.
    + intros x sx t. rewrite Hget. destruct (N.eqb_spec x sid) as [->|]; intros Hx Hin.
      * injection Hx as <-. apply Ht in Hin as [->|Hin]; [split; assumption|]. eapply (ti_held _ (i_tok _ I)); eauto.
      * eapply (ti_held _ (i_tok _ I)); eauto.
    + apply (ti_pend _ (i_tok _ I)).
  - pose proof (i_uniq _ I) as U. constructor.
    + intros x sx. rewrite Hget. destruct (N.eqb_spec x sid) as [->|]; intros Hx; [injection Hx as <-; assumption|eapply u_keys; eauto].
    + intros x sx. rewrite Hget. destruct (N.eqb_spec x sid) as [->|]; intros Hx; [injection Hx as <-; assumption|eapply u_skeys; eauto].
    + intros x sx. rewrite Hget. destruct (N.eqb_spec x sid) as [->|]; intros Hx; [injection Hx as <-; assumption|eapply (u_slot _ U); eauto].
    + intros x1 x2 sx1 sx2 t. rewrite !Hget.
      destruct (N.eqb_spec x1 sid) as [->|N1]; destruct (N.eqb_spec x2 sid) as [->|N2]; intros H1 H2 I1 I2; try reflexivity.
      * injection H1 as <-. apply Ht in I1 as [->|I1]; [exfalso; eapply Fheld; eauto|]. eapply (u_sess _ U); eauto.
      * injection H2 as <-. apply Ht in I2 as [->|I2]; [exfalso; eapply Fheld; eauto|]. eapply (u_sess _ U); eauto.
      * eapply (u_sess _ U); eauto.
  - intros x sx. rewrite Hget. destruct (N.eqb_spec x sid) as [->|]; intros Hx; [injection Hx as <-; assumption|].
    eapply (i_hold _ I); eauto.
Qed.

Lemma media_of_aset pm tok m t : media_of (aset pm tok m) t = if N.eqb t tok then m else media_of pm t.
Proof. unfold media_of. rewrite aget_aset. destruct (N.eqb t tok); reflexivity. Qed.

Lemma inv_add_pub h sid s stream tok media :
  Inv h -> Fresh h tok -> get_sess h sid = Some s -> aget (s_pubs s) stream = None ->
  offer_allowed (s_perms s) stream media = true ->
  Inv (set_mcu (put_sess h sid (sess_media s (s_incall s) (s_flags s) (aset (s_pubs s) stream tok) (s_subs s) (aset (s_pubmedia s) tok media)))
               (h_mcutok h) (h_mcupending h) (h_mcuopen h ++ [tok])).
Proof.
  intros I F Hs Hn Hoff. pose proof F as (_ & _ & Fheld).
  pose proof (i_uniq _ I) as U.
  apply inv_add with s; auto; cbn [s_pubs s_subs s_pubmedia s_perms s_kind sess_media]; rewrite ?(aset_new _ _ _ Hn).
  - intros t. unfold toks. cbn [s_pubs s_subs sess_media]. rewrite ?(aset_new _ _ _ Hn), map_app. cbn [map snd].
    rewrite !in_app_iff. cbn [In]. split; [intros [[H|[H|[]]]|H]|intros [H|[H|H]]]; auto.
  - unfold toks. cbn [s_pubs s_subs sess_media]. rewrite ?(aset_new _ _ _ Hn), map_app. cbn [map snd].
    apply NoDup_insert_mid; [apply (u_slot _ U sid s Hs)|apply (Fheld sid s Hs)].
  - rewrite map_app. cbn [map fst]. apply NoDup_app_single; [eapply u_keys; eauto|now apply aget_none_keys].
  - eapply u_skeys; eauto.
  - intros Hv st t Hin. cbn [s_pubs s_pubmedia s_perms sess_media] in *. rewrite ?(aset_new _ _ _ Hn) in Hin.
    rewrite media_of_aset. apply in_app_or in Hin as [Hin|[Hin|[]]].
    + destruct (N.eqb_spec t tok) as [->|].
      * exfalso. apply (Fheld sid s Hs). unfold toks. apply in_or_app. left. apply in_map_iff. exists (st, tok). auto.
      * apply (i_hold _ I sid s Hs Hv st t Hin).
    + injection Hin as <- <-. rewrite N.eqb_refl. exact Hoff.
Qed.

Lemma inv_add_sub h sid s key tok :
  Inv h -> Fresh h tok -> get_sess h sid = Some s -> pget (s_subs s) key = None ->
  Inv (set_mcu (put_sess h sid (sess_media s (s_incall s) (s_flags s) (s_pubs s) (pset (s_subs s) key tok) (s_pubmedia s)))
               (h_mcutok h) (h_mcupending h) (h_mcuopen h ++ [tok])).
Proof.
  intros I F Hs Hn. pose proof F as (_ & _ & Fheld).
  pose proof (i_uniq _ I) as U.
  apply inv_add with s; auto; cbn [s_pubs s_subs s_pubmedia s_perms s_kind sess_media]; rewrite ?(pset_new _ _ _ Hn).
  - intros t. unfold toks. cbn [s_pubs s_subs sess_media]. rewrite ?(pset_new _ _ _ Hn), map_app. cbn [map snd].
    rewrite !in_app_iff. cbn [In]. split; [intros [H|[H|[H|[]]]]|intros [H|[H|H]]]; auto.
  - unfold toks. cbn [s_pubs s_subs sess_media]. rewrite ?(pset_new _ _ _ Hn), map_app. cbn [map snd].
    rewrite app_assoc. apply NoDup_app_single; [apply (u_slot _ U sid s Hs)|apply (Fheld sid s Hs)].
  - eapply u_keys; eauto.
  - rewrite map_app. cbn [map fst]. apply NoDup_app_single; [eapply u_skeys; eauto|now apply pget_none_keys].
  - intros Hv. apply (i_hold _ I sid s Hs Hv).
Qed.

Lemma inv_send_session h x m : Inv h -> Inv (fst (send_session h x m)).
Proof. intros I. apply (inv_rel h); [apply rel_send_session|exact I]. Qed.

Lemma inv_finish_create h tok p ok : Inv h -> Fresh h tok -> Inv (fst (finish_create h tok p ok)).
Proof.
  intros I F. unfold finish_create.
  assert (Hcond : forall hh (b : bool) x m, Inv hh -> Inv (fst (if b then send_session hh x m else (hh, [])))).
  { intros hh b x m Ih. destruct b; [now apply inv_send_session|exact Ih]. }
  destruct ok; cbn [negb].
  2:{ destruct (send_session h (mp_errto p) (SError E_client_not_found)) as [h1 o1] eqn:H1. cbn [fst].
      rewrite (fst_eq _ _ _ H1). now apply inv_send_session. }
  destruct (get_sess h (mp_owner p)) as [s|] eqn:Hs; [|exact I].
  destruct (negb (N.eqb (s_rel s) (mp_rel p))).
  { destruct (send_session h (mp_errto p) (SError E_client_not_found)) as [h1 o1] eqn:H1. cbn [fst].
    rewrite (fst_eq _ _ _ H1). now apply inv_send_session. }
  destruct (N.eqb (mp_kind p) 0 && negb (offer_allowed (s_perms s) (mp_stream p) (N.land (mp_media p) 3))) eqn:Hchk.
  { destruct (send_session h (mp_errto p) (SError E_not_allowed)) as [h1 o1] eqn:H1. cbn [fst].
    rewrite (fst_eq _ _ _ H1). now apply inv_send_session. }
  destruct (N.eqb (mp_kind p) 0) eqn:Hkind.
  - destruct (aget (s_pubs s) (mp_stream p)) eqn:Hslot.
    + match goal with |- context [let '(h1, o1) := ?X in _] => destruct X as [h1 o1] eqn:H1 end. cbn [fst].
      rewrite (fst_eq _ _ _ H1). now apply Hcond.
    + match goal with |- context [let '(h3, o3) := ?X in _] => destruct X as [h3 o3] eqn:H3 end. cbn [fst].
      rewrite (fst_eq _ _ _ H3). apply Hcond.
      cbn [andb] in Hchk. apply negb_false_iff in Hchk. rewrite offer_allowed_land in Hchk.
      exact (inv_add_pub h (mp_owner p) s (mp_stream p) tok (mp_media p) I F Hs Hslot Hchk).
  - destruct (sub_get s (mp_pubof p) (mp_stream p)) eqn:Hslot.
    + match goal with |- context [let '(h1, o1) := ?X in _] => destruct X as [h1 o1] eqn:H1 end. cbn [fst].
      rewrite (fst_eq _ _ _ H1). now apply Hcond.
    + match goal with |- context [let '(h3, o3) := ?X in _] => destruct X as [h3 o3] eqn:H3 end. cbn [fst].
      rewrite (fst_eq _ _ _ H3). apply Hcond.
      exact (inv_add_sub h (mp_owner p) s (mp_pubof p, mp_stream p) tok I F Hs Hslot).
Qed.

Lemma inv_start_create h p : Inv h -> Inv (fst (start_create h p)).
Proof.
  intros I. unfold start_create. pose proof (i_tok _ I) as T.
  destruct (h_gated h).
  - cbn [fst]. apply inv_set_mcu; [exact I|lia|].
    intros k. rewrite map_app. cbn [map fst]. intros Hin. apply in_app_or in Hin as [Hin|[<-|[]]]; [now left|right; lia].
  - match goal with |- context [let '(h1, o1) := ?X in _] => destruct X as [h1 o1] eqn:H1 end. cbn [fst].
    rewrite (fst_eq _ _ _ H1). apply inv_finish_create.
    + apply inv_set_mcu; [exact I|lia|]. intros k Hk. now left.
    + split; [msimpl; lia|]. split.
      * intros Hin. pose proof (ti_pend _ T _ Hin). lia.
      * intros sid s Hs Hin. destruct (ti_held _ T sid s _ Hs Hin). lia.
Qed.

Lemma inv_do_mcudone h tok ok : Inv h -> Inv (fst (do_mcudone h tok ok)).
Proof.
  intros I. unfold do_mcudone. pose proof (i_tok _ I) as T.
  destruct (aget (h_mcupending h) tok) as [p|] eqn:Hp; [|exact I].
  apply aget_some_keys in Hp. apply inv_finish_create.
  - apply inv_set_mcu; [exact I|lia|]. intros k Hk. left. now apply in_keys_adel in Hk as [Hk _].
  - split; [apply (ti_pend _ T _ Hp)|]. split.
    + intros Hin. apply in_keys_adel in Hin as [_ Hne]. now apply Hne.
    + intros sid s Hs Hin. destruct (ti_held _ T sid s _ Hs Hin) as [_ Hn]. now apply Hn.
Qed.

(* a session record changes without its tables changing *)
Lemma inv_put_same h sid s s1 :
  Inv h -> get_sess h sid = Some s -> s_pubs s1 = s_pubs s -> s_subs s1 = s_subs s ->
  (is_virtual (s_kind s1) = false -> sess_hold s1) -> Inv (put_sess h sid s1).
Proof.
  intros I Hs Hp Hsu Hho.
  assert (Ht : toks s1 = toks s) by (unfold toks; now rewrite Hp, Hsu).
  assert (Hget : forall x, get_sess (put_sess h sid s1) x = if N.eqb x sid then Some s1 else get_sess h x) by apply get_put.
  assert (Hback : forall x sx, get_sess (put_sess h sid s1) x = Some sx -> exists s0, get_sess h x = Some s0 /\ toks sx = toks s0 /\ s_pubs sx = s_pubs s0 /\ s_subs sx = s_subs s0).
  { intros x sx. rewrite Hget. destruct (N.eqb_spec x sid) as [->|]; intros H; [injection H as <-|]; eauto 6. }
  pose proof (i_uniq _ I) as U. constructor.
  - intros t Hin. destruct (i_own _ I t Hin) as (x & sx & Hx & Hin'). exists x. rewrite Hget.
    destruct (N.eqb_spec x sid) as [->|]; [|eauto]. exists s1. split; [reflexivity|]. rewrite Ht. congruence.
  - intros x sx t Hx Hin. destruct (Hback x sx Hx) as (s0 & H0 & E & _). rewrite E in Hin. eapply (i_held _ I); eauto.
  - apply I.
  - constructor; [|apply (ti_pend _ (i_tok _ I))].
    intros x sx t Hx Hin. destruct (Hback x sx Hx) as (s0 & H0 & E & _). rewrite E in Hin. eapply (ti_held _ (i_tok _ I)); eauto.
  - constructor.
    + intros x sx Hx. destruct (Hback x sx Hx) as (s0 & H0 & _ & E & _). rewrite E. eapply u_keys; eauto.
    + intros x sx Hx. destruct (Hback x sx Hx) as (s0 & H0 & _ & _ & E). rewrite E. eapply u_skeys; eauto.
    + intros x sx Hx. destruct (Hback x sx Hx) as (s0 & H0 & E & _). rewrite E. eapply (u_slot _ U); eauto.
    + intros x1 x2 sx1 sx2 t H1 H2 I1 I2. destruct (Hback x1 sx1 H1) as (s01 & H01 & E1 & _). destruct (Hback x2 sx2 H2) as (s02 & H02 & E2 & _).
      rewrite E1 in I1. rewrite E2 in I2. eapply (u_sess _ U); eauto.
  - intros x sx. rewrite Hget. destruct (N.eqb_spec x sid) as [->|]; intros Hx; [injection Hx as <-; assumption|].
    eapply (i_hold _ I); eauto.
Qed.

Lemma offer_allowed_4 p st : st <> 2 -> offer_allowed p st 4 = true.
Proof. intros H. unfold offer_allowed. destruct (N.eqb_spec st 2); [contradiction|reflexivity]. Qed.

Lemma inv_do_sendoffer h c x s i stream : Inv h -> Inv (fst (do_sendoffer h c x s i stream)).
Proof.
  intros I.
  unfold do_sendoffer.
  destruct i as [n|n|k|n]; try (destruct (negb (send_allowed (s_perms s) stream)); [exact I|exact I]).
  destruct (get_sess h n) as [t|] eqn:Ht; [|destruct (negb (send_allowed (s_perms s) stream)); [exact I|exact I]].
  destruct (N.eqb_spec (s_backend t) (s_backend s)) as [Hbt|]; cbn [negb]; [|exact I].
  destruct (N.eqb n x); [exact I|].
  destruct (negb (send_allowed (s_perms s) stream)); [exact I|].
  cbv zeta. set (r := match s_kind t with KVirtual p _ => p | _ => n end).
  destruct (get_sess h r) as [rs|] eqn:Hr; [|exact I].
  destruct (is_virtual (s_kind rs)) eqn:Hv; [exact I|].
  destruct (sub_get rs x stream); [now apply inv_send_session|now apply inv_start_create].
Qed.

Lemma inv_do_media h c sid s to mk stream media :
  Inv h -> get_sess h sid = Some s -> Inv (fst (do_media h c sid s to mk stream media)).
Proof.
  intros I Hs. unfold do_media. destruct to as [i|u| |]; try exact I.
  destruct (N.eqb mk 0).
  - destruct (negb (offer_allowed (s_perms s) stream _)) eqn:Hoff; [exact I|]. apply negb_false_iff in Hoff.
    destruct (aget (s_pubs s) stream) as [tok|] eqn:Hslot; [|now apply inv_start_create].
    apply inv_send_session. apply inv_put_same with s; auto.
    intros Hv st t Hin. cbn [s_pubs s_pubmedia s_perms s_kind sess_media] in *. rewrite media_of_aset.
    destruct (N.eqb_spec t tok) as [->|]; [|apply (i_hold _ I sid s Hs Hv st t Hin)].
    destruct (N.eqb_spec st 2) as [->|Hst].
    + rewrite (offer_allowed_screen _ _ (media_of (s_pubmedia s) tok)). apply (i_hold _ I sid s Hs Hv 2 tok Hin).
    + destruct (N.eqb_spec stream 2) as [->|Hstream]; [now apply offer_allowed_4|].
      rewrite offer_allowed_land, (offer_allowed_stream _ st stream) by assumption. exact Hoff.
  - destruct (N.eqb mk 1).
    + match goal with |- context [if ?c then _ else _] => destruct c end; [exact I|].
      destruct (negb (same_call h sid s _)); [exact I|].
      destruct (sub_get s _ stream); [now apply inv_send_session|now apply inv_start_create].
    + destruct (is_cand mk); [|destruct (N.eqb mk 3); [now apply inv_do_sendoffer|exact I]].
      match goal with |- context [if ?c then _ else _] => destruct c end.
      * destruct (negb (send_allowed (s_perms s) stream)); [exact I|]. destruct (aget (s_pubs s) stream); exact I.
      * destruct (sub_get s _ stream); exact I.
Qed.

(* ------------------------------------------------------------------ every step keeps the invariant *)
Lemma opt_pair_eqb_refl k : opt_pair_eqb (Some k) (Some k) = true.
Proof. cbn. apply pair_eqb_refl. Qed.
Lemma opt_pair_eqb_eq a b : opt_pair_eqb a b = true -> a = b.
Proof.
  destruct a as [x|], b as [y|]; cbn; try discriminate; [|reflexivity].
  intros H. destruct (pair_eqb_spec x y); [congruence|discriminate].
Qed.

Lemma inv_init limits gated : Inv (init limits gated).
Proof.
  assert (Hn : forall sid, get_sess (init limits gated) sid = None) by reflexivity.
  constructor.
  - intros tok [].
  - intros sid s tok Hs. rewrite Hn in Hs. discriminate.
  - constructor.
  - constructor; [intros sid s tok Hs; rewrite Hn in Hs; discriminate|intros tok []].
  - constructor; intros; rewrite Hn in *; discriminate.
  - intros sid s Hs. rewrite Hn in Hs. discriminate.
Qed.

Theorem inv_step h o : WF h -> Inv h -> Inv (fst (step h o)).
Proof.
  intros W I.
  assert (Hrel : forall h', Rel none1 h h' -> Inv h') by (intros h' R; now apply (inv_rel h)).
  assert (Hws : forall c (f : conn -> N -> session -> hub * list out),
            (forall cn sid s, aget (h_conns h) c = Some cn -> get_sess h sid = Some s -> Inv (fst (f cn sid s))) ->
            Inv (fst (with_session h c f))).
  { intros c f Hf. unfold with_session. destruct (aget (h_conns h) c) as [cn|] eqn:Hc; [|exact I].
    destruct (c_sess cn) as [sid|]; [|exact I]. destruct (get_sess h sid) as [s|] eqn:Hs; [|exact I]. eauto. }
  destruct o as [c addr|c hl|c rn rs rep|c to tag|c to tag|c|c|secs|b signas room q|c q|c to mk stream media|tok ok|c kindn key val|pos|c hl late]; cbn [step].
  15:{ (* a hello whose connection is closed while it is processed *)
    destruct (aget (h_conns h) c) as [cn|]; [|exact I]. destruct (c_sess cn); [exact I|].
    destruct hl as [b u rej|b u t|b tok f d|i]; try exact I.
    - destruct rej; [exact I|]. destruct (h_nb h <=? b); [exact I|].
      match goal with |- context [close_conn ?hh c] => destruct (close_conn hh c) as [h2 o2] eqn:H2 end. cbn [fst].
      rewrite (fst_eq _ _ _ H2). apply Hrel.
      match goal with |- Rel _ _ (fst (close_conn ?hh c)) => apply rel_trans with hh; [destruct late; [rel_ns|apply rel_refl]|apply rel_close_conn] end.
    - apply Hrel. apply rel_close_conn. }
  - destruct (aget (h_conns h) c); [exact I|]. apply Hrel. rel_ns.
  - destruct (aget (h_conns h) c) as [cn|]; [|exact I]. destruct (c_sess cn); [exact I|]. apply Hrel.
    match goal with |- Rel _ _ (fst (do_hello ?hh _ _ _)) => apply rel_trans with hh; [rel_ns|apply rel_do_hello] end.
  - (* join: the reply may set new permissions; the publishers are then checked against them *)
    apply Hws. intros cn sid s Hc Hs.
    destruct (do_join_both h c sid s rn rs rep Hs) as [R1 Hroom].
    destruct (do_join h c sid s rn rs rep) as [h1 o1] eqn:H1. cbn [fst] in R1, Hroom.
    assert (Hno : ~ join_sets_perms h sid s rn rep -> Inv h1).
    { intros Hn. apply Hrel. eapply rel_weaken; [|exact R1]. intros x [_ Hx]. contradiction. }
    destruct rep as [[pm|] su|code]; cbv iota beta.
    + destruct (get_sess h1 sid) as [s1|] eqn:Hs1; cbv iota beta.
      * match goal with |- context [if ?cnd then _ else _] => destruct cnd eqn:Hcnd end.
        -- destruct (revoke h1 sid) as [h2 o2] eqn:H2. cbn [fst]. pose proof (fst_eq _ _ _ H2) as E2.
           eapply (inv_rel_xs _ h); [eapply rel_trans; [exact R1|rewrite E2; apply rel_revoke]|exact I|].
           intros x s' [-> _] Hs' _. rewrite E2 in Hs'. eapply revoke_establishes; eauto.
        -- cbn [fst]. apply Hno. intros J. pose proof J as (Jrn & Jint & Jin & _).
           assert (E1 : s_room s1 = Some (s_backend s, rn)) by (apply Hroom; auto).
           assert (E3 : s_room s <> Some (s_backend s, rn)).
           { intros E. destruct (wf_room _ _ h W sid s _ Hs E) as [[]|[r [Hr Hm]]]. rewrite Hr in Jin. apply nmem_In in Hm. congruence. }
           rewrite E1, opt_pair_eqb_refl, Jint in Hcnd. destruct (N.eqb_spec rn 0); [contradiction|]. cbn in Hcnd.
           destruct (opt_pair_eqb (s_room s) (Some (s_backend s, rn))) eqn:E4; [apply opt_pair_eqb_eq in E4; contradiction|discriminate].
      * cbn [fst]. apply (inv_rel_xs _ h h1 R1 I). intros x s' [-> _] Hs'. congruence.
    + apply Hno. intros (_ & _ & _ & p & su0 & H). discriminate.
    + apply Hno. intros (_ & _ & _ & p & su0 & H). discriminate.
  - apply Hws. intros. apply Hrel, rel_do_message.
  - apply Hws. intros cn sid s _ _. destruct (allowed_control s); [apply Hrel, rel_do_message|exact I].
  - destruct (aget (h_conns h) c) as [cn|]; [|exact I]. destruct (c_sess cn); [apply Hrel, rel_send_conn|exact I].
  - destruct (aget (h_conns h) c) as [cn|]; [|exact I]. cbv zeta.
    destruct (c_sess cn) as [sid|]; [|apply Hrel; rel_ns].
    destruct (get_sess (set_conns h (adel (h_conns h) c)) sid) as [s|] eqn:Hs; [|apply Hrel; rel_ns]. cbn [fst].
    apply Hrel. peel. peel. apply rel_trans with (set_conns h (adel (h_conns h) c)); [rel_ns|].
    apply rel_put with s; [exact Hs|reflexivity].
  - apply Hrel, rel_do_tick.
  - destruct (negb (N.eqb b signas) || (h_nb h <=? b)); [exact I|]. apply Hrel, rel_do_api.
  - apply Hws. intros cn sid s Hc Hs. destruct (is_internal (s_kind s)); [apply Hrel; now apply rel_do_internal|exact I].
  - apply Hws. intros. now apply inv_do_media.
  - now apply inv_do_mcudone.
  - apply Hws. intros cn sid s Hc Hs. destruct (s_room s) as [k|]; [|exact I].
    destruct (2 <=? kindn); [exact I|].
    destruct (negb (allowed_transient s)); [exact I|]. destruct (room_of h k) as [r|]; [|exact I].
    apply Hrel, rel_transient_update.
  - now apply inv_deliver_at.
Qed.

Lemma inv_drain fuel : forall h, Inv h -> Inv (fst (drain fuel h)).
Proof.
  induction fuel as [|f IH]; intros h I; cbn [drain]; [exact I|].
  destruct (h_bus h); [exact I|].
  destruct (deliver_at h 0) as [h1 o1] eqn:H1. destruct (drain f h1) as [h2 o2] eqn:H2. cbn [fst].
  rewrite (fst_eq _ _ _ H2). apply IH. rewrite (fst_eq _ _ _ H1). now apply inv_deliver_at.
Qed.

Theorem inv_qstep h o : WF h -> Inv h -> Inv (fst (qstep h o)).
Proof.
  intros W I. unfold qstep. destruct (step h o) as [h1 o1] eqn:H1. destruct (drain 500 h1) as [h2 o2] eqn:H2. cbn [fst].
  rewrite (fst_eq _ _ _ H2). apply inv_drain. rewrite (fst_eq _ _ _ H1). now apply inv_step.
Qed.

Theorem inv_run ops : forall h, WF h -> Inv h -> Inv (run h ops).
Proof. induction ops as [|o r IH]; intros h W I; cbn [run]; [exact I|]. apply IH; [now apply wf_step|now apply inv_step]. Qed.
Theorem inv_qrun ops : forall h, WF h -> Inv h -> Inv (qrun h ops).
Proof. induction ops as [|o r IH]; intros h W I; cbn [qrun]; [exact I|]. apply IH; [now apply wf_qstep|now apply inv_qstep]. Qed.

Theorem inv_reachable limits gated ops : Inv (run (init limits gated) ops).
Proof. apply inv_run; [apply wf_init|apply inv_init]. Qed.
Theorem inv_reachable_q limits gated ops : Inv (qrun (init limits gated) ops).
Proof. apply inv_qrun; [apply wf_init|apply inv_init]. Qed.

(* ------------------------------------------------------------------ reachable states *)
(* Main results below:
   inv_step / inv_qstep / inv_run / inv_qrun / inv_reachable(_q)   the invariant Inv for every history
   own_reachable, owner_unique, held_reachable, nothing_outlives_owner, nodup_reachable,
   one_publisher_per_stream, hold_reachable and its readable forms   its parts, spelled out
   close_session_closes, close_one_closes, leave_room_closes, leave_call_closes, revoke_closes,
   ..._emits_close                                                   releasing, in any state
   completion_owned_or_closed                                        no unowned duplicate
   request_needs_same_call, offer_needs_permission                   the gates of do_media *)
Definition reachable (h : hub) : Prop :=
  exists limits gated ops, h = run (init limits gated) ops \/ h = qrun (init limits gated) ops.
Theorem reachable_inv h : reachable h -> Inv h.
Proof. intros (l & g & ops & [->| ->]); [apply inv_reachable|apply inv_reachable_q]. Qed.
Theorem reachable_wf h : reachable h -> WF h.
Proof. intros (l & g & ops & [->| ->]); [apply wf_reachable|apply wf_reachable_q]. Qed.

(* 1. ownership: every open object is in the tables of a live session, and only of that one *)
Theorem own_reachable h : reachable h ->
  forall tok, In tok h.(h_mcuopen) ->
  exists sid s, get_sess h sid = Some s /\ In tok (map snd s.(s_pubs) ++ map snd s.(s_subs)).
Proof. intros R. exact (i_own _ (reachable_inv h R)). Qed.

Theorem owner_unique h : Inv h -> forall tok, In tok h.(h_mcuopen) ->
  exists sid s, get_sess h sid = Some s /\ In tok (map snd s.(s_pubs) ++ map snd s.(s_subs)) /\
    forall sid' s', get_sess h sid' = Some s' -> In tok (map snd s'.(s_pubs) ++ map snd s'.(s_subs)) -> sid' = sid.
Proof.
  intros I tok Hin. destruct (i_own _ I tok Hin) as (sid & s & Hs & Ht). exists sid, s. split; [assumption|]. split; [assumption|].
  intros sid' s' Hs' Ht'. eapply (u_sess _ (i_uniq _ I)); eauto.
Qed.

(* the converse: what a live session has in its tables is open at the media server *)
Theorem held_reachable h : reachable h ->
  forall sid s tok, get_sess h sid = Some s -> In tok (map snd s.(s_pubs) ++ map snd s.(s_subs)) -> In tok h.(h_mcuopen).
Proof. intros R. exact (i_held _ (reachable_inv h R)). Qed.

(* nothing outlives its owner: a token that no live session holds is not open *)
Theorem nothing_outlives_owner h : reachable h -> forall tok,
  (forall sid s, get_sess h sid = Some s -> ~ In tok (map snd s.(s_pubs) ++ map snd s.(s_subs))) -> ~ In tok h.(h_mcuopen).
Proof. intros R tok Hn Hin. destruct (own_reachable h R tok Hin) as (sid & s & Hs & Ht). eapply Hn; eauto. Qed.

(* 2. no duplicates *)
Theorem nodup_reachable h : reachable h ->
  NoDup h.(h_mcuopen) /\
  (forall sid s, get_sess h sid = Some s ->
     NoDup (map fst s.(s_pubs)) /\ NoDup (map fst s.(s_subs)) /\ NoDup (map snd s.(s_pubs) ++ map snd s.(s_subs))).
Proof.
  intros R. pose proof (reachable_inv h R) as I. split; [apply I|]. intros sid s Hs. pose proof (i_uniq _ I) as U.
  split; [eapply u_keys; eauto|]. split; [eapply u_skeys; eauto|]. apply (u_slot _ U sid s Hs).
Qed.

(* at most one publisher per session and stream type *)
Theorem one_publisher_per_stream h : reachable h -> forall sid s stream t1 t2,
  get_sess h sid = Some s -> In (stream, t1) s.(s_pubs) -> In (stream, t2) s.(s_pubs) -> t1 = t2.
Proof.
  intros R sid s stream t1 t2 Hs H1 H2. destruct (nodup_reachable h R) as [_ Hn]. destruct (Hn sid s Hs) as [Hk _].
  clear - Hk H1 H2. induction (s_pubs s) as [|[st t] l IH]; [destruct H1|]. cbn in Hk. inversion Hk as [|? ? Hx Hl]; subst.
  destruct H1 as [H1|H1], H2 as [H2|H2].
  - congruence.
  - injection H1 as -> ->. exfalso. apply Hx. apply in_map_iff. exists (stream, t2). auto.
  - injection H2 as -> ->. exfalso. apply Hx. apply in_map_iff. exists (stream, t1). auto.
  - auto.
Qed.

(* ------------------------------------------------------------------ closing and leaving release *)
Lemma close_all_gone kids sid : forall hh o, get_sess hh sid = None -> get_sess (fst (close_all kids (hh, o))) sid = None.
Proof.
  induction kids as [|k kids IH]; intros hh o Hn; cbn [close_all fold_left fst]; [exact Hn|].
  destruct (close_one hh k) as [h1 o1] eqn:Hc. fold (close_all kids (h1, o ++ o1)). apply IH.
  rewrite (fst_eq _ _ _ Hc). destruct (N.eq_dec sid k) as [->|Hne]; [apply close_one_gone|].
  pose proof (close_one_core hh k sid Hne) as Hq. rewrite Hn in Hq. destruct (get_sess (fst (close_one hh k)) sid); [discriminate|reflexivity].
Qed.
Lemma close_session_gone h sid : get_sess (fst (close_session h sid)) sid = None.
Proof.
  unfold close_session. destruct (close_one h sid) as [h1 o1] eqn:Hc.
  fold (close_all (children h sid) (h1, o1)). apply close_all_gone. rewrite (fst_eq _ _ _ Hc). apply close_one_gone.
Qed.

(* after a session is closed, nothing it held is open (any state) *)
Theorem close_session_closes h sid s tok :
  get_sess h sid = Some s -> In tok (map snd s.(s_pubs) ++ map snd s.(s_subs)) ->
  ~ In tok (h_mcuopen (fst (close_session h sid))).
Proof.
  intros Hs Ht Hin. destruct (r_own _ _ _ (rel_close_session none1 h sid) tok sid s Hin Hs Ht) as [s' [Hs' _]].
  rewrite close_session_gone in Hs'. discriminate.
Qed.
Theorem close_one_closes h sid s tok :
  get_sess h sid = Some s -> In tok (map snd s.(s_pubs) ++ map snd s.(s_subs)) ->
  ~ In tok (h_mcuopen (fst (close_one h sid))).
Proof.
  intros Hs Ht Hin. destruct (r_own _ _ _ (rel_close_one none1 h sid) tok sid s Hin Hs Ht) as [s' [Hs' _]].
  rewrite close_one_gone in Hs'. discriminate.
Qed.

Lemma room_remove_sessions h k sid : h_sessions (room_remove h k sid) = h_sessions h.
Proof.
  unfold room_remove. destruct (room_of h k) as [r|]; [|reflexivity]. destruct (nmem sid (r_members r)); [|reflexivity].
  unfold publish, remove_room_if_empty.
  match goal with |- context [room_of ?hh k] => destruct (room_of hh k) as [r1|] end; [destruct (r_members r1)|]; reflexivity.
Qed.
Lemma leave_room_released h sid n s k s' :
  get_sess h sid = Some s -> s_room s = Some k -> is_virtual (s_kind s) = false ->
  get_sess (fst (leave_room h sid n)) sid = Some s' -> toks s' = [].
Proof.
  intros Hs Hk Hv. unfold leave_room. rewrite Hs, Hk, Hv.
  match goal with |- context [release_mcu ?hh sid] => destruct (release_mcu hh sid) as [h3 o2] eqn:Hr end. cbn [fst].
  unfold get_sess. rewrite room_remove_sessions. intros H.
  match type of Hr with release_mcu ?hh sid = _ => apply (release_mcu_empty hh sid s') end. rewrite Hr. exact H.
Qed.
(* after a (non-virtual) session left its room, nothing it held is open *)
Theorem leave_room_closes h sid n s k tok :
  get_sess h sid = Some s -> s_room s = Some k -> is_virtual (s_kind s) = false ->
  In tok (map snd s.(s_pubs) ++ map snd s.(s_subs)) -> ~ In tok (h_mcuopen (fst (leave_room h sid n))).
Proof.
  intros Hs Hk Hv Ht Hin. destruct (r_own _ _ _ (rel_leave_room none1 h sid n) tok sid s Hin Hs Ht) as [s' [Hs' Ht']].
  rewrite (leave_room_released h sid n s k s' Hs Hk Hv Hs') in Ht'. destruct Ht'.
Qed.
(* ... and the same when it leaves the call *)
Theorem leave_call_closes h sid s k tok :
  get_sess h sid = Some s -> s_room s = Some k -> is_virtual (s_kind s) = false ->
  In tok (map snd s.(s_pubs) ++ map snd s.(s_subs)) -> ~ In tok (h_mcuopen (fst (leave_call h sid))).
Proof.
  intros Hs Hk Hv Ht Hin. destruct (r_own _ _ _ (rel_leave_call none1 h sid) tok sid s Hin Hs Ht) as [s' [Hs' Ht']].
  unfold leave_call in Hs'. rewrite Hs, Hk in Hs'. destruct (s_kind s); try discriminate;
    rewrite (release_mcu_empty h sid s' Hs') in Ht'; destruct Ht'.
Qed.
(* a publisher the permissions no longer allow is closed by the revocation *)
Theorem revoke_closes h sid s stream tok :
  get_sess h sid = Some s -> In (stream, tok) s.(s_pubs) ->
  offer_allowed s.(s_perms) stream (media_of s.(s_pubmedia) tok) = false ->
  ~ In tok (h_mcuopen (fst (revoke h sid))).
Proof.
  intros Hs Hin Hoff. rewrite revoke_eq, Hs. unfold close_tokens. cbn [fst]. msimpl. rewrite in_fold_nrem.
  intros [_ Hn]. apply Hn. apply in_map_iff. exists (stream, tok). split; [reflexivity|]. apply filter_In. split; [assumption|].
  rewrite pub_bad_spec, Hoff. reflexivity.
Qed.

(* ------------------------------------------------------------------ 3. permissions *)
Theorem hold_reachable h : reachable h -> forall sid s stream tok,
  get_sess h sid = Some s -> is_virtual s.(s_kind) = false -> In (stream, tok) s.(s_pubs) ->
  offer_allowed s.(s_perms) stream (media_of s.(s_pubmedia) tok) = true.
Proof. intros R sid s stream tok Hs Hv Hin. exact (i_hold _ (reachable_inv h R) sid s Hs Hv stream tok Hin). Qed.

(* readable forms *)
Theorem screen_publisher_needs_permission h : reachable h -> forall sid s tok,
  get_sess h sid = Some s -> is_virtual s.(s_kind) = false -> In (2, tok) s.(s_pubs) -> has_perm s.(s_perms) P_SCREEN = true.
Proof. intros R sid s tok Hs Hv Hin. exact (hold_reachable h R sid s 2 tok Hs Hv Hin). Qed.
Theorem audio_publisher_needs_permission h : reachable h -> forall sid s stream tok,
  get_sess h sid = Some s -> is_virtual s.(s_kind) = false -> In (stream, tok) s.(s_pubs) -> stream <> 2 ->
  N.testbit (media_of s.(s_pubmedia) tok) 0 = true -> has_perm s.(s_perms) P_MEDIA = true \/ has_perm s.(s_perms) P_AUDIO = true.
Proof.
  intros R sid s stream tok Hs Hv Hin Hst Hb. pose proof (hold_reachable h R sid s stream tok Hs Hv Hin) as H.
  unfold offer_allowed in H. destruct (N.eqb_spec stream 2); [contradiction|]. rewrite Hb in H. cbn [negb orb] in H.
  apply andb_prop in H as [H _]. now apply orb_prop in H.
Qed.
Theorem video_publisher_needs_permission h : reachable h -> forall sid s stream tok,
  get_sess h sid = Some s -> is_virtual s.(s_kind) = false -> In (stream, tok) s.(s_pubs) -> stream <> 2 ->
  N.testbit (media_of s.(s_pubmedia) tok) 1 = true -> has_perm s.(s_perms) P_MEDIA = true \/ has_perm s.(s_perms) P_VIDEO = true.
Proof.
  intros R sid s stream tok Hs Hv Hin Hst Hb. pose proof (hold_reachable h R sid s stream tok Hs Hv Hin) as H.
  unfold offer_allowed in H. destruct (N.eqb_spec stream 2); [contradiction|]. rewrite Hb in H. cbn [negb orb] in H.
  apply andb_prop in H as [_ H]. now apply orb_prop in H.
Qed.
(* a session whose backend granted none of the publish permissions has no screen publisher and no
   publisher carrying audio or video *)
Theorem no_publish_permission_no_media h : reachable h -> forall sid s p stream tok,
  get_sess h sid = Some s -> is_virtual s.(s_kind) = false -> s.(s_perms) = Some p ->
  N.testbit p P_AUDIO = false -> N.testbit p P_VIDEO = false -> N.testbit p P_SCREEN = false -> N.testbit p P_MEDIA = false ->
  In (stream, tok) s.(s_pubs) ->
  stream <> 2 /\ N.testbit (media_of s.(s_pubmedia) tok) 0 = false /\ N.testbit (media_of s.(s_pubmedia) tok) 1 = false.
Proof.
  intros R sid s p stream tok Hs Hv Hp Ha Hvi Hsc Hm Hin. pose proof (hold_reachable h R sid s stream tok Hs Hv Hin) as H.
  unfold offer_allowed in H. rewrite Hp in H. cbn [has_perm] in H. rewrite Ha, Hvi, Hsc, Hm in H.
  destruct (N.eqb_spec stream 2); [discriminate|]. split; [assumption|].
  destruct (N.testbit (media_of (s_pubmedia s) tok) 0), (N.testbit (media_of (s_pubmedia s) tok) 1); try discriminate. auto.
Qed.

(* ------------------------------------------------------------------ 4. requesting another session's stream *)
Theorem request_needs_same_call h c sid s n stream media :
  n <> sid -> same_call h sid s n = false ->
  do_media h c sid s (RSession (IdPub n)) 1 stream media = (h, [ToConn c (SError E_not_allowed)]).
Proof.
  intros Hne Hsc. unfold do_media. cbn [N.eqb]. destruct (N.eqb_spec n sid); [contradiction|]. now rewrite Hsc.
Qed.

(* whatever the recipient is: a request that is not for the session's own stream and fails the
   same-room-same-call test starts nothing *)
Theorem request_needs_same_call_any h c sid s i stream media :
  (match i with IdPub x => N.eqb x sid | _ => false end) = false ->
  same_call h sid s (match i with IdPub x => x | _ => 0 end) = false ->
  do_media h c sid s (RSession i) 1 stream media = (h, [ToConn c (SError E_not_allowed)]).
Proof. intros Hself Hsc. unfold do_media. cbn [N.eqb]. now rewrite Hself, Hsc. Qed.

(* ------------------------------------------------------------------ a completed creation is owned or closed *)
Lemma deliver_to_session_keeps h sid m :
  h_mcuopen (fst (deliver_to_session h sid m)) = h_mcuopen h /\
  forall y, option_map mcore (get_sess (fst (deliver_to_session h sid m)) y) = option_map mcore (get_sess h y).
Proof.
  unfold deliver_to_session. destruct (get_sess h sid) as [s|] eqn:Hs; [|split; reflexivity].
  match goal with |- context [let '(m', s1) := ?X in _] => destruct X as [m' s1] eqn:HX end.
  assert (Hc : mcore s1 = mcore s).
  { destruct m; try (injection HX as <- <-; reflexivity).
    - destruct (filter_seen (s_seen s) l) as [keep seen']. injection HX as <- <-. reflexivity. }
  assert (G : forall s2, mcore s2 = mcore s ->
            h_mcuopen (put_sess h sid s2) = h_mcuopen h /\
            forall y, option_map mcore (get_sess (put_sess h sid s2) y) = option_map mcore (get_sess h y)).
  { intros s2 H2. split; [reflexivity|]. intros y. rewrite get_put. destruct (N.eqb_spec y sid) as [->|]; [|reflexivity].
    rewrite Hs. cbn. now rewrite H2. }
  destruct m' as [mm|]; cbn [fst]; [destruct (s_conn s1); cbn [fst]|]; apply G; auto.
Qed.
Lemma send_session_keeps h x m : never_closing m = true ->
  h_mcuopen (fst (send_session h x m)) = h_mcuopen h /\
  forall y, option_map mcore (get_sess (fst (send_session h x m)) y) = option_map mcore (get_sess h y).
Proof.
  intros Hn. unfold send_session.
  match goal with |- context [deliver_to_session h ?t m] => set (target := t) end.
  pose proof (deliver_to_session_keeps h target m) as K.
  destruct (deliver_to_session h target m) as [h1 outs] eqn:Hd. cbn [fst] in K.
  destruct outs as [|[c mm| | |] [|o2 outs2]]; cbn [fst]; try exact K.
  rewrite (is_closing_never h1 c mm); [exact K|]. eapply deliver_out_kind; eauto.
Qed.

(* what the media server is told when a creation completes: it failed, or the object was created
   and closed again at once, or it was created, is open, and is in its owner's tables *)
Theorem completion_owned_or_closed h tok p ok :
  let '(h', outs) := finish_create h tok p ok in
  (exists o1, outs = ToMcu (MFailed tok) :: o1) \/
  (exists o1, outs = ToMcu (MCreated tok) :: ToMcu (MClose tok) :: o1) \/
  (exists o1, outs = ToMcu (MCreated tok) :: o1 /\ In tok (h_mcuopen h') /\
     exists s', get_sess h' (mp_owner p) = Some s' /\ In tok (map snd s'.(s_pubs) ++ map snd s'.(s_subs))).
Proof.
  unfold finish_create. destruct ok; cbn [negb].
  2:{ destruct (send_session h (mp_errto p) (SError E_client_not_found)) as [h1 o1]. left. eauto. }
  destruct (get_sess h (mp_owner p)) as [s|] eqn:Hs; [|left; eauto].
  destruct (negb (N.eqb (s_rel s) (mp_rel p))).
  { destruct (send_session h (mp_errto p) (SError E_client_not_found)) as [h1 o1]. right. left. eauto. }
  destruct (N.eqb (mp_kind p) 0 && negb (offer_allowed (s_perms s) (mp_stream p) (N.land (mp_media p) 3))).
  { destruct (send_session h (mp_errto p) (SError E_not_allowed)) as [h1 o1]. right. left. eauto. }
  assert (Own3 : forall (b : bool) s1 m, never_closing m = true -> In tok (toks s1) ->
            let h2 := set_mcu (put_sess h (mp_owner p) s1) (h_mcutok h) (h_mcupending h) (h_mcuopen h ++ [tok]) in
            let h3 := fst (if b then send_session h2 (mp_owner p) m else (h2, [])) in
            In tok (h_mcuopen h3) /\ exists s', get_sess h3 (mp_owner p) = Some s' /\ In tok (toks s')).
  { intros b s1 m Hm Ht h2 h3.
    assert (K : h_mcuopen h3 = h_mcuopen h2 /\ forall y, option_map mcore (get_sess h3 y) = option_map mcore (get_sess h2 y)).
    { unfold h3. destruct b; [now apply send_session_keeps|split; reflexivity]. }
    destruct K as [K1 K2]. split; [rewrite K1; apply in_or_app; right; now left|].
    specialize (K2 (mp_owner p)). assert (H2 : get_sess h2 (mp_owner p) = Some s1) by (unfold h2; apply get_put_eq).
    rewrite H2 in K2. destruct (get_sess h3 (mp_owner p)) as [s'|]; [|discriminate]. cbn in K2. apply some_inj in K2.
    apply mcore_eq in K2 as (_ & _ & Kp & Ks & _). exists s'. split; [reflexivity|]. unfold toks in *. now rewrite Kp, Ks. }
  destruct (N.eqb (mp_kind p) 0).
  - destruct (aget (s_pubs s) (mp_stream p)) eqn:Hslot.
    + match goal with |- context [if N.eqb (mp_reply p) 1 then ?A else ?B] => destruct (if N.eqb (mp_reply p) 1 then A else B) as [h1 o1] end. right. left. eauto.
    + match goal with |- context [if N.eqb (mp_reply p) 1 then ?A else ?B] => destruct (if N.eqb (mp_reply p) 1 then A else B) as [h3 o3] eqn:H3 end. right. right.
      exists o3. split; [reflexivity|]. rewrite (fst_eq _ _ _ H3).
      match goal with |- context [put_sess h (mp_owner p) ?s1] => apply (Own3 (N.eqb (mp_reply p) 1) s1 (SMedia 1 (mp_owner p)) eq_refl) end.
      unfold toks. cbn [s_pubs s_subs sess_media]. rewrite (aset_new _ _ _ Hslot), map_app. cbn. rewrite !in_app_iff. cbn. auto.
  - destruct (sub_get s (mp_pubof p) (mp_stream p)) eqn:Hslot.
    + match goal with |- context [if N.eqb (mp_reply p) 2 then ?A else ?B] => destruct (if N.eqb (mp_reply p) 2 then A else B) as [h1 o1] end. right. left. eauto.
    + match goal with |- context [if N.eqb (mp_reply p) 2 then ?A else ?B] => destruct (if N.eqb (mp_reply p) 2 then A else B) as [h3 o3] eqn:H3 end. right. right.
      exists o3. split; [reflexivity|]. rewrite (fst_eq _ _ _ H3).
      match goal with |- context [put_sess h (mp_owner p) ?s1] => apply (Own3 (N.eqb (mp_reply p) 2) s1 (SMedia 2 (mp_pubof p)) eq_refl) end.
      unfold toks. cbn [s_pubs s_subs sess_media]. unfold sub_get in Hslot. rewrite (pset_new _ _ _ Hslot), map_app. cbn. rewrite !in_app_iff. cbn. auto.
Qed.

Lemma reachable_intro limits gated ops h :
  h = run (init limits gated) ops \/ h = qrun (init limits gated) ops -> reachable h.
Proof. intros H. exists limits, gated, ops. exact H. Qed.

(* ------------------------------------------------------------------ the statements are not vacuous *)
(* one client, authenticated, offers audio + video *)
Definition ex_ops : list op := [OConnect 1 0; OHello 1 (HV1 0 5 false); OMedia 1 (RSession (IdPub 1)) 0 0 3].
Definition ex_view (h : hub) :=
  (h_mcuopen h, map fst (h_mcupending h),
   map (fun e => (fst e, s_pubs (snd e), s_subs (snd e), s_pubmedia (snd e), s_perms (snd e))) (h_sessions h)).

Example ex_open_publisher_ungated :
  ex_view (run (init [0] false) ex_ops) = ([1], [], [(1, [(0, 1)], [], [(1, 3)], None)]).
Proof. vm_compute. reflexivity. Qed.
(* gated media server: the creation is pending until the media server answers *)
Example ex_pending_gated :
  ex_view (run (init [0] true) ex_ops) = ([], [1], [(1, [], [], [], None)]).
Proof. vm_compute. reflexivity. Qed.
Example ex_open_publisher_gated :
  ex_view (run (init [0] true) (ex_ops ++ [OMcuDone 1 true])) = ([1], [], [(1, [(0, 1)], [], [(1, 3)], None)]).
Proof. vm_compute. reflexivity. Qed.
Example ex_open_publisher_gated_q :
  ex_view (qrun (init [0] true) (ex_ops ++ [OMcuDone 1 true])) = ([1], [], [(1, [(0, 1)], [], [(1, 3)], None)]).
Proof. vm_compute. reflexivity. Qed.
(* the room reply grants publish-audio only: the audio + video publisher is closed *)
Example ex_revoked_on_join :
  ex_view (run (init [0] false) (ex_ops ++ [OJoin 1 7 0 (RepOk (Some 1) 0)])) = ([], [], [(1, [], [], [(1, 3)], Some 1)]) /\
  In (ToMcu (MClose 1)) (snd (step (run (init [0] false) ex_ops) (OJoin 1 7 0 (RepOk (Some 1) 0)))).
Proof. vm_compute. split; [reflexivity|]. right. right. now left. Qed.
(* two clients in the call of one room: a publisher and a subscriber; the publisher's session says
   bye and its object is closed *)
Definition ex_ops2 : list op :=
  [OConnect 1 0; OHello 1 (HV1 0 5 false); OConnect 2 0; OHello 2 (HV1 0 6 false);
   OJoin 1 7 0 (RepOk None 0); OJoin 2 7 0 (RepOk None 0); OApi 0 0 7 (AInCallAll 1);
   OMedia 1 (RSession (IdPub 1)) 0 0 3; OMedia 2 (RSession (IdPub 1)) 1 0 0].
Example ex_publisher_and_subscriber :
  ex_view (qrun (init [0] false) ex_ops2) = ([1; 2], [], [(1, [(0, 1)], [], [(1, 3)], None); (2, [], [(1, 0, 2)], [], None)]) /\
  ex_view (qrun (init [0] false) (ex_ops2 ++ [OBye 1])) = ([2], [], [(2, [], [(1, 0, 2)], [], None)]).
Proof. vm_compute. split; reflexivity. Qed.

(* "a session without any publish permission holds no publisher at all" does NOT hold: an offer
   without audio and video (media bits 0) needs no permission, in the model as in clientsession.go
   (IsAllowedToSend checks the m-lines of the offer).  What does hold is
   no_publish_permission_no_media above. *)
Definition ex_ops_nomedia : list op :=
  [OConnect 1 0; OHello 1 (HV1 0 5 false); OJoin 1 7 0 (RepOk (Some 0) 0); OMedia 1 (RSession (IdPub 1)) 0 0 0].
Example no_permission_no_publisher_refuted :
  (let h := run (init [0] false) ex_ops_nomedia in
   match get_sess h 1 with
   | Some s => match s_perms s, s_pubs s with Some 0, _ :: _ => false | _, _ => true end
   | None => true
   end) = false.
Proof. vm_compute. reflexivity. Qed.

(* ------------------------------------------------------------------ what the media server is told *)
(* the objects are closed AT the media server: a close request is among the outputs of the step *)
Lemma close_tokens_emits h ts tok : In tok ts -> In tok (h_mcuopen h) -> In (ToMcu (MClose tok)) (snd (close_tokens h ts)).
Proof.
  intros Ht Ho. unfold close_tokens. cbn [snd]. apply in_map_iff. exists tok. split; [reflexivity|].
  apply filter_In. split; [assumption|]. now apply nmem_In.
Qed.
Lemma release_mcu_emits h sid s tok :
  get_sess h sid = Some s -> In tok (toks s) -> In tok (h_mcuopen h) -> In (ToMcu (MClose tok)) (snd (release_mcu h sid)).
Proof. intros Hs Ht Ho. unfold release_mcu. rewrite Hs. now apply close_tokens_emits. Qed.

Lemma rs_del_open h sid : h_mcuopen (rs_del h sid) = h_mcuopen h.
Proof. unfold rs_del. now destruct (rs_set_mcu h sid 0) as (_ & _ & ->). Qed.

Theorem leave_room_emits_close h sid n s k tok :
  get_sess h sid = Some s -> s_room s = Some k -> is_virtual (s_kind s) = false ->
  In tok (map snd s.(s_pubs) ++ map snd s.(s_subs)) -> In tok (h_mcuopen h) ->
  In (ToMcu (MClose tok)) (snd (leave_room h sid n)).
Proof.
  intros Hs Hk Hv Ht Ho. unfold leave_room. rewrite Hs, Hk, Hv.
  match goal with |- context [release_mcu ?hh sid] => pose proof (release_mcu_emits hh sid _ tok (get_put_eq _ _ _)) as E; destruct (release_mcu hh sid) as [h3 o2] end.
  cbn [snd] in *. apply in_or_app. right. apply E; [exact Ht|].
  msimpl. rewrite rs_del_open. exact Ho.
Qed.
Theorem leave_call_emits_close h sid s k tok :
  get_sess h sid = Some s -> s_room s = Some k -> is_virtual (s_kind s) = false ->
  In tok (map snd s.(s_pubs) ++ map snd s.(s_subs)) -> In tok (h_mcuopen h) ->
  In (ToMcu (MClose tok)) (snd (leave_call h sid)).
Proof.
  intros Hs Hk Hv Ht Ho. unfold leave_call. rewrite Hs, Hk. destruct (s_kind s); try discriminate; now apply release_mcu_emits with s.
Qed.
Theorem revoke_emits_close h sid s stream tok :
  get_sess h sid = Some s -> In (stream, tok) s.(s_pubs) ->
  offer_allowed s.(s_perms) stream (media_of s.(s_pubmedia) tok) = false -> In tok (h_mcuopen h) ->
  In (ToMcu (MClose tok)) (snd (revoke h sid)).
Proof.
  intros Hs Hin Hoff Ho. rewrite revoke_eq, Hs. apply close_tokens_emits; [|exact Ho].
  apply in_map_iff. exists (stream, tok). split; [reflexivity|]. apply filter_In. split; [assumption|].
  rewrite pub_bad_spec, Hoff. reflexivity.
Qed.

Lemma room_remove_open h k sid : h_mcuopen (room_remove h k sid) = h_mcuopen h.
Proof.
  unfold room_remove. destruct (room_of h k) as [r|]; [|reflexivity]. destruct (nmem sid (r_members r)); [|reflexivity].
  unfold publish, remove_room_if_empty.
  match goal with |- context [room_of ?hh k] => destruct (room_of hh k) as [r1|] end; [destruct (r_members r1)|]; reflexivity.
Qed.

Theorem close_one_emits_close h sid s tok :
  get_sess h sid = Some s -> In tok (map snd s.(s_pubs) ++ map snd s.(s_subs)) -> In tok (h_mcuopen h) ->
  In (ToMcu (MClose tok)) (snd (close_one h sid)).
Proof.
  intros Hs Ht Ho. unfold close_one. rewrite Hs.
  assert (Hcases : In (ToMcu (MClose tok)) (snd (leave_room h sid true)) \/
                   (exists s1, get_sess (fst (leave_room h sid true)) sid = Some s1 /\ toks s1 = toks s) /\
                   h_mcuopen (fst (leave_room h sid true)) = h_mcuopen h).
  { destruct (s_room s) as [k|] eqn:Hk.
    - destruct (is_virtual (s_kind s)) eqn:Hv; [|left; eapply leave_room_emits_close; eauto].
      right. unfold leave_room. rewrite Hs, Hk, Hv. cbn [fst]. split.
      + exists (sess_room s None). split; [|reflexivity]. unfold get_sess. rewrite room_remove_sessions. apply get_put_eq.
      + rewrite room_remove_open. msimpl. apply rs_del_open.
    - right. unfold leave_room. rewrite Hs, Hk. cbn [fst]. split; [eauto|reflexivity]. }
  destruct (leave_room h sid true) as [h1 o1]. cbn [fst snd] in Hcases.
  assert (Hin : In (ToMcu (MClose tok)) (o1 ++ snd (release_mcu h1 sid))).
  { apply in_or_app. destruct Hcases as [Hc|[[s1 [Hs1 Ht1]] Ho1]]; [now left|right].
    apply release_mcu_emits with s1; [exact Hs1| |now rewrite Ho1]. rewrite Ht1. exact Ht. }
  destruct (release_mcu h1 sid) as [h2a o2a]. cbn [snd] in Hin.
  assert (Hin2 : forall rest, In (ToMcu (MClose tok)) (o1 ++ (o2a ++ rest))).
  { intros rest. apply in_app_or in Hin as [H|H]; apply in_or_app; [now left|right; apply in_or_app; now left]. }
  destruct (s_kind s); cbn [snd]; try apply Hin2. rewrite <- app_assoc. apply Hin2.
Qed.

Lemma close_all_keeps_outs kids x : forall hh o, In x o -> In x (snd (close_all kids (hh, o))).
Proof.
  induction kids as [|k kids IH]; intros hh o Hin; cbn [close_all fold_left snd]; [exact Hin|].
  destruct (close_one hh k) as [h1 o1]. fold (close_all kids (h1, o ++ o1)). apply IH. apply in_or_app. now left.
Qed.
Theorem close_session_emits_close h sid s tok :
  get_sess h sid = Some s -> In tok (map snd s.(s_pubs) ++ map snd s.(s_subs)) -> In tok (h_mcuopen h) ->
  In (ToMcu (MClose tok)) (snd (close_session h sid)).
Proof.
  intros Hs Ht Ho. unfold close_session. pose proof (close_one_emits_close h sid s tok Hs Ht Ho) as E.
  destruct (close_one h sid) as [h1 o1]. fold (close_all (children h sid) (h1, o1)). now apply close_all_keeps_outs.
Qed.

(* a publisher is created only with the permission: an offer the permissions do not allow is refused *)
Theorem offer_needs_permission h c sid s i stream media :
  offer_allowed s.(s_perms) stream (eff_media media) = false ->
  do_media h c sid s (RSession i) 0 stream media = (h, [ToConn c (SError E_not_allowed)]).
Proof. intros Hoff. unfold do_media. cbn [N.eqb]. now rewrite Hoff. Qed.
