(* Subject keys of the event bus: base64 is injective, the four prefixes never
   collide, and  id ++ "|" ++ backend  is injective exactly under the side
   condition that the backend part carries no "|". *)
From Coq Require Import List Arith NArith Bool String Ascii Lia.
From Verif Require Import model.Bus.
Import ListNotations.

Ltac dm a n := pose proof (Nat.div_mod a n ltac:(lia)); pose proof (Nat.mod_upper_bound a n ltac:(lia)).
Ltac dmbytes := repeat match goal with H : ?a < 256 |- _ => dm a 4; dm a 16; dm a 64; revert H end; intros.
Ltac blia := dmbytes; lia.

(* ---- lists by groups of three ------------------------------------------- *)
Lemma list_ind3 {A} (P : list A -> Prop) :
  P [] -> (forall a, P [a]) -> (forall a b, P [a; b]) ->
  (forall a b c r, P r -> P (a :: b :: c :: r)) -> forall l, P l.
Proof.
  intros H0 H1 H2 H3.
  assert (H : forall n l, List.length l <= n -> P l).
  { induction n as [|n IH]; intros l Hl.
    - destruct l; [exact H0 | cbn in Hl; lia].
    - destruct l as [|a [|b [|c r]]]; auto. apply H3. apply IH. cbn in Hl. lia. }
  intros l. apply (H (List.length l)). lia.
Qed.

Definition bytes (l : list nat) : Prop := Forall (fun a => a < 256) l.

Lemma sextets_bound l : bytes l -> Forall (fun a => a <= 64) (b64_sextets l).
Proof.
  induction l as [| a | a b | a b c r IH] using list_ind3; intros H; cbn [b64_sextets].
  - apply Forall_nil.
  - inversion H; subst. repeat (apply Forall_cons; [blia|]). apply Forall_nil.
  - inversion H as [|? ? Ha H']; subst. inversion H' as [|? ? Hb _]; subst.
    repeat (apply Forall_cons; [blia|]). apply Forall_nil.
  - inversion H as [|? ? Ha H']; subst. inversion H' as [|? ? Hb H'']; subst.
    inversion H'' as [|? ? Hc Hr]; subst.
    repeat (apply Forall_cons; [blia|]). auto.
Qed.

Lemma cons_eq_inv {A} (a b : A) l l' : a :: l = b :: l' -> a = b /\ l = l'.
Proof. intros H. inversion H. auto. Qed.
Ltac lsplit H :=
  repeat match type of H with
  | _ :: _ = _ :: _ => let E := fresh "E" in apply cons_eq_inv in H; destruct H as [E H]
  end.
Ltac bytes_inv :=
  unfold bytes in *;
  repeat match goal with
  | H : Forall _ (_ :: _) |- _ => let Ha := fresh "Hb" in apply Forall_cons_iff in H; destruct H as [Ha H]
  end.

Lemma sextets_inj : forall l1, bytes l1 -> forall l2, bytes l2 ->
  b64_sextets l1 = b64_sextets l2 -> l1 = l2.
Proof.
  induction l1 as [| a | a b | a b c r IH] using list_ind3; intros H1 l2 H2 E;
    destruct l2 as [|a' [|b' [|c' r']]]; cbn [b64_sextets] in E; try discriminate; try reflexivity;
    lsplit E; bytes_inv; cbv beta in *.
  - f_equal. blia.
  - exfalso. blia.
  - exfalso. blia.
  - exfalso. blia.
  - f_equal; [blia|]. f_equal. blia.
  - exfalso. blia.
  - exfalso. blia.
  - exfalso. blia.
  - rewrite (IH H1 r' H2 E). f_equal; [blia|]. f_equal; [blia|]. f_equal. blia.
Qed.

(* ---- the alphabet -------------------------------------------------------- *)
Definition char_table_ok : bool :=
  forallb (fun x => forallb (fun y =>
     negb (Ascii.eqb (b64_char x) (b64_char y)) || Nat.eqb x y) (seq 0 65)) (seq 0 65).
Lemma char_table_ok_true : char_table_ok = true.
Proof. vm_compute. reflexivity. Qed.

Lemma b64_char_inj x y : x <= 64 -> y <= 64 -> b64_char x = b64_char y -> x = y.
Proof.
  intros Hx Hy E. pose proof char_table_ok_true as H. unfold char_table_ok in H.
  rewrite forallb_forall in H. specialize (H x). rewrite in_seq in H.
  assert (Hx' : 0 <= x < 0 + 65) by lia. specialize (H Hx').
  rewrite forallb_forall in H. specialize (H y). rewrite in_seq in H.
  assert (Hy' : 0 <= y < 0 + 65) by lia. specialize (H Hy').
  rewrite E, Ascii.eqb_refl in H. cbn in H. now apply Nat.eqb_eq.
Qed.

Lemma map_char_inj : forall l1 l2, Forall (fun a => a <= 64) l1 -> Forall (fun a => a <= 64) l2 ->
  map b64_char l1 = map b64_char l2 -> l1 = l2.
Proof.
  induction l1 as [|a r IH]; intros [|a' r'] H1 H2 E; cbn in E; try discriminate; auto.
  injection E as E1 E2. inversion H1; subst. inversion H2; subst.
  f_equal; [apply b64_char_inj; auto | apply IH; auto].
Qed.

Lemma bytes_of_bytes s : bytes (bytes_of s).
Proof.
  unfold bytes, bytes_of. induction (list_ascii_of_string s) as [|c r IH]; cbn; constructor; auto.
  apply nat_ascii_bounded.
Qed.

Lemma bytes_of_inj s1 s2 : bytes_of s1 = bytes_of s2 -> s1 = s2.
Proof.
  unfold bytes_of. intros E.
  rewrite <- (string_of_list_ascii_of_string s1), <- (string_of_list_ascii_of_string s2). f_equal.
  revert E. generalize (list_ascii_of_string s1) (list_ascii_of_string s2).
  induction l as [|a r IH]; intros [|a' r'] E; cbn in E; try discriminate; auto.
  injection E as E1 E2. f_equal; auto.
  rewrite <- (ascii_nat_embedding a), <- (ascii_nat_embedding a'). now f_equal.
Qed.

Lemma string_of_list_inj l1 l2 : string_of_list_ascii l1 = string_of_list_ascii l2 -> l1 = l2.
Proof.
  intros E. rewrite <- (list_ascii_of_string_of_list_ascii l1), <- (list_ascii_of_string_of_list_ascii l2).
  now f_equal.
Qed.

Theorem b64_inj s1 s2 : b64 s1 = b64 s2 -> s1 = s2.
Proof.
  unfold b64. intros E. apply string_of_list_inj in E.
  apply map_char_inj in E; try (apply sextets_bound; apply bytes_of_bytes).
  apply sextets_inj in E; try apply bytes_of_bytes. now apply bytes_of_inj.
Qed.

(* ---- strings -------------------------------------------------------------- *)
Definition no_pipe (s : string) : bool := negb (contains_char "|"%char s).

Lemma contains_app c a b : contains_char c (a ++ b) = contains_char c a || contains_char c b.
Proof. induction a as [|d r IH]; cbn; [reflexivity|]. rewrite IH. now rewrite orb_assoc. Qed.

Lemma no_pipe_mid a b : no_pipe (a ++ String "|" b) = false.
Proof. unfold no_pipe. rewrite contains_app. cbn. rewrite orb_true_r. reflexivity. Qed.

Lemma no_pipe_mid' a b : no_pipe (a ++ "|" ++ b) = false.
Proof. exact (no_pipe_mid a b). Qed.

(* splitting at the last "|" *)
Lemma split_last_pipe : forall a a' b b',
  no_pipe b = true -> no_pipe b' = true ->
  (a ++ "|" ++ b = a' ++ "|" ++ b')%string -> a = a' /\ b = b'.
Proof.
  induction a as [|c r IH]; intros [|c' r'] b b' Hb Hb' E; cbn in E.
  - injection E as E. auto.
  - injection E as E1 E2. subst b. rewrite no_pipe_mid in Hb. discriminate.
  - injection E as E1 E2. subst b'. rewrite no_pipe_mid in Hb'. discriminate.
  - injection E as E1 E2. subst c'. destruct (IH r' b b' Hb Hb' E2) as [-> ->]. auto.
Qed.

Lemma app_inv_head_str : forall p a b : string, (p ++ a = p ++ b)%string -> a = b.
Proof. induction p as [|c r IH]; intros a b E; cbn in E; [exact E|]. injection E as E. auto. Qed.

(* ---- targets ---------------------------------------------------------------- *)
(* the side condition: the part after the separator carries no separator; for a
   nil / compat backend the whole id is that part.  Session subjects need none. *)
Definition wf_target (t : target) : bool :=
  match tkind t with
  | KSession => true
  | _ => match tbackend t with None => no_pipe (tid t) | Some b => no_pipe b end
  end.

(* two targets denote the same subject of the property *)
Definition same_target (t1 t2 : target) : Prop :=
  tkind t1 = tkind t2 /\ tid t1 = tid t2 /\ (tkind t1 = KSession \/ tbackend t1 = tbackend t2).

Definition first_char (s : string) : option ascii :=
  match s with EmptyString => None | String c _ => Some c end.

Lemma subject_first_char t :
  first_char (subject_of t) =
  Some (match tkind t with KBackendRoom => "b" | KRoom => "r" | KUser => "u" | KSession => "s" end)%char.
Proof. unfold subject_of. destruct (tkind t); reflexivity. Qed.

(* subjects of different kinds never coincide (no side condition) *)
Theorem subject_kind_inj t1 t2 : subject_of t1 = subject_of t2 -> tkind t1 = tkind t2.
Proof.
  intros E. pose proof (subject_first_char t1) as H1. pose proof (subject_first_char t2) as H2.
  rewrite E in H1. rewrite H1 in H2.
  destruct (tkind t1), (tkind t2); try reflexivity; discriminate.
Qed.

Lemma suffix_inj t1 t2 :
  tkind t1 <> KSession -> tkind t1 = tkind t2 ->
  wf_target t1 = true -> wf_target t2 = true ->
  suffix t1 = suffix t2 -> tid t1 = tid t2 /\ tbackend t1 = tbackend t2.
Proof.
  unfold wf_target, suffix. intros Hk Hkk W1 W2 E. rewrite <- Hkk in W2.
  destruct (tkind t1) eqn:K; try congruence;
  destruct (tbackend t1) as [b1|], (tbackend t2) as [b2|].
  all: try (destruct (split_last_pipe _ _ _ _ W1 W2 E) as [-> ->]; auto).
  all: try (rewrite <- E in W2; rewrite no_pipe_mid' in W2; discriminate).
  all: try (rewrite E in W1; rewrite no_pipe_mid' in W1; discriminate).
  all: auto.
Qed.

Theorem subject_inj t1 t2 :
  wf_target t1 = true -> wf_target t2 = true ->
  subject_of t1 = subject_of t2 -> same_target t1 t2.
Proof.
  intros W1 W2 E. pose proof (subject_kind_inj _ _ E) as Hk.
  unfold same_target. split; [exact Hk|].
  unfold subject_of in E. rewrite <- Hk in E.
  destruct (tkind t1) eqn:K.
  - apply (app_inv_head_str "backend.room.") in E. apply b64_inj in E.
    destruct (suffix_inj t1 t2) as [H1 H2]; auto; congruence.
  - apply (app_inv_head_str "room.") in E. apply b64_inj in E.
    destruct (suffix_inj t1 t2) as [H1 H2]; auto; congruence.
  - apply (app_inv_head_str "user.") in E. apply b64_inj in E.
    destruct (suffix_inj t1 t2) as [H1 H2]; auto; congruence.
  - apply (app_inv_head_str "session.") in E. auto.
Qed.

(* Without the side condition the construction is not injective: room "r|x" of
   backend "y" and room "r" of backend "x|y" share one subject, and so do room
   "r|x" without backend (nil / compat) and room "r" of backend "x". *)
Theorem subject_collision :
  exists t1 t2, ~ same_target t1 t2 /\ subject_of t1 = subject_of t2 /\ wf_target t1 = true.
Proof.
  exists (T KRoom "r|x" (Some "y"%string)), (T KRoom "r" (Some "x|y"%string)).
  split; [|split; reflexivity]. intros (_ & H & _). discriminate.
Qed.
Theorem subject_collision_compat :
  exists t1 t2, ~ same_target t1 t2 /\ subject_of t1 = subject_of t2 /\ wf_target t2 = true.
Proof.
  exists (T KRoom "r|x" None), (T KRoom "r" (Some "x"%string)).
  split; [|split; reflexivity]. intros (_ & H & _). discriminate.
Qed.

