(* The pending queue of a disconnected session, for every history (C06).

   1. while a session stays live and disconnected its queue only grows at the end;
   2. what send_session appends is what was sent (and a connected session gets it on its
      connection instead, the queue untouched);
   3. a resume delivers the queue once, in order, and empties it; combined with 1:
      "dropped, stayed disconnected, resumed: the resume outputs exactly what was appended"
      (when nothing queued closes the connection; 5. is the other case: the queue is written up to
      the first closing message, then the connection is closed and the session is gone for good);
   4. bye and expiry are final for every continuation: session ids are never handed out twice.

   (Written when the model's alphabet contained no chat-refresh notice; it now does: enqueue keeps one.)
   The model's alphabet contained no chat-refresh notice (is_chat_refresh was constantly false and
   deliver_to_session never merges), so "modulo merge" is plain append here.

   Organisation: one relation between the hub before and after a model function, for a fixed
   session id, reflexive and transitive, proved once per model function (rel0 for the functions
   that create no session, rel for the three that do). *)
From Coq Require Import List NArith Bool Lia.
From Verif Require Import model.Hub proofs.Hub_basics proofs.Hub_wf proofs.Hub_easy proofs.Hub_corollaries.
Import ListNotations.
Open Scope N_scope.

(* ------------------------------------------------------------------ what may happen to one session *)
(* A: same connection, the queue grew at the end, and only if there is no connection *)
Definition sessA (s s' : session) : Prop :=
  s_conn s' = s_conn s /\ exists l, s_pending s' = s_pending s ++ l /\ (s_conn s <> None -> l = []).
(* B: (re)attached to a connection, nothing queued *)
Definition sessB (s' : session) : Prop := s_conn s' <> None /\ s_pending s' = [].

Lemma sessA_same s s' : s_conn s' = s_conn s -> s_pending s' = s_pending s -> sessA s s'.
Proof. intros Hc Hp. split; [exact Hc|]. exists []. split; [now rewrite app_nil_r|reflexivity]. Qed.
Lemma sessA_refl s : sessA s s.
Proof. now apply sessA_same. Qed.
Lemma sessA_trans s1 s2 s3 : sessA s1 s2 -> sessA s2 s3 -> sessA s1 s3.
Proof.
  intros [Hc1 [l1 [Hp1 Hn1]]] [Hc2 [l2 [Hp2 Hn2]]]. split; [congruence|].
  exists (l1 ++ l2). split; [rewrite Hp2, Hp1; now rewrite app_assoc|].
  intros Hne. rewrite (Hn1 Hne). rewrite Hn2; [reflexivity|congruence].
Qed.

(* functions that create no session *)
Record rel0 (sid : N) (h h' : hub) : Prop := {
  r0_next : h_nextsid h' = h_nextsid h;
  r0_core : forall s', get_sess h' sid = Some s' -> exists s, get_sess h sid = Some s /\ sessA s s';
}.

Lemma rel0_refl sid h : rel0 sid h h.
Proof. constructor; [reflexivity|]. intros s' Hs. exists s'. split; [exact Hs|apply sessA_refl]. Qed.
Lemma rel0_trans sid h1 h2 h3 : rel0 sid h1 h2 -> rel0 sid h2 h3 -> rel0 sid h1 h3.
Proof.
  intros [N1 C1] [N2 C2]. constructor; [congruence|]. intros s3 H3.
  destruct (C2 s3 H3) as [s2 [H2 A2]]. destruct (C1 s2 H2) as [s1 [H1 A1]].
  exists s1. split; [exact H1|]. eapply sessA_trans; eauto.
Qed.
Lemma rel0_dead sid h h' : rel0 sid h h' -> get_sess h sid = None -> get_sess h' sid = None.
Proof.
  intros [_ C] Hn. destruct (get_sess h' sid) as [s'|] eqn:Hs; [|reflexivity].
  destruct (C s' eq_refl) as [s [Hs0 _]]. congruence.
Qed.

Lemma rel0_eq sid h h' : h_sessions h' = h_sessions h -> h_nextsid h' = h_nextsid h -> rel0 sid h h'.
Proof.
  intros Hs Hn. constructor; [exact Hn|]. intros s' H. exists s'. split; [|apply sessA_refl].
  unfold get_sess in *. now rewrite <- Hs.
Qed.
Lemma rel0_then_eq sid h h1 h2 :
  rel0 sid h h1 -> h_sessions h2 = h_sessions h1 -> h_nextsid h2 = h_nextsid h1 -> rel0 sid h h2.
Proof. intros R Hs Hn. eapply rel0_trans; [exact R|]. now apply rel0_eq. Qed.

Lemma rel0_aset sid h h' x s s' :
  h_sessions h' = aset (h_sessions h) x s' -> h_nextsid h' = h_nextsid h ->
  get_sess h x = Some s -> sessA s s' -> rel0 sid h h'.
Proof.
  intros Hs Hn Hx HA. constructor; [exact Hn|]. intros t H. unfold get_sess in *. rewrite Hs, aget_aset in H.
  destruct (N.eqb_spec sid x) as [->|Hne].
  - injection H as <-. exists s. auto.
  - exists t. split; [exact H|apply sessA_refl].
Qed.
Lemma rel0_put sid h x s s' : get_sess h x = Some s -> sessA s s' -> rel0 sid h (put_sess h x s').
Proof. intros Hx HA. apply (rel0_aset sid h (put_sess h x s') x s s'); [reflexivity|reflexivity|exact Hx|exact HA]. Qed.
Lemma rel0_aset_other sid h h' x s' :
  h_sessions h' = aset (h_sessions h) x s' -> h_nextsid h' = h_nextsid h -> x <> sid -> rel0 sid h h'.
Proof.
  intros Hs Hn Hne. constructor; [exact Hn|]. intros t H. unfold get_sess in *.
  rewrite Hs, aget_aset_other in H by congruence. exists t. split; [exact H|apply sessA_refl].
Qed.
Lemma rel0_adel sid h h' x :
  h_sessions h' = adel (h_sessions h) x -> h_nextsid h' = h_nextsid h -> rel0 sid h h'.
Proof.
  intros Hs Hn. constructor; [exact Hn|]. intros t H. unfold get_sess in *. rewrite Hs, aget_adel in H.
  destruct (N.eqb sid x); [discriminate|]. exists t. split; [exact H|apply sessA_refl].
Qed.

(* folds *)
Lemma fold_acc_inv (P : hub -> Prop) (f : hub -> N -> hub * list out) l :
  (forall hh x, P hh -> P (fst (f hh x))) -> forall acc, P (fst acc) ->
  P (fst (fold_left (fun acc x => let '(hh, oo) := acc in let '(hh', oo') := f hh x in (hh', oo ++ oo')) l acc)).
Proof.
  intros Hf. induction l as [|x l IH]; intros [hh oo] Hacc; cbn [fold_left]; [exact Hacc|].
  apply IH. destruct (f hh x) as [hh' oo'] eqn:Hfx. cbn [fst] in *. rewrite (fst_eq _ _ _ Hfx). now apply Hf.
Qed.

Lemma rel0_fold_sessions sid h l f :
  (forall hh x, rel0 sid hh (fst (f hh x))) -> rel0 sid h (fst (fold_sessions h l f)).
Proof.
  intros Hf. apply (wf_fold_sessions (fun hh => rel0 sid h hh)); [apply rel0_refl|].
  intros hh x R. eapply rel0_trans; [exact R|apply Hf].
Qed.
Lemma rel0_fold_left_hub {A} sid (f : hub -> A -> hub) l h :
  (forall hh x, rel0 sid hh (f hh x)) -> rel0 sid h (fold_left f l h).
Proof.
  intros Hf. apply (wf_fold_left_hub (fun hh => rel0 sid h hh)); [apply rel0_refl|].
  intros hh x R. eapply rel0_trans; [exact R|apply Hf].
Qed.

(* ------------------------------------------------------------------ projections the relation reads *)
Lemma rs_set_nextsid h sid rs : h_nextsid (rs_set h sid rs) = h_nextsid h.
Proof.
  unfold rs_set. destruct (N.eqb rs 0).
  - destruct (aget (h_rs1 h) sid); reflexivity.
  - destruct (aget (h_rs1 h) sid) as [prev|]; [destruct (N.eqb prev rs)|]; reflexivity.
Qed.
Lemma rel0_rs_set sid h x rs : rel0 sid h (rs_set h x rs).
Proof. apply rel0_eq; [apply rs_set_sessions|apply rs_set_nextsid]. Qed.
Lemma rel0_rs_del sid h x : rel0 sid h (rs_del h x).
Proof. apply rel0_rs_set. Qed.

Lemma room_remove_proj h k x :
  h_sessions (room_remove h k x) = h_sessions h /\ h_nextsid (room_remove h k x) = h_nextsid h.
Proof.
  unfold room_remove. destruct (room_of h k) as [r|]; [|split; reflexivity].
  destruct (nmem x (r_members r)); [|split; reflexivity].
  unfold remove_room_if_empty. rewrite room_of_set_rooms, pget_pset_same. cbn [r_members].
  destruct (nrem x (r_members r)); split; reflexivity.
Qed.
Lemma rel0_room_remove sid h k x : rel0 sid h (room_remove h k x).
Proof. destruct (room_remove_proj h k x). now apply rel0_eq. Qed.

Lemma set_incall_proj h k x on :
  h_sessions (set_incall h k x on) = h_sessions h /\ h_nextsid (set_incall h k x on) = h_nextsid h.
Proof.
  unfold set_incall. destruct (room_of h k) as [r|]; [|split; reflexivity].
  destruct (on && negb (nmem x (r_members r))); split; reflexivity.
Qed.
Lemma rel0_set_incall sid h k x on : rel0 sid h (set_incall h k x on).
Proof. destruct (set_incall_proj h k x on). now apply rel0_eq. Qed.

Lemma drop_vt_nextsid h kd x : h_nextsid (drop_vt h kd x) = h_nextsid h.
Proof.
  unfold drop_vt. destruct kd as [| |p v]; try reflexivity.
  destruct (pget (h_vtable h) (p, v)) as [y|]; [destruct (N.eqb y x)|]; reflexivity.
Qed.
Lemma detach_conn_nextsid h oc : h_nextsid (detach_conn h oc) = h_nextsid h.
Proof. unfold detach_conn. destruct oc as [c0|]; [|reflexivity]. destruct (aget (h_conns h) c0); reflexivity. Qed.

Lemma rel0_publish sid h subj m : rel0 sid h (publish h subj m).
Proof. apply rel0_eq; reflexivity. Qed.

(* ------------------------------------------------------------------ one lemma per model function *)
Lemma rel0_close_tokens sid h toks : rel0 sid h (fst (close_tokens h toks)).
Proof. unfold close_tokens. cbn [fst]. apply rel0_eq; reflexivity. Qed.

Lemma rel0_release_mcu sid h x : rel0 sid h (fst (release_mcu h x)).
Proof.
  unfold release_mcu. destruct (get_sess h x) as [s|] eqn:Hs; [|apply rel0_refl].
  eapply rel0_trans; [|apply rel0_close_tokens]. apply rel0_put with s; [exact Hs|]. now apply sessA_same.
Qed.

Lemma rel0_revoke sid h x : rel0 sid h (fst (revoke h x)).
Proof.
  unfold revoke. destruct (get_sess h x) as [s|] eqn:Hs; [|apply rel0_refl].
  eapply rel0_trans; [|apply rel0_close_tokens]. apply rel0_put with s; [exact Hs|]. now apply sessA_same.
Qed.

Lemma rel0_leave_call sid h x : rel0 sid h (fst (leave_call h x)).
Proof.
  unfold leave_call. destruct (get_sess h x) as [s|]; [|apply rel0_refl].
  destruct (s_kind s); destruct (s_room s); try apply rel0_refl; apply rel0_release_mcu.
Qed.

Lemma rel0_leave_room sid h x notify : rel0 sid h (fst (leave_room h x notify)).
Proof.
  unfold leave_room. destruct (get_sess h x) as [s|] eqn:Hs; [|apply rel0_refl].
  destruct (s_room s) as [k|]; [|apply rel0_refl].
  assert (Hs1 : get_sess (rs_del h x) x = Some s) by (unfold get_sess; now rewrite rs_del_sessions).
  destruct (is_virtual (s_kind s)).
  - cbn [fst]. eapply rel0_trans; [apply (rel0_rs_del sid h x)|].
    eapply rel0_trans; [|apply rel0_room_remove]. apply rel0_put with s; [exact Hs1|]. now apply sessA_same.
  - match goal with |- context [release_mcu ?hh x] => destruct (release_mcu hh x) as [h3 o2] eqn:Hr end. cbn [fst].
    eapply rel0_trans; [apply (rel0_rs_del sid h x)|].
    eapply rel0_trans; [|apply rel0_room_remove].
    eapply rel0_trans; [|rewrite (fst_eq _ _ _ Hr); apply rel0_release_mcu].
    apply rel0_put with s; [exact Hs1|]. now apply sessA_same.
Qed.

Lemma rel0_close_one sid h x : rel0 sid h (fst (close_one h x)).
Proof.
  unfold close_one. destruct (get_sess h x) as [s|] eqn:Hs; [|apply rel0_refl].
  destruct (leave_room h x true) as [h1 o1] eqn:Hl.
  destruct (release_mcu h1 x) as [h2a o2a] eqn:Hr.
  set (h2 := set_mcu h2a (h_mcutok h2a) (filter (fun e => negb (N.eqb (mp_owner (snd e)) x)) (h_mcupending h2a)) (h_mcuopen h2a)).
  assert (R1 : rel0 sid h h1) by (rewrite (fst_eq _ _ _ Hl); apply rel0_leave_room).
  assert (R2a : rel0 sid h1 h2a) by (rewrite (fst_eq _ _ _ Hr); apply rel0_release_mcu).
  assert (R2 : rel0 sid h h2).
  { eapply rel0_trans; [exact R1|]. eapply rel0_then_eq; [exact R2a|reflexivity|reflexivity]. }
  assert (Hfin : rel0 sid h (drop_vt (detach_conn (scrub h2 x) (s_conn s)) (s_kind s) x)).
  { eapply rel0_trans; [exact R2|].
    destruct (drop_vt_other (detach_conn (scrub h2 x) (s_conn s)) (s_kind s) x) as (D1 & _).
    destruct (detach_conn_other (scrub h2 x) (s_conn s)) as (F1 & _).
    apply rel0_adel with x.
    - rewrite D1, F1. reflexivity.
    - rewrite drop_vt_nextsid, detach_conn_nextsid. reflexivity. }
  destruct (s_kind s); cbn [fst]; exact Hfin.
Qed.

Lemma rel0_close_session sid h x : rel0 sid h (fst (close_session h x)).
Proof.
  unfold close_session. destruct (close_one h x) as [h1 o1] eqn:Hc.
  apply (fold_acc_inv (fun hh => rel0 sid h hh) close_one).
  - intros hh k R. eapply rel0_trans; [exact R|apply rel0_close_one].
  - cbn [fst]. rewrite (fst_eq _ _ _ Hc). apply rel0_close_one.
Qed.

Lemma close_session_gone h x : get_sess (fst (close_session h x)) x = None.
Proof.
  unfold close_session. destruct (close_one h x) as [h1 o1] eqn:Hc.
  apply (fold_acc_inv (fun hh => get_sess hh x = None) close_one).
  - intros hh k Hn. apply (rel0_dead x hh); [apply rel0_close_one|exact Hn].
  - cbn [fst]. rewrite (fst_eq _ _ _ Hc). apply close_one_gone.
Qed.

Lemma rel0_close_conn sid h c : rel0 sid h (fst (close_conn h c)).
Proof.
  unfold close_conn. destruct (aget (h_conns h) c) as [cn|]; [|apply rel0_refl].
  destruct (c_sess cn) as [x|]; [|cbn [fst]; apply rel0_eq; reflexivity].
  set (h1 := set_conns h (adel (h_conns h) c)).
  set (h2 := match get_sess h1 x with Some s => put_sess h1 x (sess_conn s None) | None => h1 end).
  destruct (close_session h2 x) as [h3 outs] eqn:Hcl. cbn [fst]. pose proof (fst_eq _ _ _ Hcl) as E3.
  assert (N2 : h_nextsid h2 = h_nextsid h) by (unfold h2; destruct (get_sess h1 x); reflexivity).
  destruct (N.eq_dec x sid) as [->|Hne].
  - constructor.
    + rewrite E3, (r0_next _ _ _ (rel0_close_session sid h2 sid)). exact N2.
    + intros s' Hs'. rewrite E3, close_session_gone in Hs'. discriminate.
  - eapply rel0_trans; [|rewrite E3; apply rel0_close_session].
    unfold h2. destruct (get_sess h1 x) as [s|]; [|apply rel0_eq; reflexivity].
    apply rel0_aset_other with x (sess_conn s None); [reflexivity|reflexivity|exact Hne].
Qed.

Lemma deliver_keeps h x m s :
  get_sess h x = Some s ->
  forall m' s1, (match m with
                 | SJoin l => let '(keep, seen') := filter_seen s.(s_seen) l in
                              (match keep with [] => None | _ => Some (SJoin keep) end, sess_seen s seen')
                 | SLeave l => (Some m, sess_seen s (fold_left (fun acc y => nrem y acc) l s.(s_seen)))
                 | _ => (Some m, s)
                 end) = (m', s1) ->
  s_conn s1 = s_conn s /\ s_pending s1 = s_pending s /\ s_kind s1 = s_kind s.
Proof.
  intros _ m' s1 HX. destruct m; try (injection HX as <- <-; repeat split; reflexivity).
  destruct (filter_seen (s_seen s) l) as [keep seen']. injection HX as <- <-. repeat split; reflexivity.
Qed.

(* the queue only ever grows at the end; a chat-refresh notice is dropped when one is queued already *)
Lemma enqueue_ext q m : exists l, enqueue q m = q ++ l.
Proof. unfold enqueue. destruct (is_chat_refresh m && existsb is_chat_refresh q); [exists []; now rewrite app_nil_r|exists [m]; reflexivity]. Qed.
Lemma enqueue_plain q m : is_chat_refresh m = false -> enqueue q m = q ++ [m].
Proof. unfold enqueue. now intros ->. Qed.
Lemma enqueue_first q m : existsb is_chat_refresh q = false -> enqueue q m = q ++ [m].
Proof. unfold enqueue. intros ->. now rewrite andb_false_r. Qed.
Lemma enqueue_merged q m : is_chat_refresh m = true -> existsb is_chat_refresh q = true -> enqueue q m = q.
Proof. unfold enqueue. now intros -> ->. Qed.

Lemma rel0_deliver_to_session sid h x m : rel0 sid h (fst (deliver_to_session h x m)).
Proof.
  unfold deliver_to_session. destruct (get_sess h x) as [s|] eqn:Hs; [|apply rel0_refl].
  match goal with |- context [let '(m', s1) := ?X in _] => destruct X as [m' s1] eqn:HX end.
  destruct (deliver_keeps h x m s Hs m' s1 HX) as (Hc & Hp & _).
  destruct m' as [mm|]; cbn [fst].
  - destruct (s_conn s1) as [c|] eqn:Hc1; cbn [fst].
    + apply rel0_put with s; [exact Hs|apply sessA_same; congruence].
    + apply rel0_put with s; [exact Hs|]. split; [cbn; congruence|].
      destruct (enqueue_ext (s_pending s1) mm) as [l Hl]. exists l. split; [cbn; now rewrite Hl, Hp|]. intros Hne. congruence.
  - apply rel0_put with s; [exact Hs|now apply sessA_same].
Qed.

Lemma rel0_send_session sid h x m : rel0 sid h (fst (send_session h x m)).
Proof.
  unfold send_session.
  match goal with |- context [deliver_to_session h ?t m] => set (target := t) end.
  destruct (deliver_to_session h target m) as [h1 outs] eqn:Hd. pose proof (fst_eq _ _ _ Hd) as E1.
  assert (R1 : rel0 sid h h1) by (rewrite E1; apply rel0_deliver_to_session).
  destruct outs as [|[c mm| | |] [|o2 outs2]]; cbn [fst]; try exact R1.
  destruct (is_closing h1 c mm); [|exact R1].
  destruct (close_conn h1 c) as [h2 outs2] eqn:Hc. cbn [fst]. rewrite (fst_eq _ _ _ Hc).
  eapply rel0_trans; [exact R1|apply rel0_close_conn].
Qed.

Lemma rel0_send_conn sid h c m : rel0 sid h (fst (send_conn h c m)).
Proof.
  unfold send_conn. destruct (aget (h_conns h) c); [|apply rel0_refl].
  destruct (is_closing h c m); [|apply rel0_refl].
  destruct (close_conn h c) as [h2 outs2] eqn:Hc. cbn [fst]. rewrite (fst_eq _ _ _ Hc). apply rel0_close_conn.
Qed.

Lemma rel0_kick sid h rs : rel0 sid h (fst (kick_room_session h rs)).
Proof.
  unfold kick_room_session. destruct (aget (h_rs2 h) rs) as [x|]; [|apply rel0_refl].
  destruct (get_sess h x) as [s'|]; [|cbn [fst]; apply rel0_publish].
  destruct (leave_room h x false) as [h1 o1] eqn:Hl. pose proof (fst_eq _ _ _ Hl) as E1.
  assert (R1 : rel0 sid h h1) by (rewrite E1; apply rel0_leave_room).
  match goal with |- context [let '(h2, outs2) := ?X in _] => destruct X as [h2 o2] eqn:H2 end.
  assert (R2 : rel0 sid h h2).
  { destruct (s_kind s') as [| |p v]; destruct (s_conn s') as [c'|];
      try (injection H2 as <- <-; exact R1); rewrite (fst_eq _ _ _ H2);
      (eapply rel0_trans; [exact R1|apply rel0_send_conn]). }
  destruct (close_session h2 x) as [h3 o3] eqn:H3. cbn [fst]. rewrite (fst_eq _ _ _ H3).
  eapply rel0_trans; [exact R2|apply rel0_close_session].
Qed.

Lemma rel0_join_room sid h c x k rs perms su : rel0 sid h (fst (join_room h c x k rs perms su)).
Proof.
  unfold join_room.
  destruct (leave_room h x true) as [h1 o1] eqn:Hl. pose proof (fst_eq _ _ _ Hl) as E1.
  assert (R1 : rel0 sid h h1) by (rewrite E1; apply rel0_leave_room).
  destruct (get_sess h1 x) as [s|] eqn:Hs; [|exact R1].
  set (r := match room_of h1 k with Some x0 => x0 | None => empty_room end).
  set (r' := mkroom (nadd x (r_members r)) (r_incall r) (if N.eqb su 0 then r_sessdata r else aset (r_sessdata r) x su) (r_transient r) (r_props r)).
  set (s1 := upd_sess s (Some k) rs (s_conn s) (match perms with Some p => Some p | None => s_perms s end) (s_pending s) [] (h_clock h1)).
  set (h2 := set_clock (put_sess (set_rooms h1 (pset (h_rooms h1) k r')) x s1) (h_clock h1 + 1)).
  assert (R2 : rel0 sid h h2).
  { eapply rel0_trans; [exact R1|].
    apply (rel0_aset sid h1 h2 x s s1); [reflexivity|reflexivity|exact Hs|now apply sessA_same]. }
  set (h3 := if N.eqb rs 0 then h2 else rs_set h2 x rs).
  assert (R3 : rel0 sid h h3).
  { unfold h3. destruct (N.eqb rs 0); [exact R2|]. eapply rel0_trans; [exact R2|apply rel0_rs_set]. }
  set (h4 := set_anonymous h3 (nrem x (h_anonymous h3))).
  set (h5 := match s_kind s with KInternal _ true => set_dialout h4 (nrem x (h_dialout h4)) | _ => h4 end).
  assert (R5 : rel0 sid h h5).
  { eapply rel0_then_eq; [exact R3| |]; unfold h5; destruct (s_kind s) as [|f d|]; try destruct d; reflexivity. }
  destruct (send_session h5 x (SRoom (snd k))) as [h7 o2] eqn:Hsend.
  assert (R7 : rel0 sid h h7).
  { rewrite (fst_eq _ _ _ Hsend). eapply rel0_trans; [exact R5|apply rel0_send_session]. }
  destruct (room_of h7 k); [|exact R7].
  set (h9 := if nmem x (r_members r) then h7 else publish h7 (SubjRoom (fst k) (snd k)) (ARoomEvent (SJoin [(x, if N.eqb (s_user s) 0 then su else s_user s)]))).
  assert (R9 : rel0 sid h h9).
  { unfold h9. destruct (nmem x (r_members r)); [exact R7|]. eapply rel0_trans; [exact R7|apply rel0_publish]. }
  match goal with |- context [let '(h10, outs3) := ?X in _] => destruct X as [h10 o3] eqn:H10 end.
  assert (R10 : rel0 sid h h10).
  { destruct (nmem x (r_members r)); [injection H10 as <- <-; exact R9|].
    destruct (r_transient r); [injection H10 as <- <-; exact R9|].
    rewrite (fst_eq _ _ _ H10). eapply rel0_trans; [exact R9|apply rel0_send_session]. }
  cbn [fst]. eapply rel0_trans; [exact R10|apply rel0_publish].
Qed.

Lemma rel0_do_join sid h c x s rn rs rep :
  get_sess h x = Some s -> rel0 sid h (fst (do_join h c x s rn rs rep)).
Proof.
  intros Hs. unfold do_join. destruct (N.eqb rn 0).
  - destruct (s_room s); [|apply rel0_refl].
    destruct (leave_room h x true) as [h1 o1] eqn:Hl.
    assert (R1 : rel0 sid h h1) by (rewrite (fst_eq _ _ _ Hl); apply rel0_leave_room).
    destruct (send_session h1 x (SRoom 0)) as [h2 o2] eqn:H2.
    assert (R2 : rel0 sid h h2).
    { rewrite (fst_eq _ _ _ H2). eapply rel0_trans; [exact R1|apply rel0_send_session]. }
    cbn [fst]. destruct (N.eqb (s_user s) 0 && negb (is_internal (s_kind s))); [|exact R2].
    eapply rel0_then_eq; [exact R2|reflexivity|reflexivity].
  - set (k := (s_backend s, rn)). set (rsv := if N.eqb rs 0 then 0 else 1000000 + rs).
    destruct (match room_of h k with Some r => nmem x (r_members r) | None => false end).
    + set (newrs := if N.eqb rs 0 then 2000000 + x else rsv).
      set (h1 := if N.eqb (s_rs s) newrs then h else put_sess (rs_set h x newrs) x (sess_rs s newrs)).
      assert (R1 : rel0 sid h h1).
      { unfold h1. destruct (N.eqb (s_rs s) newrs); [apply rel0_refl|].
        eapply rel0_trans; [apply (rel0_rs_set sid h x newrs)|].
        apply rel0_put with s; [unfold get_sess; rewrite rs_set_sessions; exact Hs|now apply sessA_same]. }
      destruct (send_session h1 x (SError E_already_joined)) as [h2 o2] eqn:H2. cbn [fst].
      rewrite (fst_eq _ _ _ H2). eapply rel0_trans; [exact R1|apply rel0_send_session].
    + destruct (is_internal (s_kind s)); [apply rel0_join_room|].
      match goal with |- context [let '(h1, outs1) := ?X in _] => destruct X as [h1 o1] eqn:H1 end.
      assert (R1 : rel0 sid h h1).
      { destruct (N.eqb rs 0 || N.eqb (s_rs s) rsv); [injection H1 as <- <-; apply rel0_refl|].
        rewrite (fst_eq _ _ _ H1). apply rel0_kick. }
      destruct (get_sess h1 x); [|exact R1].
      destruct rep as [perms su|code].
      * destruct (join_room h1 c x k rsv perms su) as [h2 o2] eqn:H2. cbn [fst]. rewrite (fst_eq _ _ _ H2).
        eapply rel0_trans; [exact R1|apply rel0_join_room].
      * destruct (send_session h1 x (SError code)) as [h2 o2] eqn:H2. cbn [fst]. rewrite (fst_eq _ _ _ H2).
        eapply rel0_trans; [exact R1|apply rel0_send_session].
Qed.

Lemma rel0_do_message sid h x s kindn to tag cb : rel0 sid h (fst (do_message h x s kindn to tag cb)).
Proof.
  unfold do_message.
  destruct to as [i|u| |].
  - destruct i as [n|n|k|n]; try (cbn [fst]; apply rel0_publish).
    destruct (get_sess h n) as [t|]; [|cbn [fst]; apply rel0_publish].
    destruct (cb && negb (N.eqb (s_backend t) (s_backend s))); [apply rel0_refl|].
    destruct (N.eqb n x); [apply rel0_refl|].
    destruct (s_kind t); apply rel0_send_session.
  - destruct (N.eqb u 0); [apply rel0_refl|]. destruct (N.eqb u (sess_userid h x s)); [apply rel0_refl|].
    cbn [fst]. apply rel0_publish.
  - destruct (s_room s); [|apply rel0_refl]. cbn [fst]. apply rel0_publish.
  - destruct (s_room s); [|apply rel0_refl]. cbn [fst]. apply rel0_publish.
Qed.

Lemma rel0_recv_event sid h x m sender co re t : rel0 sid h (fst (recv_event h x m sender co re t)).
Proof.
  unfold recv_event. destruct (get_sess h x) as [s|]; [|apply rel0_refl].
  destruct (N.eqb sender x && negb (N.eqb sender 0)); [apply rel0_refl|].
  destruct (co && negb (in_call h x s)); [apply rel0_refl|].
  match goal with |- context [if ?c then _ else _] => destruct c end; [apply rel0_refl|]. apply rel0_send_session.
Qed.

Lemma rel0_delete_member sid hh m : rel0 sid hh (fst (delete_member hh m)).
Proof.
  unfold delete_member. destruct (get_sess hh m) as [s|]; [|apply rel0_refl].
  destruct (leave_room hh m true) as [h2 o1] eqn:Hl.
  assert (R2 : rel0 sid hh h2) by (rewrite (fst_eq _ _ _ Hl); apply rel0_leave_room).
  destruct (is_virtual (s_kind s)); [exact R2|].
  destruct (send_session h2 m (SRoom 0)) as [h3 o2] eqn:H3. cbn [fst]. rewrite (fst_eq _ _ _ H3).
  eapply rel0_trans; [exact R2|apply rel0_send_session].
Qed.

Lemma rel0_transient_update sid h k r del key val : rel0 sid h (fst (transient_update h k r del key val)).
Proof.
  unfold transient_update.
  assert (Hn : forall d m, rel0 sid h (fst (transient_notify h k r d m))).
  { intros d m. unfold transient_notify.
    apply rel0_trans with (set_rooms h (pset (h_rooms h) k (room_set_transient r d))); [apply rel0_eq; reflexivity|].
    apply rel0_fold_sessions. intros hh y. apply rel0_send_session. }
  destruct (del || N.eqb val 0).
  - destruct (aget (r_transient r) key); [apply Hn|apply rel0_refl].
  - destruct (aget (r_transient r) key) as [v|]; [destruct (N.eqb v val); [apply rel0_refl|apply Hn]|apply Hn].
Qed.

Lemma rel0_room_request sid h k q : rel0 sid h (fst (room_request h k q)).
Proof.
  unfold room_request. destruct (room_of h k) as [r|]; [|apply rel0_refl].
  destruct q as [|users rs|tag|l|l|ic|tag|ok|del key val]; [| | | | | | |apply rel0_refl|apply rel0_transient_update].
  - (* delete *)
    match goal with |- context [fold_sessions h ?int ?f] => set (internals := int); set (g := f) end.
    destruct (fold_sessions h internals g) as [h0 o0] eqn:H0.
    assert (R0 : rel0 sid h h0).
    { rewrite (fst_eq _ _ _ H0). apply rel0_fold_sessions. intros hh y. apply rel0_send_session. }
    set (h1 := set_rooms h0 (pdel (h_rooms h0) k)).
    destruct (fold_sessions h1 (r_members r) delete_member) as [h9 o9] eqn:H9. cbn [fst].
    rewrite (fst_eq _ _ _ H9). eapply rel0_trans; [exact R0|].
    eapply rel0_trans; [apply (rel0_eq sid h0 h1); reflexivity|].
    apply rel0_fold_sessions. intros hh y. apply rel0_delete_member.
  - apply rel0_refl.
  - destruct (N.eqb (r_props r) (tag + 1)); [apply rel0_refl|]. cbn [fst]. apply rel0_eq; reflexivity.
  - cbn [fst]. apply rel0_publish.
  - (* incall *)
    match goal with |- context [fold_left ?f l (h, [])] => set (g := f) end.
    assert (Hg : rel0 sid h (fst (fold_left g l (h, [])))).
    { assert (G : forall acc, rel0 sid h (fst acc) -> rel0 sid h (fst (fold_left g l acc))).
      { induction l as [|u l IH]; intros acc Hacc; cbn [fold_left]; [exact Hacc|]. apply IH.
        destruct acc as [hh oo]. cbn [fst] in Hacc. unfold g. destruct u as [[i icv] pm].
        destruct i as [n|y|kk|n]; try exact Hacc.
        destruct (get_sess hh y); [|exact Hacc].
        destruct (N.testbit icv 0); [cbn [fst]; eapply rel0_trans; [exact Hacc|apply rel0_set_incall]|].
        destruct (leave_call (set_incall hh k y false) y) as [h2 o2] eqn:H2. cbn [fst].
        rewrite (fst_eq _ _ _ H2). eapply rel0_trans; [exact Hacc|].
        eapply rel0_trans; [apply rel0_set_incall|apply rel0_leave_call]. }
      apply G. apply rel0_refl. }
    destruct (fold_left g l (h, [])) as [h1 outs]. cbn [fst] in *. eapply rel0_trans; [exact Hg|apply rel0_publish].
  - (* incall for everybody *)
    destruct (N.testbit ic 0).
    + match goal with |- context [filter ?f (filter ?g0 (r_members r))] => set (fresh := filter f (filter g0 (r_members r))); set (joiners := filter g0 (r_members r)) end.
      destruct fresh; [apply rel0_refl|].
      eapply rel0_trans; [|apply rel0_fold_sessions; intros hh y; apply rel0_send_session].
      apply rel0_fold_left_hub. intros hh y. apply rel0_set_incall.
    + destruct (r_incall r) eqn:Hic; [apply rel0_refl|].
      set (h1 := set_rooms h (pset (h_rooms h) k (mkroom (r_members r) [] (r_sessdata r) (r_transient r) (r_props r)))).
      assert (R1 : rel0 sid h h1) by (apply rel0_eq; reflexivity).
      match goal with |- context [fold_sessions h1 ?lv leave_call] => destruct (fold_sessions h1 lv leave_call) as [h2 o1] eqn:H2 end.
      assert (R2 : rel0 sid h h2).
      { rewrite (fst_eq _ _ _ H2). eapply rel0_trans; [exact R1|]. apply rel0_fold_sessions. intros hh y. apply rel0_leave_call. }
      match goal with |- context [fold_sessions h2 ?lv ?f] => destruct (fold_sessions h2 lv f) as [h3 o2] eqn:H3 end.
      cbn [fst]. rewrite (fst_eq _ _ _ H3). eapply rel0_trans; [exact R2|].
      apply rel0_fold_sessions. intros hh y. apply rel0_send_session.
  - cbn [fst]. apply rel0_publish.
Qed.

Lemma rel0_deliver_pub sid h p : rel0 sid h (fst (deliver_pub h p)).
Proof.
  unfold deliver_pub.
  destruct (p_subj p) as [b r|b r|b u|x|]; destruct (p_msg p) as [m sender co|m|sj internal|pm| |q]; try apply rel0_refl.
  - apply rel0_fold_sessions. intros hh y. apply rel0_recv_event.
  - apply rel0_fold_sessions. intros hh y. apply rel0_recv_event.
  - (* session joined *)
    destruct (room_of h (b, r)) as [rm|]; [|apply rel0_refl].
    match goal with |- context [match ?o with [] => _ | _ => _ end] => destruct o end; [apply rel0_refl|]. cbn [fst].
    match goal with |- rel0 _ _ (fold_left ?f ?l ?h0) => apply (wf_fold_left_hub (fun hh => rel0 sid h hh) f l h0) end.
    + apply rel0_publish.
    + intros hh y Hhh. destruct (get_sess hh y) as [sx|]; [|exact Hhh].
      destruct (is_virtual (s_kind sx) && negb (N.eqb (s_flags sx) 0)); [|exact Hhh].
      eapply rel0_trans; [exact Hhh|apply rel0_publish].
  - apply rel0_room_request.
  - apply rel0_fold_sessions. intros hh y. apply rel0_recv_event.
  - destruct (get_sess h x) as [s|]; [|apply rel0_refl]. destruct (is_virtual (s_kind s)); [apply rel0_refl|]. apply rel0_recv_event.
  - destruct (get_sess h x) as [s|]; [|apply rel0_refl]. destruct (is_virtual (s_kind s)); [apply rel0_refl|]. apply rel0_recv_event.
  - (* permissions *)
    destruct (get_sess h x) as [s|] eqn:Hs; [|apply rel0_refl]. destruct (is_virtual (s_kind s)); [apply rel0_refl|].
    eapply rel0_trans; [|apply rel0_revoke]. apply rel0_put with s; [exact Hs|now apply sessA_same].
  - (* kick through the bus *)
    destruct (get_sess h x) as [s|]; [|apply rel0_refl]. destruct (is_virtual (s_kind s)); [apply rel0_refl|].
    destruct (leave_room h x false) as [h1 o1] eqn:H1.
    destruct (send_session h1 x (SBye B_room_session_reconnected)) as [h2 o2] eqn:H2.
    destruct (close_session h2 x) as [h3 o3] eqn:H3. cbn [fst].
    assert (R1 : rel0 sid h h1) by (rewrite (fst_eq _ _ _ H1); apply rel0_leave_room).
    assert (R2 : rel0 sid h1 h2) by (rewrite (fst_eq _ _ _ H2); apply rel0_send_session).
    assert (R3 : rel0 sid h2 h3) by (rewrite (fst_eq _ _ _ H3); apply rel0_close_session).
    eapply rel0_trans; [exact R1|]. eapply rel0_trans; [exact R2|exact R3].
Qed.

Lemma rel0_deliver_at sid h pos : rel0 sid h (fst (deliver_at h pos)).
Proof.
  unfold deliver_at. destruct (take_nth pos (h_bus h)) as [[p rest]|]; [|apply rel0_refl].
  eapply rel0_trans; [|apply rel0_deliver_pub]. apply rel0_eq; reflexivity.
Qed.

Lemma rel0_do_api sid h b room q : rel0 sid h (fst (do_api h b room q)).
Proof.
  unfold do_api.
  assert (Hpub : forall hh s m, rel0 sid h hh -> rel0 sid h (publish hh s m)).
  { intros hh s m R. eapply rel0_trans; [exact R|apply rel0_publish]. }
  pose proof (rel0_refl sid h) as R0.
  destruct q as [|users rs|tag|l|l|ic|tag|ok|del key val]; cbn [fst]; auto.
  - match goal with |- rel0 _ _ (fold_left ?f ?l ?h0) => apply (wf_fold_left_hub (fun hh => rel0 sid h hh) f l h0) end.
    + match goal with |- rel0 _ _ (fold_left ?f ?l ?h0) => apply (wf_fold_left_hub (fun hh => rel0 sid h hh) f l h0) end; auto.
    + intros hh y Hhh. destruct (aget (h_rs2 hh) (1000000 + y)); auto.
  - match goal with |- context [match ?o with [] => _ | _ => _ end] => destruct o end; cbn [fst]; auto.
    apply Hpub. match goal with |- rel0 _ _ (fold_left ?f ?l ?h0) => apply (wf_fold_left_hub (fun hh => rel0 sid h hh) f l h0) end; auto.
    intros hh [[i icv] pm] Hhh. destruct i; auto. destruct pm; auto.
  - match goal with |- context [match ?o with [] => _ | _ => _ end] => destruct o end; cbn [fst]; auto.
  - (* dial-out *)
    destruct ok; cbn [negb fst]; [|exact R0]. destruct (dialout_session h b) as [x|]; [|exact R0].
    destruct (send_session h x (SDialout room)) as [h1 o1] eqn:H1. cbn [fst]. apply Hpub.
    rewrite (fst_eq _ _ _ H1). apply rel0_send_session.
Qed.

Lemma rel0_do_tick sid h secs : rel0 sid h (fst (do_tick h secs)).
Proof.
  unfold do_tick.
  match goal with |- context [let '(h1, o1) := ?X in _] => destruct X as [h1 o1] eqn:H1 end.
  assert (R1 : rel0 sid h h1).
  { destruct (hub_expire_s <? secs); [|injection H1 as <- <-; apply rel0_refl].
    rewrite (fst_eq _ _ _ H1). apply rel0_fold_sessions. intros hh y. apply rel0_close_session. }
  match goal with |- context [let '(h2, o2) := ?X in _] => destruct X as [h2 o2] eqn:H2 end.
  assert (R2 : rel0 sid h h2).
  { destruct (hub_anonymous_s <? secs); [|injection H2 as <- <-; exact R1].
    rewrite (fst_eq _ _ _ H2). eapply rel0_trans; [exact R1|]. apply rel0_fold_sessions. intros hh y.
    destruct (get_sess hh y) as [s|]; [|apply rel0_refl].
    match goal with |- context [let '(h3, o3) := ?X in _] => destruct X as [h3 o3] eqn:H3 end.
    assert (R3 : rel0 sid hh h3).
    { destruct (s_conn s); [|injection H3 as <- <-; apply rel0_refl]. rewrite (fst_eq _ _ _ H3). apply rel0_send_conn. }
    destruct (close_session h3 y) as [h4 o4] eqn:H4. cbn [fst]. rewrite (fst_eq _ _ _ H4).
    eapply rel0_trans; [exact R3|apply rel0_close_session]. }
  match goal with |- context [let '(h3, o3) := ?X in _] => destruct X as [h3 o3] eqn:H3 end.
  cbn [fst]. destruct (hub_hello_s <? secs); [|injection H3 as <- <-; exact R2].
  rewrite (fst_eq _ _ _ H3). eapply rel0_trans; [exact R2|]. apply rel0_fold_sessions. intros hh y. apply rel0_send_conn.
Qed.

(* media *)
Lemma rel0_finish_create sid h tok p ok : rel0 sid h (fst (finish_create h tok p ok)).
Proof.
  unfold finish_create.
  assert (Hsend : forall hh x m, rel0 sid h hh -> rel0 sid h (fst (send_session hh x m))).
  { intros hh x m E. eapply rel0_trans; [exact E|apply rel0_send_session]. }
  assert (Hcond : forall hh (b : bool) x m, rel0 sid h hh ->
            rel0 sid h (fst (if b then send_session hh x m else (hh, [])))).
  { intros hh b x m E. destruct b; [now apply Hsend|exact E]. }
  pose proof (rel0_refl sid h) as R0.
  destruct ok; cbn [negb].
  2:{ destruct (send_session h (mp_errto p) (SError E_client_not_found)) as [h1 o1] eqn:H1. cbn [fst].
      rewrite (fst_eq _ _ _ H1). now apply Hsend. }
  destruct (get_sess h (mp_owner p)) as [s|] eqn:Hs; [|exact R0].
  destruct (negb (N.eqb (s_rel s) (mp_rel p))).
  { destruct (send_session h (mp_errto p) (SError E_client_not_found)) as [h1 o1] eqn:H1. cbn [fst].
    rewrite (fst_eq _ _ _ H1). now apply Hsend. }
  destruct (N.eqb (mp_kind p) 0 && negb (offer_allowed (s_perms s) (mp_stream p) (N.land (mp_media p) 3))).
  { destruct (send_session h (mp_errto p) (SError E_not_allowed)) as [h1 o1] eqn:H1. cbn [fst].
    rewrite (fst_eq _ _ _ H1). now apply Hsend. }
  destruct (N.eqb (mp_kind p) 0).
  - destruct (aget (s_pubs s) (mp_stream p)).
    + match goal with |- context [let '(h1, o1) := ?X in _] => destruct X as [h1 o1] eqn:H1 end. cbn [fst].
      rewrite (fst_eq _ _ _ H1). now apply Hcond.
    + match goal with |- context [let '(h3, o3) := ?X in _] => destruct X as [h3 o3] eqn:H3 end. cbn [fst].
      rewrite (fst_eq _ _ _ H3). apply Hcond.
      eapply (rel0_aset sid h _ (mp_owner p) s); [reflexivity|reflexivity|exact Hs|now apply sessA_same].
  - destruct (sub_get s (mp_pubof p) (mp_stream p)).
    + match goal with |- context [let '(h1, o1) := ?X in _] => destruct X as [h1 o1] eqn:H1 end. cbn [fst].
      rewrite (fst_eq _ _ _ H1). now apply Hcond.
    + match goal with |- context [let '(h3, o3) := ?X in _] => destruct X as [h3 o3] eqn:H3 end. cbn [fst].
      rewrite (fst_eq _ _ _ H3). apply Hcond.
      eapply (rel0_aset sid h _ (mp_owner p) s); [reflexivity|reflexivity|exact Hs|now apply sessA_same].
Qed.

Lemma rel0_start_create sid h p : rel0 sid h (fst (start_create h p)).
Proof.
  unfold start_create. destruct (h_gated h); [cbn [fst]; apply rel0_eq; reflexivity|].
  match goal with |- context [let '(h1, o1) := ?X in _] => destruct X as [h1 o1] eqn:H1 end. cbn [fst].
  rewrite (fst_eq _ _ _ H1). eapply rel0_trans; [|apply rel0_finish_create]. apply rel0_eq; reflexivity.
Qed.

Lemma rel0_do_mcudone sid h tok ok : rel0 sid h (fst (do_mcudone h tok ok)).
Proof.
  unfold do_mcudone. destruct (aget (h_mcupending h) tok) as [p|]; [|apply rel0_refl].
  eapply rel0_trans; [|apply rel0_finish_create]. apply rel0_eq; reflexivity.
Qed.

Lemma rel0_do_sendoffer sid h c x s i stream : rel0 sid h (fst (do_sendoffer h c x s i stream)).
Proof.
  unfold do_sendoffer.
  destruct i as [n|n|k|n]; try (destruct (negb (send_allowed (s_perms s) stream)); [apply rel0_refl|apply rel0_refl]).
  destruct (get_sess h n) as [t|] eqn:Ht; [|destruct (negb (send_allowed (s_perms s) stream)); [apply rel0_refl|apply rel0_refl]].
  destruct (N.eqb_spec (s_backend t) (s_backend s)) as [Hbt|]; cbn [negb]; [|apply rel0_refl].
  destruct (N.eqb n x); [apply rel0_refl|].
  destruct (negb (send_allowed (s_perms s) stream)); [apply rel0_refl|].
  cbv zeta. set (r := match s_kind t with KVirtual p _ => p | _ => n end).
  destruct (get_sess h r) as [rs|] eqn:Hr; [|apply rel0_refl].
  destruct (is_virtual (s_kind rs)) eqn:Hv; [apply rel0_refl|].
  destruct (sub_get rs x stream); [apply rel0_send_session|apply rel0_start_create].
Qed.

Lemma rel0_do_media sid h c x s to mk stream media :
  get_sess h x = Some s -> rel0 sid h (fst (do_media h c x s to mk stream media)).
Proof.
  intros Hs. unfold do_media. destruct to as [i|u| |]; try apply rel0_refl.
  destruct (N.eqb mk 0).
  - destruct (negb (offer_allowed (s_perms s) stream _)); [apply rel0_refl|].
    destruct (aget (s_pubs s) stream); [|apply rel0_start_create].
    eapply rel0_trans; [|apply rel0_send_session]. apply rel0_put with s; [exact Hs|now apply sessA_same].
  - destruct (N.eqb mk 1).
    + match goal with |- context [if ?c then _ else _] => destruct c end; [apply rel0_refl|].
      destruct (negb (same_call h x s _)); [apply rel0_refl|].
      destruct (sub_get s _ stream); [apply rel0_send_session|apply rel0_start_create].
    + destruct (is_cand mk); [|destruct (N.eqb mk 3); [apply rel0_do_sendoffer|apply rel0_refl]].
      match goal with |- context [if ?c then _ else _] => destruct c end.
      * destruct (negb (send_allowed (s_perms s) stream)); [apply rel0_refl|]. destruct (aget (s_pubs s) stream); apply rel0_refl.
      * destruct (sub_get s _ stream); apply rel0_refl.
Qed.

Lemma rel0_drain sid fuel : forall h, rel0 sid h (fst (drain fuel h)).
Proof.
  induction fuel as [|f IH]; intros h; cbn [drain]; [apply rel0_refl|].
  destruct (h_bus h); [apply rel0_refl|].
  destruct (deliver_at h 0) as [h1 o1] eqn:H1. destruct (drain f h1) as [h2 o2] eqn:H2. cbn [fst].
  assert (R1 : rel0 sid h h1) by (rewrite (fst_eq _ _ _ H1); apply rel0_deliver_at).
  eapply rel0_trans; [exact R1|]. rewrite (fst_eq _ _ _ H2). apply IH.
Qed.

(* ------------------------------------------------------------------ functions that may create a session *)
Record rel (sid : N) (h h' : hub) : Prop := {
  r_next : h_nextsid h <= h_nextsid h';
  (* a session that appears got an id above every id handed out before, and nothing queued if it has a connection *)
  r_born : get_sess h sid = None -> forall s', get_sess h' sid = Some s' ->
           h_nextsid h < sid <= h_nextsid h' /\ (s_conn s' <> None -> s_pending s' = []);
  r_core : sid <= h_nextsid h -> forall s', get_sess h' sid = Some s' ->
           (exists s, get_sess h sid = Some s /\ sessA s s') \/ sessB s';
}.

Lemma rel_of_rel0 sid h h' : rel0 sid h h' -> rel sid h h'.
Proof.
  intros [Hn Hc]. constructor.
  - rewrite Hn. lia.
  - intros Hd s' Hs'. destruct (Hc s' Hs') as [s [Hs _]]. congruence.
  - intros _ s' Hs'. left. now apply Hc.
Qed.
Lemma rel_refl sid h : rel sid h h.
Proof. apply rel_of_rel0, rel0_refl. Qed.

Lemma rel_trans sid h1 h2 h3 : rel sid h1 h2 -> rel sid h2 h3 -> rel sid h1 h3.
Proof.
  intros [N1 B1 C1] [N2 B2 C2]. constructor.
  - lia.
  - intros Hd s3 H3.
    assert (Hcase : (exists s2, get_sess h2 sid = Some s2) \/ get_sess h2 sid = None) by (destruct (get_sess h2 sid); eauto).
    destruct Hcase as [[s2 H2]|H2].
    + destruct (B1 Hd s2 H2) as [[Hlt Hle] Hq].
      destruct (C2 Hle s3 H3) as [[s2' [H2' [Hc [l [Hp Hl]]]]]|[Hc Hp]].
      * rewrite H2 in H2'. injection H2' as <-. split; [lia|]. intros Hne.
        assert (Hne2 : s_conn s2 <> None) by congruence. rewrite Hp, (Hq Hne2), (Hl Hne2). reflexivity.
      * split; [lia|]. intros _. exact Hp.
    + destruct (B2 H2 s3 H3) as [[Hlt Hle] Hq]. split; [lia|exact Hq].
  - intros Hle s3 H3. assert (Hle2 : sid <= h_nextsid h2) by lia.
    destruct (C2 Hle2 s3 H3) as [[s2 [H2 A2]]|HB]; [|now right].
    destruct (C1 Hle s2 H2) as [[s1 [H1 A1]]|[Hc Hp]].
    + left. exists s1. split; [exact H1|]. eapply sessA_trans; eauto.
    + right. destruct A2 as [Hc2 [l [Hp2 Hl]]]. split; [congruence|]. rewrite Hp2, Hp, (Hl Hc). reflexivity.
Qed.

Lemma next_id_gt h : h_nextsid h < next_id h.
Proof. unfold next_id. lia. Qed.

(* a new session under the next id *)
Lemma rel_new sid h h' s0 :
  h_sessions h' = aset (h_sessions h) (next_id h) s0 -> h_nextsid h' = next_id h ->
  (s_conn s0 <> None -> s_pending s0 = []) -> rel sid h h'.
Proof.
  intros Hs Hn Hq. pose proof (next_id_gt h) as Hgt. constructor.
  - lia.
  - intros Hd s' Hs'. unfold get_sess in *. rewrite Hs, aget_aset in Hs'.
    destruct (N.eqb_spec sid (next_id h)) as [->|Hne]; [|congruence].
    injection Hs' as <-. split; [lia|exact Hq].
  - intros Hle s' Hs'. unfold get_sess in *. rewrite Hs, aget_aset_other in Hs' by lia.
    left. exists s'. split; [exact Hs'|apply sessA_refl].
Qed.
(* the id counter moves, no session changes *)
Lemma rel_bump sid h h' : h_sessions h' = h_sessions h -> h_nextsid h <= h_nextsid h' -> rel sid h h'.
Proof.
  intros Hs Hn. constructor; [exact Hn| |]; unfold get_sess; rewrite Hs.
  - intros Hd s' Hs'. congruence.
  - intros _ s' Hs'. left. exists s'. split; [exact Hs'|apply sessA_refl].
Qed.
(* a live session is (re)attached with an empty queue *)
Lemma rel_aset_B sid h h' x s' :
  h_sessions h' = aset (h_sessions h) x s' -> h_nextsid h' = h_nextsid h -> live h x -> sessB s' -> rel sid h h'.
Proof.
  intros Hs Hn [sx Hx] HB. constructor.
  - lia.
  - intros Hd t Ht. unfold get_sess in *. rewrite Hs, aget_aset in Ht.
    destruct (N.eqb_spec sid x) as [->|Hne]; congruence.
  - intros _ t Ht. unfold get_sess in *. rewrite Hs, aget_aset in Ht.
    destruct (N.eqb_spec sid x) as [->|Hne].
    + injection Ht as <-. now right.
    + left. exists t. split; [exact Ht|apply sessA_refl].
Qed.

Lemma rel_register sid h c cn b k u : rel sid h (fst (register h c cn b k u)).
Proof.
  unfold register. pose proof (next_id_gt h) as Hgt.
  match goal with |- context [if ?cond then _ else _] => destruct cond end; cbn [fst].
  - apply rel_bump; [reflexivity|]. cbn. lia.
  - apply rel_new with (new_session b k u c).
    + destruct (negb (is_internal k) && negb (N.eqb (limit_of h b) 0)); destruct (N.eqb u 0 && negb (is_internal k));
        try reflexivity; destruct k as [|f d|]; try destruct d; reflexivity.
    + destruct (negb (is_internal k) && negb (N.eqb (limit_of h b) 0)); destruct (N.eqb u 0 && negb (is_internal k));
        try reflexivity; destruct k as [|f d|]; try destruct d; reflexivity.
    + intros _. reflexivity.
Qed.

Lemma rel_do_hello sid h c cn hl : rel sid h (fst (do_hello h c cn hl)).
Proof.
  unfold do_hello.
  assert (Hexp : forall hh, rel sid h hh -> rel sid h (set_conns hh (aset (h_conns hh) c (mkconn (c_addr cn) None true)))).
  { intros hh R. eapply rel_trans; [exact R|]. apply rel_of_rel0. apply rel0_eq; reflexivity. }
  pose proof (rel_refl sid h) as R0.
  destruct hl as [b u rej|b u t|b tok f d|i].
  - destruct (h_nb h <=? b); [cbn [fst]; now apply Hexp|]. destruct rej; [cbn [fst]; now apply Hexp|].
    destruct (register h c cn b KClient u) as [h1 o1] eqn:Hr. cbn [fst]. rewrite (fst_eq _ _ _ Hr). apply rel_register.
  - destruct (v2_check (h_nb h) b t); [apply rel_register|cbn [fst]; now apply Hexp].
  - destruct (N.eqb tok 4); [cbn [fst]; now apply Hexp|].
    destruct (throttled h (c_addr cn) ACT_INTERNAL); [cbn [fst]; now apply Hexp|].
    destruct (negb (N.eqb tok 0)).
    { cbn [fst]. apply Hexp. apply rel_of_rel0, rel0_eq; reflexivity. }
    destruct (h_nb h <=? b).
    { cbn [fst]. apply Hexp. apply rel_of_rel0, rel0_eq; reflexivity. }
    apply rel_register.
  - destruct (throttled h (c_addr cn) ACT_RESUME); [exact R0|].
    destruct i as [n|n|k|n]; try (cbn [fst]; apply rel_of_rel0, rel0_eq; reflexivity).
    destruct (get_sess h n) as [s|] eqn:Hs; [|exact R0].
    destruct (is_virtual (s_kind s)); [exact R0|].
    match goal with |- context [let '(h1, outs1) := ?X in _] => destruct X as [h1 outs1] eqn:HP end.
    assert (E1 : h_sessions h1 = h_sessions h /\ h_nextsid h1 = h_nextsid h).
    { destruct (s_conn s) as [c'|]; [|injection HP as <- <-; auto].
      destruct (N.eqb c' c); [injection HP as <- <-; auto|].
      rewrite (fst_eq _ _ _ HP). destruct (aget (h_conns h) c') as [cn'|] eqn:Hc'.
      - rewrite (send_bye_detached _ c' (mkconn (c_addr cn') None (c_expect cn')) B_session_resumed);
          [split; reflexivity|hsimpl; apply aget_aset_same|reflexivity].
      - unfold send_conn. rewrite Hc'. split; reflexivity. }
    destruct E1 as [Es En]. cbn [fst].
    match goal with |- rel _ _ (fst (if _ then _ else (?hh, _))) => assert (R5 : rel sid h hh) end.
    { apply (rel_aset_B sid h _ n (sess_pending (sess_conn s (Some c)) [])).
      + transitivity (aset (h_sessions h1) n (sess_pending (sess_conn s (Some c)) [])); [reflexivity|now rewrite Es].
      + transitivity (h_nextsid h1); [reflexivity|exact En].
      + eexists; exact Hs.
      + split; [discriminate|reflexivity]. }
    destruct (queue_closes s); [|exact R5].
    match goal with |- context [close_conn ?hh c] => destruct (close_conn hh c) as [h6 o6] eqn:H6 end. cbn [fst].
    rewrite (fst_eq _ _ _ H6). eapply rel_trans; [exact R5|apply rel_of_rel0, rel0_close_conn].
Qed.

Lemma rel_do_internal sid h c x s q : get_sess h x = Some s -> rel sid h (fst (do_internal h c x s q)).
Proof.
  intros Hs. unfold do_internal.
  assert (Hpub : forall hh sj m, rel0 sid h hh -> rel0 sid h (publish hh sj m)).
  { intros hh sj m R. eapply rel0_trans; [exact R|apply rel0_publish]. }
  assert (Hinc : forall hh k y on, rel0 sid h hh -> rel0 sid h (set_incall hh k y on)).
  { intros hh k y on R. eapply rel0_trans; [exact R|apply rel0_set_incall]. }
  destruct q as [v rn user flags incall|v rn flags incall|v rn|ic].
  - (* add *)
    set (k := (s_backend s, rn)). destruct (room_of h k) as [r|]; [|apply rel_refl].
    set (vs := next_id h). set (h0 := set_nextsid h vs).
    match goal with |- context [mksess (s_backend s) (KVirtual x v) user (Some k) ?rsv None None [] [] 0 ?ic ?fl [] [] [] 0] =>
      set (vsess := mksess (s_backend s) (KVirtual x v) user (Some k) rsv None None [] [] 0 ic fl [] [] [] 0) end.
    set (r' := mkroom (nadd vs (r_members r)) (r_incall r) (r_sessdata r) (r_transient r) (r_props r)).
    set (h1 := put_sess (set_rooms h0 (pset (h_rooms h0) k r')) vs vsess).
    set (h2 := set_vtable h1 (pset (h_vtable h1) (x, v) vs)).
    assert (R2 : rel sid h h2).
    { apply rel_new with vsess; [reflexivity|reflexivity|]. intros Hne. exfalso. apply Hne. reflexivity. }
    match goal with |- context [rs_set h2 vs ?y] => set (h5 := rs_set h2 vs y) end.
    assert (R5 : rel sid h h5) by (eapply rel_trans; [exact R2|apply rel_of_rel0, rel0_rs_set]).
    match goal with |- context [let '(h10, outs10) := match ?pvx with Some _ => _ | None => _ end in _] => destruct pvx as [pv|] end.
    + match goal with |- context [close_one ?hh pv] => set (h9 := hh) end.
      assert (R9 : rel sid h h9).
      { eapply rel_trans; [exact R5|]. apply rel_of_rel0. unfold h9. apply rel0_eq; destruct (N.eqb _ 0); reflexivity. }
      destruct (close_one h9 pv) as [h10 o10] eqn:H10. cbn [fst]. rewrite (fst_eq _ _ _ H10).
      eapply rel_trans; [exact R9|apply rel_of_rel0, rel0_close_one].
    + cbn [fst]. eapply rel_trans; [exact R5|]. apply rel_of_rel0. apply rel0_eq; destruct (N.eqb _ 0); reflexivity.
  - (* update *)
    set (k := (s_backend s, rn)).
    destruct (room_of h k) as [r|]; [|apply rel_refl]. destruct (pget (h_vtable h) (x, v)) as [vs|]; [|apply rel_refl].
    destruct (get_sess h vs) as [t|] eqn:Ht; [|apply rel_refl]. cbn [fst]. apply rel_of_rel0.
    match goal with |- context [put_sess h vs ?t1] => set (h1 := put_sess h vs t1) end.
    assert (R1 : rel0 sid h h1) by (apply rel0_put with t; [exact Ht|now apply sessA_same]).
    repeat match goal with |- context [if ?cnd then _ else _] => destruct cnd end;
      repeat first [apply Hpub | apply Hinc]; exact R1.
  - (* remove *)
    set (k := (s_backend s, rn)).
    destruct (room_of h k) as [r|]; [|apply rel_refl]. destruct (pget (h_vtable h) (x, v)) as [vs|]; [|apply rel_refl].
    apply rel_of_rel0. eapply rel0_trans; [|apply rel0_close_one]. apply rel0_eq; reflexivity.
  - (* in-call flags of the internal client itself *)
    destruct (N.eqb ic (s_incall s)); [apply rel_refl|]. apply rel_of_rel0.
    match goal with |- context [put_sess h x ?t1] => set (h1 := put_sess h x t1) end.
    assert (R1 : rel0 sid h h1) by (apply rel0_put with s; [exact Hs|now apply sessA_same]).
    destruct (s_room s) as [k|]; [|exact R1].
    destruct (N.testbit ic 0); [cbn [fst]; apply Hpub; now apply Hinc|].
    destruct (leave_call (set_incall h1 k x false) x) as [h2 o2] eqn:H2. cbn [fst]. apply Hpub.
    rewrite (fst_eq _ _ _ H2). eapply rel0_trans; [apply Hinc; exact R1|apply rel0_leave_call].
Qed.

(* every op except the cut of a connection *)
Lemma rel_step sid h o : (forall c, o <> ODrop c) -> rel sid h (fst (step h o)).
Proof.
  intros Hnd.
  assert (Hws : forall c (f : conn -> N -> session -> hub * list out),
            (forall cn x s, aget (h_conns h) c = Some cn -> get_sess h x = Some s -> rel sid h (fst (f cn x s))) ->
            rel sid h (fst (with_session h c f))).
  { intros c f Hf. unfold with_session. destruct (aget (h_conns h) c) as [cn|] eqn:Hc; [|apply rel_refl].
    destruct (c_sess cn) as [x|]; [|apply rel_refl]. destruct (get_sess h x) as [s|] eqn:Hs; [|apply rel_refl]. eauto. }
  pose proof (rel_refl sid h) as R0.
  destruct o as [c addr|c hl|c rn rs rep|c to tag|c to tag|c|c|secs|b signas room q|c q|c to mk stream media|tok ok|c kindn key val|pos|c hl late]; cbn [step].
  15:{ (* a hello whose connection is closed while it is processed: the connection has no session *)
    destruct (aget (h_conns h) c) as [cn|]; [|exact R0]. destruct (c_sess cn); [exact R0|].
    destruct hl as [b u rej|b u t|b tok f d|i]; try exact R0.
    - destruct rej; [exact R0|]. destruct (h_nb h <=? b); [exact R0|].
      match goal with |- context [close_conn ?hh c] => destruct (close_conn hh c) as [h2 o2] eqn:H2 end. cbn [fst].
      rewrite (fst_eq _ _ _ H2). eapply rel_trans; [|apply rel_of_rel0, rel0_close_conn].
      destruct late; [apply rel_bump; [reflexivity|cbn; pose proof (next_id_gt h); lia]|apply rel_refl].
    - apply rel_of_rel0, rel0_close_conn. }
  - destruct (aget (h_conns h) c); [exact R0|]. cbn [fst]. apply rel_of_rel0, rel0_eq; reflexivity.
  - destruct (aget (h_conns h) c) as [cn|]; [|exact R0]. destruct (c_sess cn); [exact R0|].
    eapply rel_trans; [|apply rel_do_hello]. apply rel_of_rel0, rel0_eq; reflexivity.
  - apply Hws. intros cn x s Hc Hs. apply rel_of_rel0.
    destruct (do_join h c x s rn rs rep) as [h1 o1] eqn:H1.
    assert (R1 : rel0 sid h h1) by (rewrite (fst_eq _ _ _ H1); now apply rel0_do_join).
    destruct rep as [[pm|] su|code]; try exact R1.
    destruct (get_sess h1 x) as [s1|]; [|exact R1].
    match goal with |- context [if ?cnd then _ else _] => destruct cnd end; [|exact R1].
    destruct (revoke h1 x) as [h2 o2] eqn:H2. cbn [fst]. rewrite (fst_eq _ _ _ H2).
    eapply rel0_trans; [exact R1|apply rel0_revoke].
  - apply Hws. intros cn x s Hc Hs. apply rel_of_rel0, rel0_do_message.
  - apply Hws. intros cn x s Hc Hs. destruct (allowed_control s); [apply rel_of_rel0, rel0_do_message|exact R0].
  - destruct (aget (h_conns h) c) as [cn|]; [|exact R0]. destruct (c_sess cn); [apply rel_of_rel0, rel0_send_conn|exact R0].
  - exfalso. eapply Hnd; reflexivity.
  - apply rel_of_rel0, rel0_do_tick.
  - destruct (negb (N.eqb b signas) || (h_nb h <=? b)); [exact R0|]. apply rel_of_rel0, rel0_do_api.
  - apply Hws. intros cn x s Hc Hs. destruct (is_internal (s_kind s)); [now apply rel_do_internal|exact R0].
  - apply Hws. intros cn x s Hc Hs. apply rel_of_rel0. now apply rel0_do_media.
  - apply rel_of_rel0, rel0_do_mcudone.
  - (* transient data *)
    apply Hws. intros cn x s Hc Hs. apply rel_of_rel0. destruct (s_room s) as [k|]; [|apply rel0_refl].
    destruct (2 <=? kindn); [apply rel0_refl|].
    destruct (negb (allowed_transient s)); [apply rel0_refl|]. destruct (room_of h k) as [r|]; [|apply rel0_refl].
    apply rel0_transient_update.
  - apply rel_of_rel0, rel0_deliver_at.
Qed.

(* ------------------------------------------------------------------ one step, including the cut of a connection *)
(* D: the connection was cut; the queue is kept (and may grow after the cut, within a quiescent step) *)
Definition sessD (s s' : session) : Prop := s_conn s' = None /\ exists l, s_pending s' = s_pending s ++ l.

Record srel (sid : N) (h h' : hub) : Prop := {
  s_next : h_nextsid h <= h_nextsid h';
  s_born : get_sess h sid = None -> forall s', get_sess h' sid = Some s' ->
           h_nextsid h < sid <= h_nextsid h' /\ (s_conn s' <> None -> s_pending s' = []);
  s_core : sid <= h_nextsid h -> forall s', get_sess h' sid = Some s' ->
           (exists s, get_sess h sid = Some s /\ (sessA s s' \/ sessD s s')) \/ sessB s';
}.

Lemma srel_of_rel sid h h' : rel sid h h' -> srel sid h h'.
Proof.
  intros [Hn Hb Hc]. constructor; [exact Hn|exact Hb|].
  intros Hle s' Hs'. destruct (Hc Hle s' Hs') as [[s [Hs HA]]|HB]; [left; exists s; auto|now right].
Qed.

Lemma srel_then_rel0 sid h hm h' : srel sid h hm -> rel0 sid hm h' -> srel sid h h'.
Proof.
  intros [Hn Hb Hc] [Hn0 Hc0]. constructor.
  - rewrite Hn0. exact Hn.
  - intros Hd s' Hs'. destruct (Hc0 s' Hs') as [sm [Hsm [Hcm [l [Hpm Hlm]]]]].
    destruct (Hb Hd sm Hsm) as [Hbounds Hq]. split; [rewrite Hn0; exact Hbounds|].
    intros Hne. assert (Hne' : s_conn sm <> None) by congruence. rewrite Hpm, (Hq Hne'), (Hlm Hne'). reflexivity.
  - intros Hle s' Hs'. destruct (Hc0 s' Hs') as [sm [Hsm HAm]].
    destruct (Hc Hle sm Hsm) as [[s [Hs [HA|[HDc [l1 HDp]]]]]|[HBc HBp]].
    + left. exists s. split; [exact Hs|]. left. eapply sessA_trans; eauto.
    + left. exists s. split; [exact Hs|]. right. destruct HAm as [Hcm [l2 [Hpm _]]].
      split; [congruence|]. exists (l1 ++ l2). rewrite Hpm, HDp. now rewrite app_assoc.
    + right. destruct HAm as [Hcm [l2 [Hpm Hlm]]]. split; [congruence|]. rewrite Hpm, HBp, (Hlm HBc). reflexivity.
Qed.

Lemma drop_nextsid h c : h_nextsid (fst (step h (ODrop c))) = h_nextsid h.
Proof.
  cbn [step]. destruct (aget (h_conns h) c) as [cn|]; [|reflexivity].
  destruct (c_sess cn) as [x|]; [|reflexivity].
  destruct (get_sess (set_conns h (adel (h_conns h) c)) x); reflexivity.
Qed.

Lemma drop_sess h c sid s' :
  get_sess (fst (step h (ODrop c))) sid = Some s' ->
  exists s, get_sess h sid = Some s /\ s_pending s' = s_pending s /\ (s_conn s' = s_conn s \/ s_conn s' = None).
Proof.
  cbn [step]. destruct (aget (h_conns h) c) as [cn|]; [|cbn [fst]; intros H; exists s'; auto].
  destruct (c_sess cn) as [x|]; [|cbn [fst]; intros H; exists s'; auto].
  destruct (get_sess (set_conns h (adel (h_conns h) c)) x) as [s|] eqn:Hs; [|cbn [fst]; intros H; exists s'; auto].
  cbn [fst]. intros H. change (get_sess h x = Some s) in Hs.
  change (aget (aset (h_sessions h) x (sess_conn s None)) sid = Some s') in H. rewrite aget_aset in H.
  destruct (N.eqb_spec sid x) as [->|Hne].
  - injection H as <-. exists s. auto.
  - exists s'. auto.
Qed.

Lemma srel_drop sid h c : srel sid h (fst (step h (ODrop c))).
Proof.
  constructor.
  - rewrite drop_nextsid. lia.
  - intros Hd s' Hs'. destruct (drop_sess h c sid s' Hs') as [s [Hs _]]. congruence.
  - intros _ s' Hs'. destruct (drop_sess h c sid s' Hs') as [s [Hs [Hp [Hc|Hc]]]]; left; exists s; (split; [exact Hs|]).
    + left. now apply sessA_same.
    + right. split; [exact Hc|]. exists []. now rewrite app_nil_r.
Qed.

Lemma srel_step sid h o : srel sid h (fst (step h o)).
Proof.
  destruct o; try (apply srel_of_rel, rel_step; intros c0 E; discriminate E). apply srel_drop.
Qed.

(* both semantics at once: q = false is step / run, q = true the quiescent qstep / qrun *)
Definition stepx (q : bool) (h : hub) (o : op) : hub * list out := if q then qstep h o else step h o.
Fixpoint runx (q : bool) (h : hub) (ops : list op) : hub :=
  match ops with [] => h | o :: r => runx q (fst (stepx q h o)) r end.

Lemma runx_run h ops : runx false h ops = run h ops.
Proof. revert h. induction ops as [|o r IH]; intros h; cbn; [reflexivity|apply IH]. Qed.
Lemma runx_qrun h ops : runx true h ops = qrun h ops.
Proof. revert h. induction ops as [|o r IH]; intros h; cbn; [reflexivity|apply IH]. Qed.
Lemma runx_app q ops1 : forall h ops2, runx q h (ops1 ++ ops2) = runx q (runx q h ops1) ops2.
Proof. induction ops1 as [|o r IH]; intros h ops2; cbn; [reflexivity|apply IH]. Qed.

Lemma qstep_fst h o : fst (qstep h o) = fst (drain 500 (fst (step h o))).
Proof. unfold qstep. destruct (step h o) as [h1 o1]. cbn [fst snd]. destruct (drain 500 h1) as [h2 o2]. reflexivity. Qed.
Lemma qstep_snd h o : snd (qstep h o) = snd (step h o) ++ snd (drain 500 (fst (step h o))).
Proof. unfold qstep. destruct (step h o) as [h1 o1]. cbn [fst snd]. destruct (drain 500 h1) as [h2 o2]. reflexivity. Qed.

(* a quiescent step is the step followed by deliveries, which create no session *)
Lemma stepx_after_step q sid h o : rel0 sid (fst (step h o)) (fst (stepx q h o)).
Proof. destruct q; cbn [stepx]; [rewrite qstep_fst; apply rel0_drain|apply rel0_refl]. Qed.
Lemma stepx_out q h o : exists rest, snd (stepx q h o) = snd (step h o) ++ rest.
Proof. destruct q; cbn [stepx]; [rewrite qstep_snd; eauto|exists []; now rewrite app_nil_r]. Qed.

Lemma srel_stepx q sid h o : srel sid h (fst (stepx q h o)).
Proof. eapply srel_then_rel0; [apply srel_step|apply stepx_after_step]. Qed.

Lemma wf_stepx q h o : WF h -> WF (fst (stepx q h o)).
Proof. destruct q; cbn [stepx]; [apply wf_qstep|apply wf_step]. Qed.

(* ------------------------------------------------------------------ the invariant of every history *)
Record Inv (h : hub) : Prop := {
  (* every id in use was handed out by the counter: ids of ended sessions are never handed out again *)
  inv_ids : forall sid, live h sid -> sid <= h_nextsid h;
  (* a session with a connection has nothing queued *)
  inv_conn : forall sid s, get_sess h sid = Some s -> s_conn s <> None -> s_pending s = [];
}.

Lemma inv_init limits gated : Inv (init limits gated).
Proof. constructor; unfold init, live, get_sess; cbn; [intros sid [s H]|intros sid s H]; discriminate. Qed.

Lemma inv_srel h h' : Inv h -> (forall sid, srel sid h h') -> Inv h'.
Proof.
  intros [Hi Hq] R. constructor.
  - intros sid [s' Hs']. destruct (R sid) as [Hn Hb Hc].
    destruct (get_sess h sid) as [s|] eqn:Hs.
    + assert (sid <= h_nextsid h) by (apply Hi; eexists; exact Hs). lia.
    + destruct (Hb eq_refl s' Hs') as [[_ Hle] _]. exact Hle.
  - intros sid s' Hs' Hne. destruct (R sid) as [Hn Hb Hc].
    assert (Hcase : (exists s, get_sess h sid = Some s) \/ get_sess h sid = None) by (destruct (get_sess h sid); eauto).
    destruct Hcase as [[s Hs]|Hd].
    + assert (Hle : sid <= h_nextsid h) by (apply Hi; eexists; exact Hs).
      destruct (Hc Hle s' Hs') as [[s0 [Hs0 [[Hc0 [l [Hp Hl]]]|[Hc0 _]]]]|[_ Hp]]; [| |exact Hp].
      * assert (Hne0 : s_conn s0 <> None) by congruence. rewrite Hp, (Hq sid s0 Hs0 Hne0), (Hl Hne0). reflexivity.
      * contradiction.
    + destruct (Hb Hd s' Hs') as [_ Hq']. now apply Hq'.
Qed.

Lemma inv_stepx q h o : Inv h -> Inv (fst (stepx q h o)).
Proof. intros I. apply (inv_srel h); [exact I|]. intros sid. apply srel_stepx. Qed.

Definition Good (h : hub) : Prop := WF h /\ Inv h.

Lemma good_init limits gated : Good (init limits gated).
Proof. split; [apply wf_init|apply inv_init]. Qed.
Lemma good_stepx q h o : Good h -> Good (fst (stepx q h o)).
Proof. intros [W I]. split; [now apply wf_stepx|now apply inv_stepx]. Qed.
Lemma good_runx q ops : forall h, Good h -> Good (runx q h ops).
Proof. induction ops as [|o r IH]; intros h G; cbn [runx]; [exact G|]. apply IH. now apply good_stepx. Qed.

Theorem reachable_good h : reachable h -> Good h.
Proof. intros (l & g & ops & ->). rewrite <- runx_run. apply good_runx, good_init. Qed.
Theorem reachable_q_good h : reachable_q h -> Good h.
Proof. intros (l & g & ops & ->). rewrite <- runx_qrun. apply good_runx, good_init. Qed.

Lemma opt_case {A} (x : option A) : (exists a, x = Some a) \/ x = None.
Proof. destruct x; eauto. Qed.

(* ------------------------------------------------------------------ 1. the queue only grows while disconnected *)
Definition disc (h : hub) (sid : N) : Prop := exists s, get_sess h sid = Some s /\ s_conn s = None.
Definition pend (h : hub) (sid : N) : list smsg :=
  match get_sess h sid with Some s => s_pending s | None => [] end.

Lemma disc_live h sid : disc h sid -> live h sid.
Proof. intros [s [Hs _]]. eexists; exact Hs. Qed.

(* If a session has no connection after a step, everything that was in its queue before the step
   is still there, in the same order, at the front: nothing is lost, nothing is reordered, what
   the step queued comes after it.  (Holds whether or not it had a connection before.) *)
Theorem queue_kept_stepx q h o sid s s' :
  Inv h -> get_sess h sid = Some s -> get_sess (fst (stepx q h o)) sid = Some s' -> s_conn s' = None ->
  exists l, s_pending s' = s_pending s ++ l.
Proof.
  intros I Hs Hs' Hc'. assert (Hle : sid <= h_nextsid h) by (apply (inv_ids h I); eexists; exact Hs).
  destruct (s_core _ _ _ (srel_stepx q sid h o) Hle s' Hs') as [[s0 [Hs0 [[_ [l [Hp _]]]|[_ [l Hp]]]]]|[Hne _]].
  - assert (s0 = s) by congruence. subst s0. eauto.
  - assert (s0 = s) by congruence. subst s0. eauto.
  - contradiction.
Qed.

Theorem queue_grows_step h o sid s s' :
  Inv h -> get_sess h sid = Some s -> s_conn s = None ->
  get_sess (fst (step h o)) sid = Some s' -> s_conn s' = None ->
  exists l, s_pending s' = s_pending s ++ l.
Proof. intros I Hs _. exact (queue_kept_stepx false h o sid s s' I Hs). Qed.
Theorem queue_grows_qstep h o sid s s' :
  Inv h -> get_sess h sid = Some s -> s_conn s = None ->
  get_sess (fst (qstep h o)) sid = Some s' -> s_conn s' = None ->
  exists l, s_pending s' = s_pending s ++ l.
Proof. intros I Hs _. exact (queue_kept_stepx true h o sid s s' I Hs). Qed.

(* a connected session never has anything queued *)
Theorem connected_queue_empty h sid s c : Inv h -> get_sess h sid = Some s -> s_conn s = Some c -> s_pending s = [].
Proof. intros I Hs Hc. apply (inv_conn h I sid s Hs). congruence. Qed.

(* the session has no connection after every op of the segment *)
Fixpoint stays_disc (q : bool) (sid : N) (h : hub) (ops : list op) : Prop :=
  match ops with
  | [] => True
  | o :: r => disc (fst (stepx q h o)) sid /\ stays_disc q sid (fst (stepx q h o)) r
  end.
(* what one step appended, and what the segment appended *)
Definition delta (h h' : hub) (sid : N) : list smsg := skipn (length (pend h sid)) (pend h' sid).
Fixpoint appended (q : bool) (sid : N) (h : hub) (ops : list op) : list smsg :=
  match ops with
  | [] => []
  | o :: r => delta h (fst (stepx q h o)) sid ++ appended q sid (fst (stepx q h o)) r
  end.

Lemma skipn_length_app {A} (a l : list A) : skipn (length a) (a ++ l) = l.
Proof. induction a; cbn; auto. Qed.

Lemma delta_stepx q h o sid :
  Inv h -> live h sid -> disc (fst (stepx q h o)) sid ->
  pend (fst (stepx q h o)) sid = pend h sid ++ delta h (fst (stepx q h o)) sid.
Proof.
  intros I [s Hs] [s' [Hs' Hc']]. destruct (queue_kept_stepx q h o sid s s' I Hs Hs' Hc') as [l Hl].
  unfold delta, pend. rewrite Hs, Hs', Hl, skipn_length_app. reflexivity.
Qed.

Lemma stays_disc_end q sid ops : forall h, disc h sid -> stays_disc q sid h ops -> disc (runx q h ops) sid.
Proof.
  induction ops as [|o r IH]; intros h Hd Hst; cbn [runx]; [exact Hd|].
  destruct Hst as [Hd1 Hr]. now apply IH.
Qed.

(* over a segment during which the session has no connection: the queue at the end is the queue
   at the start followed by what the steps appended, in step order *)
Theorem queue_over_segment q sid ops : forall h,
  Inv h -> live h sid -> stays_disc q sid h ops ->
  pend (runx q h ops) sid = pend h sid ++ appended q sid h ops.
Proof.
  induction ops as [|o r IH]; intros h I Hl Hst; cbn [runx appended]; [now rewrite app_nil_r|].
  destruct Hst as [Hd Hr].
  rewrite (IH _ (inv_stepx q h o I) (disc_live _ _ Hd) Hr), (delta_stepx q h o sid I Hl Hd).
  now rewrite app_assoc.
Qed.

(* ------------------------------------------------------------------ 2. what is appended is what was sent *)
(* the session that receives what is sent to sid: a virtual session's internal client *)
Definition target (h : hub) (sid : N) : N :=
  match get_sess h sid with
  | Some s => match s.(s_kind) with KVirtual p _ => p | _ => sid end
  | None => sid
  end.
(* the per-session filter: joins already announced are dropped *)
Definition filtered (t : session) (m : smsg) : option smsg :=
  match m with
  | SJoin l => match fst (filter_seen t.(s_seen) l) with [] => None | keep => Some (SJoin keep) end
  | _ => Some m
  end.
Definition seen_after (t : session) (m : smsg) : session :=
  match m with
  | SJoin l => sess_seen t (snd (filter_seen t.(s_seen) l))
  | SLeave l => sess_seen t (fold_left (fun acc x => nrem x acc) l t.(s_seen))
  | _ => t
  end.

Lemma seen_after_proj t m :
  s_conn (seen_after t m) = s_conn t /\ s_pending (seen_after t m) = s_pending t.
Proof. destruct m; split; reflexivity. Qed.

Lemma deliver_to_session_eq h x m t : get_sess h x = Some t ->
  deliver_to_session h x m =
  match filtered t m with
  | None => (put_sess h x (seen_after t m), [])
  | Some mm => match s_conn t with
               | Some c => (put_sess h x (seen_after t m), [ToConn c mm])
               | None => (put_sess h x (sess_pending (seen_after t m) (enqueue (s_pending t) mm)), [])
               end
  end.
Proof.
  intros Ht. unfold deliver_to_session, filtered, seen_after. rewrite Ht.
  destruct m; try reflexivity.
  destruct (filter_seen (s_seen t) l) as [keep seen']. cbn [fst snd]. destruct keep; reflexivity.
Qed.

Lemma send_session_eq h sid m :
  send_session h sid m =
  let '(h1, outs) := deliver_to_session h (target h sid) m in
  match outs with
  | [ToConn c mm] => if is_closing h1 c mm then let '(h2, outs2) := close_conn h1 c in (h2, outs ++ outs2) else (h1, outs)
  | _ => (h1, outs)
  end.
Proof. reflexivity. Qed.

Lemma get_put_same h x s : get_sess (put_sess h x s) x = Some s.
Proof. unfold get_sess, put_sess. cbn [h_sessions set_sessions]. apply aget_aset_same. Qed.

(* no connection: nothing is written anywhere, exactly the (filtered) message is appended *)
Theorem send_to_disconnected h sid m t :
  get_sess h (target h sid) = Some t -> s_conn t = None ->
  snd (send_session h sid m) = [] /\
  exists t', get_sess (fst (send_session h sid m)) (target h sid) = Some t' /\ s_conn t' = None /\
             s_pending t' = match filtered t m with Some mm => enqueue (s_pending t) mm | None => s_pending t end.
Proof.
  intros Ht Hc. destruct (seen_after_proj t m) as [Hsc Hsp].
  rewrite send_session_eq, (deliver_to_session_eq h _ m t Ht), Hc.
  destruct (filtered t m) as [mm|]; cbv beta iota zeta; cbn [fst snd]; (split; [reflexivity|]);
    eexists; (split; [apply get_put_same|]).
  - split; [cbn; congruence|reflexivity].
  - split; [congruence|]. exact Hsp.
Qed.

Lemma filtered_never_closing t m mm : filtered t m = Some mm -> never_closing m = true -> never_closing mm = true.
Proof.
  unfold filtered. destruct m; intros H Hn; try (injection H as <-; exact Hn).
  destruct (fst (filter_seen (s_seen t) l)); [discriminate|]. injection H as <-. reflexivity.
Qed.

(* a connection: exactly one copy of the (filtered) message is written to it, the queue stays empty;
   (bye and a disinvite for the current room additionally close the connection: not covered here) *)
Theorem send_to_connected h sid m t c :
  get_sess h (target h sid) = Some t -> s_conn t = Some c -> never_closing m = true ->
  snd (send_session h sid m) = match filtered t m with Some mm => [ToConn c mm] | None => [] end /\
  exists t', get_sess (fst (send_session h sid m)) (target h sid) = Some t' /\ s_conn t' = Some c /\
             s_pending t' = s_pending t.
Proof.
  intros Ht Hc Hn. destruct (seen_after_proj t m) as [Hsc Hsp].
  rewrite send_session_eq, (deliver_to_session_eq h _ m t Ht), Hc.
  destruct (filtered t m) as [mm|] eqn:Hf; cbv beta iota zeta.
  - rewrite (is_closing_never _ c mm (filtered_never_closing t m mm Hf Hn)). cbn [fst snd].
    split; [reflexivity|]. eexists. split; [apply get_put_same|]. split; congruence.
  - cbn [fst snd]. split; [reflexivity|]. eexists. split; [apply get_put_same|]. split; congruence.
Qed.

(* the same for a message that is not a join notice, in the words of the property *)
Corollary send_plain_to_disconnected h sid m t :
  get_sess h (target h sid) = Some t -> s_conn t = None -> (forall l, m <> SJoin l) ->
  snd (send_session h sid m) = [] /\
  exists t', get_sess (fst (send_session h sid m)) (target h sid) = Some t' /\ s_conn t' = None /\
             s_pending t' = enqueue (s_pending t) m.
Proof.
  intros Ht Hc Hm. destruct (send_to_disconnected h sid m t Ht Hc) as [Ho [t' [Ht' [Hc' Hp']]]].
  split; [exact Ho|]. exists t'. split; [exact Ht'|]. split; [exact Hc'|]. rewrite Hp'.
  destruct m; try reflexivity. exfalso. eapply Hm; reflexivity.
Qed.

(* ------------------------------------------------------------------ what closing a session writes *)
(* closing a session (and its virtual sessions) writes to no connection: only the backend and the
   media server are told *)
Lemma fold_acc_split (f : hub -> N -> hub * list out) l : forall hh oo,
  fold_left (fun acc x => let '(hh, oo) := acc in let '(hh', oo') := f hh x in (hh', oo ++ oo')) l (hh, oo) =
  (fst (fold_sessions hh l f), oo ++ snd (fold_sessions hh l f)).
Proof.
  induction l as [|x l IH]; intros hh oo.
  - cbn. now rewrite app_nil_r.
  - rewrite fold_sessions_cons. cbn [fold_left]. destruct (f hh x) as [h1 o1]. rewrite IH.
    destruct (fold_sessions h1 l f) as [h2 o2]. cbn [fst snd]. now rewrite app_assoc.
Qed.

Definition noconn (o : list out) : Prop := forall c m, ~ In (ToConn c m) o.
Lemma noconn_nil : noconn [].
Proof. intros c m []. Qed.
Lemma noconn_app o1 o2 : noconn o1 -> noconn o2 -> noconn (o1 ++ o2).
Proof. intros H1 H2 c m Hin. apply in_app_or in Hin as [Hin|Hin]; [eapply H1|eapply H2]; eauto. Qed.
Lemma noconn_cons x o : (forall c m, x <> ToConn c m) -> noconn o -> noconn (x :: o).
Proof. intros Hx Ho c m [E|Hin]; [eapply Hx; eauto|eapply Ho; eauto]. Qed.
Lemma noconn_map {A} (f : A -> out) l : (forall a c m, f a <> ToConn c m) -> noconn (map f l).
Proof. intros Hf c m Hin. apply in_map_iff in Hin as (a & E & _). eapply Hf; eauto. Qed.

Lemma noconn_close_tokens h toks : noconn (snd (close_tokens h toks)).
Proof. unfold close_tokens. cbn [snd]. apply noconn_map. intros; discriminate. Qed.
Lemma noconn_release_mcu h x : noconn (snd (release_mcu h x)).
Proof. unfold release_mcu. destruct (get_sess h x); [apply noconn_close_tokens|apply noconn_nil]. Qed.
Lemma noconn_revoke h x : noconn (snd (revoke h x)).
Proof. unfold revoke. destruct (get_sess h x); [apply noconn_close_tokens|apply noconn_nil]. Qed.
Lemma noconn_leave_call h x : noconn (snd (leave_call h x)).
Proof.
  unfold leave_call. destruct (get_sess h x) as [s|]; [|apply noconn_nil].
  destruct (s_kind s); destruct (s_room s); try apply noconn_nil; apply noconn_release_mcu.
Qed.
Lemma noconn_leave_room h x n : noconn (snd (leave_room h x n)).
Proof.
  unfold leave_room. destruct (get_sess h x) as [s|]; [|apply noconn_nil].
  destruct (s_room s) as [k|]; [|apply noconn_nil].
  destruct (is_virtual (s_kind s)); [apply noconn_nil|].
  match goal with |- context [release_mcu ?hh x] => pose proof (noconn_release_mcu hh x) as Hr; destruct (release_mcu hh x) as [h3 o2] end.
  cbn [snd] in *. apply noconn_app; [|exact Hr].
  destruct (n && negb (N.eqb (s_rs s) 0)); [apply noconn_cons; [intros; discriminate|apply noconn_nil]|apply noconn_nil].
Qed.
Lemma noconn_close_one h x : noconn (snd (close_one h x)).
Proof.
  unfold close_one. destruct (get_sess h x) as [s|]; [|apply noconn_nil].
  pose proof (noconn_leave_room h x true) as H1. destruct (leave_room h x true) as [h1 o1].
  pose proof (noconn_release_mcu h1 x) as H2. destruct (release_mcu h1 x) as [h2a o2a]. cbn [snd] in *.
  assert (H3 : noconn (o2a ++ map (fun e => ToMcu (MFailed (fst e))) (filter (fun e => N.eqb (mp_owner (snd e)) x) (h_mcupending h2a)))).
  { apply noconn_app; [exact H2|]. apply noconn_map. intros; discriminate. }
  destruct (s_kind s); cbn [snd]; try (apply noconn_app; [exact H1|exact H3]).
  apply noconn_app; [exact H1|]. apply noconn_app; [exact H3|].
  destruct (s_room s); [apply noconn_cons; [intros; discriminate|apply noconn_nil]|apply noconn_nil].
Qed.
Lemma noconn_fold (f : hub -> N -> hub * list out) l : (forall hh x, noconn (snd (f hh x))) ->
  forall h, noconn (snd (fold_sessions h l f)).
Proof.
  intros Hf. induction l as [|x l IH]; intros h; [apply noconn_nil|].
  rewrite fold_sessions_cons. pose proof (Hf h x) as H1. destruct (f h x) as [h1 o1].
  pose proof (IH h1) as H2. destruct (fold_sessions h1 l f) as [h2 o2]. cbn [snd] in *. now apply noconn_app.
Qed.
Lemma close_session_eq h x :
  close_session h x = (fst (fold_sessions (fst (close_one h x)) (children h x) close_one),
                       snd (close_one h x) ++ snd (fold_sessions (fst (close_one h x)) (children h x) close_one)).
Proof. unfold close_session. destruct (close_one h x) as [h1 o1]. cbn [fst snd]. apply fold_acc_split. Qed.
Lemma noconn_close_session h x : noconn (snd (close_session h x)).
Proof. rewrite close_session_eq. cbn [snd]. apply noconn_app; [apply noconn_close_one|apply noconn_fold, noconn_close_one]. Qed.

(* ------------------------------------------------------------------ a queued message that closes the connection *)
(* closing_in, queue_closes_eq, upto_closing_*: proofs/Hub_easy.v *)
Lemma never_closing_in room m : never_closing m = true -> closing_in room m = false.
Proof. destruct m; cbn; congruence. Qed.
Lemma never_closing_queue room l : forallb never_closing l = true -> existsb (closing_in room) l = false.
Proof.
  induction l as [|m l IH]; cbn [forallb existsb]; [reflexivity|]. intros H. apply andb_true_iff in H as [H1 H2].
  rewrite (never_closing_in room m H1), (IH H2). reflexivity.
Qed.

(* ------------------------------------------------------------------ 3. resume delivers the queue once *)
(* The connection of a session is cut, the session has no connection after each of the following
   ops (any ops, any number), then it resumes: the resume answers with the same session id followed
   by exactly the messages that were appended to the queue since the cut, in order, once; the queue
   is empty afterwards and the session is attached to the new connection -- provided nothing that was
   appended closes the connection it is written to (closing_in, for the room the session is in at
   the resume); drop_then_resume_closing below is the complementary case. *)
Theorem drop_then_resume q h0 c0 cn0 sid ops c cn :
  Good h0 -> aget (h_conns h0) c0 = Some cn0 -> c_sess cn0 = Some sid ->
  stays_disc q sid h0 (ODrop c0 :: ops) ->
  let hj := runx q h0 (ODrop c0 :: ops) in
  aget (h_conns hj) c = Some cn -> c_sess cn = None -> throttled hj (c_addr cn) ACT_RESUME = false ->
  (forall s, get_sess hj sid = Some s -> is_virtual (s_kind s) = false) ->
  (forall s, get_sess hj sid = Some s -> existsb (closing_in (s_room s)) (appended q sid h0 (ODrop c0 :: ops)) = false) ->
  exists s, get_sess hj sid = Some s /\ s_conn s = None /\
  let '(h', outs) := step hj (OHello c (HResume (IdPriv sid))) in
  outs = ToConn c (SHello sid (sess_userid hj sid s)) :: map (ToConn c) (appended q sid h0 (ODrop c0 :: ops)) /\
  (exists s', get_sess h' sid = Some s' /\ s_conn s' = Some c /\ s_pending s' = [] /\ s_room s' = s_room s) /\
  nmem sid (h_expired h') = false.
Proof.
  intros [W I] Hc0 Hcs0 Hst hj Hc Hcs Hth Hnv Hncl. subst hj.
  destruct (wf_conns _ _ h0 W c0 cn0 sid Hc0 Hcs0) as [s0 [Hs0 Hcn0]].
  assert (Hp0 : pend h0 sid = []).
  { unfold pend. rewrite Hs0. apply (inv_conn h0 I sid s0 Hs0). congruence. }
  assert (Hlive0 : live h0 sid) by (eexists; exact Hs0).
  pose proof (queue_over_segment q sid (ODrop c0 :: ops) h0 I Hlive0 Hst) as Hq. rewrite Hp0 in Hq. cbn [app] in Hq.
  assert (Hd : disc (runx q h0 (ODrop c0 :: ops)) sid).
  { cbn [stays_disc] in Hst. destruct Hst as [Hd1 Hr]. cbn [runx]. now apply stays_disc_end. }
  destruct Hd as [s [Hs Hcn]]. exists s. split; [exact Hs|]. split; [exact Hcn|].
  unfold pend in Hq. rewrite Hs in Hq.
  assert (Hqc : queue_closes s = false) by (rewrite queue_closes_eq, Hq; exact (Hncl s Hs)).
  pose proof (resume_flushes_queue _ c cn sid s Hc Hcs Hs (Hnv s Hs) Hcn Hth Hqc) as HR.
  destruct (step (runx q h0 (ODrop c0 :: ops)) (OHello c (HResume (IdPriv sid)))) as [h' outs].
  destruct HR as (Ho & Hs' & He). split; [|split; assumption].
  rewrite Ho, Hq. reflexivity.
Qed.

(* the general form: from any state in which the session is live *)
Theorem resume_after_segment q h sid ops c cn :
  Inv h -> live h sid -> ops <> [] -> stays_disc q sid h ops ->
  let hj := runx q h ops in
  aget (h_conns hj) c = Some cn -> c_sess cn = None -> throttled hj (c_addr cn) ACT_RESUME = false ->
  (forall s, get_sess hj sid = Some s -> is_virtual (s_kind s) = false) ->
  (forall s, get_sess hj sid = Some s -> existsb (closing_in (s_room s)) (pend h sid ++ appended q sid h ops) = false) ->
  exists s, get_sess hj sid = Some s /\
  snd (step hj (OHello c (HResume (IdPriv sid)))) =
    ToConn c (SHello sid (sess_userid hj sid s)) :: map (ToConn c) (pend h sid ++ appended q sid h ops) /\
  pend (fst (step hj (OHello c (HResume (IdPriv sid))))) sid = [].
Proof.
  intros I Hl Hne Hst hj Hc Hcs Hth Hnv Hncl. subst hj.
  pose proof (queue_over_segment q sid ops h I Hl Hst) as Hq.
  assert (Hd : disc (runx q h ops) sid).
  { destruct ops as [|o r]; [contradiction|]. cbn [stays_disc] in Hst. destruct Hst as [Hd1 Hr]. cbn [runx]. now apply stays_disc_end. }
  destruct Hd as [s [Hs Hcn]]. exists s. split; [exact Hs|].
  unfold pend at 1 in Hq. rewrite Hs in Hq.
  assert (Hqc : queue_closes s = false) by (rewrite queue_closes_eq, Hq; exact (Hncl s Hs)).
  pose proof (resume_flushes_queue _ c cn sid s Hc Hcs Hs (Hnv s Hs) Hcn Hth Hqc) as HR.
  destruct (step (runx q h ops) (OHello c (HResume (IdPriv sid)))) as [h' outs].
  destruct HR as (Ho & [s' (Hs' & _ & Hp' & _)] & _). cbn [fst snd]. split.
  - rewrite Ho, Hq. reflexivity.
  - unfold pend. rewrite Hs'. exact Hp'.
Qed.

(* ------------------------------------------------------------------ 4. bye and expiry are final, for every continuation *)
(* an id that was handed out and whose session ended stays dead *)
Lemma dead_stepx q h o sid :
  sid <= h_nextsid h -> get_sess h sid = None ->
  get_sess (fst (stepx q h o)) sid = None /\ sid <= h_nextsid (fst (stepx q h o)).
Proof.
  intros Hle Hd. destruct (srel_stepx q sid h o) as [Hn Hb _]. split; [|lia].
  destruct (opt_case (get_sess (fst (stepx q h o)) sid)) as [[s' Hs']|Hn']; [|exact Hn'].
  destruct (Hb Hd s' Hs') as [[Hlt _] _]. lia.
Qed.

Theorem dead_runx q sid ops : forall h,
  sid <= h_nextsid h -> get_sess h sid = None ->
  get_sess (runx q h ops) sid = None /\ sid <= h_nextsid (runx q h ops).
Proof.
  induction ops as [|o r IH]; intros h Hle Hd; cbn [runx]; [auto|].
  destruct (dead_stepx q h o sid Hle Hd) as [Hd1 Hle1]. now apply IH.
Qed.

Lemma nextsid_stepx q h o : h_nextsid h <= h_nextsid (fst (stepx q h o)).
Proof. apply (s_next 0 _ _ (srel_stepx q 0 h o)). Qed.

(* the refusal of the resume id of a session that is gone: no_such_session, unless the address is
   throttled after ten failed resumes (then too_many_requests); nothing is created either way *)
Lemma resume_of_ended_refused_code h c cn n :
  aget h.(h_conns) c = Some cn -> cn.(c_sess) = None -> get_sess h n = None ->
  let '(h', outs) := step h (OHello c (HResume (IdPriv n))) in
  outs = [ToConn c (SError (if throttled h cn.(c_addr) ACT_RESUME then E_too_many_requests else E_no_such_session))] /\
  h_sessions h' = h_sessions h.
Proof.
  intros Hc Hs Hn. cbn [step]. rewrite Hc, Hs. cbn [do_hello].
  change (throttled (set_conns h (aset (h_conns h) c (mkconn (c_addr cn) None (c_expect cn)))) (c_addr cn) ACT_RESUME)
    with (throttled h (c_addr cn) ACT_RESUME).
  destruct (throttled h (c_addr cn) ACT_RESUME); [split; reflexivity|].
  change (get_sess (set_conns h (aset (h_conns h) c (mkconn (c_addr cn) None (c_expect cn)))) n) with (get_sess h n).
  rewrite Hn. split; reflexivity.
Qed.

(* for EVERY continuation: the session is not live, is referenced nowhere (in particular it is a
   member of no room), and a resume with its private id is refused and creates nothing *)
Definition final (q : bool) (h : hub) (sid : N) : Prop :=
  forall ops', let h2 := runx q h ops' in
    get_sess h2 sid = None /\ unreferenced h2 sid /\
    forall c cn, aget (h_conns h2) c = Some cn -> c_sess cn = None ->
      let '(h3, outs) := step h2 (OHello c (HResume (IdPriv sid))) in
      outs = [ToConn c (SError (if throttled h2 cn.(c_addr) ACT_RESUME then E_too_many_requests else E_no_such_session))] /\
      h_sessions h3 = h_sessions h2.

Theorem final_of_dead q h sid : Good h -> sid <= h_nextsid h -> get_sess h sid = None -> final q h sid.
Proof.
  intros G Hle Hd ops'. destruct (dead_runx q sid ops' h Hle Hd) as [Hd2 _].
  destruct (good_runx q ops' h G) as [W2 _]. cbv zeta.
  split; [exact Hd2|]. split; [now apply no_residue|].
  intros c cn Hc Hcs. exact (resume_of_ended_refused_code _ c cn sid Hc Hcs Hd2).
Qed.

(* The statement "the resume id of an ended session is refused with no_such_session" does not hold
   literally: an address that made ten failed resume attempts is throttled and gets
   too_many_requests instead (still refused, nothing created).  Witness: *)
Definition throttle_ops : list op :=
  [OConnect 1 7; OHello 1 (HV1 0 5 false); OBye 1; OConnect 2 9] ++ repeat (OHello 2 (HResume (IdOther 0))) 10.
Lemma resume_refusal_code_refuted :
  let h := run (init [0] false) throttle_ops in
  get_sess h 1 = None /\
  snd (step h (OHello 2 (HResume (IdPriv 1)))) = [ToConn 2 (SError E_too_many_requests)] /\
  snd (step h (OHello 2 (HResume (IdPriv 1)))) <> [ToConn 2 (SError E_no_such_session)].
Proof. vm_compute. split; [reflexivity|split; [reflexivity|discriminate]]. Qed.

Lemma bye_closes h c cn sid :
  aget (h_conns h) c = Some cn -> c_sess cn = Some sid -> get_sess (fst (step h (OBye c))) sid = None.
Proof.
  intros Hc Hcs. cbn [step]. rewrite Hc, Hcs. unfold send_conn. rewrite Hc. cbn [is_closing].
  unfold close_conn. rewrite Hc, Hcs.
  match goal with |- context [close_session ?hh sid] => destruct (close_session hh sid) as [h3 o3] eqn:E end.
  cbn [fst]. rewrite (fst_eq _ _ _ E). apply close_session_gone.
Qed.

Theorem bye_is_final q h c cn sid :
  Good h -> aget (h_conns h) c = Some cn -> c_sess cn = Some sid ->
  final q (fst (stepx q h (OBye c))) sid.
Proof.
  intros G Hc Hcs. pose proof G as [W I]. destruct (wf_conns _ _ h W c cn sid Hc Hcs) as [s [Hs _]].
  assert (Hle : sid <= h_nextsid h) by (apply (inv_ids h I); eexists; exact Hs).
  apply final_of_dead; [now apply good_stepx| |].
  - pose proof (nextsid_stepx q h (OBye c)). lia.
  - apply (rel0_dead sid _ _ (stepx_after_step q sid h (OBye c))). eapply bye_closes; eauto.
Qed.

Lemma fold_close_gone sid l : forall h,
  In sid l -> get_sess (fst (fold_sessions h l close_session)) sid = None.
Proof.
  induction l as [|x l IH]; intros h Hin; [destruct Hin|].
  rewrite fold_sessions_cons. destruct (close_session h x) as [h1 o1] eqn:H1.
  destruct (fold_sessions h1 l close_session) as [h2 o2] eqn:H2. cbn [fst]. rewrite (fst_eq _ _ _ H2).
  destruct (in_dec N.eq_dec sid l) as [Hl|Hnl]; [now apply IH|].
  destruct Hin as [->|Hin]; [|contradiction].
  apply (rel0_dead sid h1); [apply rel0_fold_sessions; intros hh y; apply rel0_close_session|].
  rewrite (fst_eq _ _ _ H1). apply close_session_gone.
Qed.

Lemma tick_closes_expired h sid secs :
  In sid (h_expired h) -> hub_expire_s < secs -> get_sess (fst (step h (OTick secs))) sid = None.
Proof.
  intros Hin Hlt. cbn [step]. unfold do_tick.
  destruct (hub_expire_s <? secs) eqn:E; [|apply N.ltb_ge in E; lia].
  destruct (fold_sessions h (h_expired h) close_session) as [h1 o1] eqn:H1.
  assert (D1 : get_sess h1 sid = None) by (rewrite (fst_eq _ _ _ H1); now apply fold_close_gone).
  match goal with |- context [let '(h2, o2) := ?X in _] => destruct X as [h2 o2] eqn:H2 end.
  assert (R2 : rel0 sid h1 h2).
  { destruct (hub_anonymous_s <? secs); [|injection H2 as <- <-; apply rel0_refl].
    rewrite (fst_eq _ _ _ H2). apply rel0_fold_sessions. intros hh y.
    destruct (get_sess hh y) as [s|]; [|apply rel0_refl].
    match goal with |- context [let '(h3, o3) := ?X in _] => destruct X as [h3 o3] eqn:H3 end.
    assert (R3 : rel0 sid hh h3).
    { destruct (s_conn s); [|injection H3 as <- <-; apply rel0_refl]. rewrite (fst_eq _ _ _ H3). apply rel0_send_conn. }
    destruct (close_session h3 y) as [h4 o4] eqn:H4. cbn [fst]. rewrite (fst_eq _ _ _ H4).
    eapply rel0_trans; [exact R3|apply rel0_close_session]. }
  match goal with |- context [let '(h3, o3) := ?X in _] => destruct X as [h3 o3] eqn:H3 end.
  assert (R3 : rel0 sid h2 h3).
  { destruct (hub_hello_s <? secs); [|injection H3 as <- <-; apply rel0_refl].
    rewrite (fst_eq _ _ _ H3). apply rel0_fold_sessions. intros hh y. apply rel0_send_conn. }
  cbn [fst]. apply (rel0_dead sid h2 h3 R3). apply (rel0_dead sid h1 h2 R2). exact D1.
Qed.

Theorem expiry_is_final q h sid secs :
  Good h -> In sid (h_expired h) -> hub_expire_s < secs ->
  final q (fst (stepx q h (OTick secs))) sid.
Proof.
  intros G Hin Hlt. pose proof G as [W I].
  assert (Hle : sid <= h_nextsid h) by (apply (inv_ids h I); eapply wf_expired; eauto).
  apply final_of_dead; [now apply good_stepx| |].
  - pose proof (nextsid_stepx q h (OTick secs)). lia.
  - apply (rel0_dead sid _ _ (stepx_after_step q sid h (OTick secs))). now apply tick_closes_expired.
Qed.

(* a session whose connection is cut is marked for expiry (so the tick above applies to it unless it resumes) *)
Lemma drop_marks_expired h c cn sid :
  WF h -> aget (h_conns h) c = Some cn -> c_sess cn = Some sid ->
  In sid (h_expired (fst (step h (ODrop c)))) /\ disc (fst (step h (ODrop c))) sid.
Proof.
  intros W Hc Hcs. destruct (wf_conns _ _ h W c cn sid Hc Hcs) as [s [Hs _]].
  cbn [step]. rewrite Hc, Hcs.
  change (get_sess (set_conns h (adel (h_conns h) c)) sid) with (get_sess h sid). rewrite Hs. cbn [fst]. split.
  - cbn [h_expired set_expired]. apply in_nadd_intro. now left.
  - exists (sess_conn s None). split; [|reflexivity].
    change (aget (aset (h_sessions h) sid (sess_conn s None)) sid = Some (sess_conn s None)). apply aget_aset_same.
Qed.

(* ------------------------------------------------------------------ 5. a queued bye / disinvite: the resume delivers the queue, then the session ends *)
(* When the queue holds a message that closes the connection it is written to (a bye, or a disinvite
   from the room the session is in: queue_closes), the resume still answers with the session id and
   writes the queue in order up to and including the first such message (upto_closing; characterised
   by upto_closing_spec in Hub_easy.v: the prefix that ends with the first closing message); what was
   queued after it is not written (the close frame has been sent: seen on the real server in a
   directed run).  Then the connection is closed and the session with it.  Nothing else is written
   to any connection by the resume (the rest tells the backend / the media server), and the session
   is final in the sense of 4. (found by a thorough-tier run: a disinvite queued for a disconnected
   session, then a resume). *)
Lemma resume_closing_queue h c cn n s :
  aget h.(h_conns) c = Some cn -> cn.(c_sess) = None -> get_sess h n = Some s ->
  is_virtual s.(s_kind) = false -> s.(s_conn) = None -> throttled h cn.(c_addr) ACT_RESUME = false ->
  queue_closes s = true ->
  let '(h', outs) := step h (OHello c (HResume (IdPriv n))) in
  (exists rest, outs = ToConn c (SHello n (sess_userid h n s)) :: map (ToConn c) (upto_closing s.(s_room) s.(s_pending)) ++ Closed c :: rest /\ noconn rest) /\
  get_sess h' n = None.
Proof.
  intros Hc Hs Hn Hv Hcn Ht Hq. cbn [step]. rewrite Hc, Hs. cbn [do_hello]. hsimpl.
  assert (Ht' : throttled (set_conns h (aset (h_conns h) c (mkconn (c_addr cn) None (c_expect cn)))) (c_addr cn) ACT_RESUME = false) by exact Ht.
  rewrite Ht'. unfold get_sess in *. hsimpl. rewrite Hn, Hv, Hcn, Hq. hsimpl.
  unfold close_conn. hsimpl. rewrite aget_aset_same. hsimpl.
  match goal with |- context [close_session ?hh n] => pose proof (close_session_gone hh n) as Hg;
    pose proof (noconn_close_session hh n) as Hnc; destruct (close_session hh n) as [h3 o3] end.
  cbn [fst snd] in *. split; [|exact Hg]. exists o3. split; [|exact Hnc]. reflexivity.
Qed.

Theorem resume_closing_is_final q h c cn sid s :
  Good h -> aget (h_conns h) c = Some cn -> c_sess cn = None -> get_sess h sid = Some s ->
  is_virtual (s_kind s) = false -> s_conn s = None -> throttled h (c_addr cn) ACT_RESUME = false ->
  queue_closes s = true ->
  let o := OHello c (HResume (IdPriv sid)) in
  (exists rest, snd (step h o) =
     ToConn c (SHello sid (sess_userid h sid s)) :: map (ToConn c) (upto_closing (s_room s) (s_pending s)) ++ Closed c :: rest /\ noconn rest) /\
  get_sess (fst (step h o)) sid = None /\ unreferenced (fst (step h o)) sid /\
  final q (fst (stepx q h o)) sid.
Proof.
  intros G Hc Hcs Hs Hv Hcn Hth Hq o. pose proof G as [W I].
  pose proof (resume_closing_queue h c cn sid s Hc Hcs Hs Hv Hcn Hth Hq) as HR. fold o in HR.
  destruct (step h o) as [h' outs] eqn:E. destruct HR as [Ho Hg]. cbn [fst snd].
  assert (W' : WF h') by (change h' with (fst (h', outs)); rewrite <- E; now apply wf_step).
  split; [exact Ho|]. split; [exact Hg|]. split; [now apply no_residue|].
  assert (Hle : sid <= h_nextsid h) by (apply (inv_ids h I); eexists; exact Hs).
  apply final_of_dead; [now apply good_stepx| |].
  - pose proof (nextsid_stepx q h o). lia.
  - apply (rel0_dead sid _ _ (stepx_after_step q sid h o)). rewrite E. exact Hg.
Qed.

Theorem drop_then_resume_closing q h0 c0 cn0 sid ops c cn :
  Good h0 -> aget (h_conns h0) c0 = Some cn0 -> c_sess cn0 = Some sid ->
  stays_disc q sid h0 (ODrop c0 :: ops) ->
  let hj := runx q h0 (ODrop c0 :: ops) in
  aget (h_conns hj) c = Some cn -> c_sess cn = None -> throttled hj (c_addr cn) ACT_RESUME = false ->
  (forall s, get_sess hj sid = Some s -> is_virtual (s_kind s) = false) ->
  (forall s, get_sess hj sid = Some s -> existsb (closing_in (s_room s)) (appended q sid h0 (ODrop c0 :: ops)) = true) ->
  let o := OHello c (HResume (IdPriv sid)) in
  exists s, get_sess hj sid = Some s /\ s_conn s = None /\
  (exists rest, snd (step hj o) =
     ToConn c (SHello sid (sess_userid hj sid s)) :: map (ToConn c) (upto_closing (s_room s) (appended q sid h0 (ODrop c0 :: ops))) ++ Closed c :: rest /\
     noconn rest) /\
  get_sess (fst (step hj o)) sid = None /\ unreferenced (fst (step hj o)) sid /\
  final q (fst (stepx q hj o)) sid.
Proof.
  intros G Hc0 Hcs0 Hst hj Hc Hcs Hth Hnv Hcl o. pose proof G as [W I]. subst hj.
  destruct (wf_conns _ _ h0 W c0 cn0 sid Hc0 Hcs0) as [s0 [Hs0 Hcn0]].
  assert (Hp0 : pend h0 sid = []).
  { unfold pend. rewrite Hs0. apply (inv_conn h0 I sid s0 Hs0). congruence. }
  assert (Hlive0 : live h0 sid) by (eexists; exact Hs0).
  pose proof (queue_over_segment q sid (ODrop c0 :: ops) h0 I Hlive0 Hst) as Hq. rewrite Hp0 in Hq. cbn [app] in Hq.
  assert (Hd : disc (runx q h0 (ODrop c0 :: ops)) sid).
  { cbn [stays_disc] in Hst. destruct Hst as [Hd1 Hr]. cbn [runx]. now apply stays_disc_end. }
  destruct Hd as [s [Hs Hcn]]. exists s. split; [exact Hs|]. split; [exact Hcn|].
  unfold pend in Hq. rewrite Hs in Hq.
  assert (Hqc : queue_closes s = true) by (rewrite queue_closes_eq, Hq; exact (Hcl s Hs)).
  rewrite <- Hq.
  exact (resume_closing_is_final q _ c cn sid s (good_runx q _ h0 G) Hc Hcs Hs (Hnv s Hs) Hcn Hth Hqc).
Qed.

Theorem resume_after_segment_closing q h sid ops c cn :
  Good h -> live h sid -> ops <> [] -> stays_disc q sid h ops ->
  let hj := runx q h ops in
  aget (h_conns hj) c = Some cn -> c_sess cn = None -> throttled hj (c_addr cn) ACT_RESUME = false ->
  (forall s, get_sess hj sid = Some s -> is_virtual (s_kind s) = false) ->
  (forall s, get_sess hj sid = Some s -> existsb (closing_in (s_room s)) (pend h sid ++ appended q sid h ops) = true) ->
  let o := OHello c (HResume (IdPriv sid)) in
  exists s, get_sess hj sid = Some s /\
  (exists rest, snd (step hj o) =
     ToConn c (SHello sid (sess_userid hj sid s)) :: map (ToConn c) (upto_closing (s_room s) (pend h sid ++ appended q sid h ops)) ++ Closed c :: rest /\
     noconn rest) /\
  get_sess (fst (step hj o)) sid = None /\ unreferenced (fst (step hj o)) sid /\
  final q (fst (stepx q hj o)) sid.
Proof.
  intros G Hl Hne Hst hj Hc Hcs Hth Hnv Hcl o. pose proof G as [W I]. subst hj.
  pose proof (queue_over_segment q sid ops h I Hl Hst) as Hq.
  assert (Hd : disc (runx q h ops) sid).
  { destruct ops as [|o1 r]; [contradiction|]. cbn [stays_disc] in Hst. destruct Hst as [Hd1 Hr]. cbn [runx]. now apply stays_disc_end. }
  destruct Hd as [s [Hs Hcn]]. exists s. split; [exact Hs|].
  unfold pend at 1 in Hq. rewrite Hs in Hq.
  assert (Hqc : queue_closes s = true) by (rewrite queue_closes_eq, Hq; exact (Hcl s Hs)).
  rewrite <- Hq.
  exact (resume_closing_is_final q _ c cn sid s (good_runx q _ h G) Hc Hcs Hs (Hnv s Hs) Hcn Hth Hqc).
Qed.

(* ------------------------------------------------------------------ the statements for run / qrun *)
Corollary run_queue_over_segment sid ops h :
  Inv h -> live h sid -> stays_disc false sid h ops ->
  pend (run h ops) sid = pend h sid ++ appended false sid h ops.
Proof. rewrite <- runx_run. apply queue_over_segment. Qed.
Corollary qrun_queue_over_segment sid ops h :
  Inv h -> live h sid -> stays_disc true sid h ops ->
  pend (qrun h ops) sid = pend h sid ++ appended true sid h ops.
Proof. rewrite <- runx_qrun. apply queue_over_segment. Qed.

(* ------------------------------------------------------------------ the notice that the room is gone *)
(* Everything send_session is asked to send to a disconnected session is queued (2.) and delivered
   by the resume (3.).  In the code as found one notice was not sent through that path at all when
   the session had no connection: when its room is deleted a connected member is told that it left
   the room (`room` with an empty id), a disconnected member was taken out of the room silently
   (hub.go processRoomDeleted: `if client := sess.GetClient(); client != nil`), so after the resume
   the client still believed it was in the room.  This was found while proving the statements of
   this file (the only place besides deliver_to_session where the model looked at s_conn),
   reproduced on the real server (props/C06 directed case "gone") and repaired ("fix: tell
   disconnected sessions that their room was deleted"): the notice is now queued like every other
   message.  The history below is the former counterexample; on the repaired model the resume
   delivers the notice. *)
Definition del_pre : list op := [OConnect 1 100; OHello 1 (HV1 0 7 false); OJoin 1 5 0 (RepOk None 0)].
Definition del_cut : list op := del_pre ++ [ODrop 1; OApi 0 0 5 ADelete; OConnect 2 101].
Lemma room_deleted_while_disconnected_repaired :
  (* connected: told *)
  snd (qstep (qrun (init [0] false) del_pre) (OApi 0 0 5 ADelete)) = [ToConn 1 (SRoom 0)] /\
  (* disconnected meanwhile: was in the room when cut, the notice is queued, the resume delivers it after the
     hello, and the session is in no room any more *)
  option_map s_room (get_sess (qrun (init [0] false) (del_pre ++ [ODrop 1])) 1) = Some (Some (0, 5)) /\
  pend (qrun (init [0] false) del_cut) 1 = [SRoom 0] /\
  snd (qstep (qrun (init [0] false) del_cut) (OHello 2 (HResume (IdPriv 1)))) = [ToConn 2 (SHello 1 7); ToConn 2 (SRoom 0)] /\
  option_map s_room (get_sess (fst (qstep (qrun (init [0] false) del_cut) (OHello 2 (HResume (IdPriv 1))))) 1) = Some None.
Proof. vm_compute. repeat split. Qed.
