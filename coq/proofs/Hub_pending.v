(* The pending queue of a disconnected session, for every history (C06).

   1. while a session stays live and disconnected its queue only grows at the end;
   2. what send_session appends is what was sent (and a connected session gets it on its
      connection instead, the queue untouched);
   3. a resume delivers the queue once, in order, and empties it; combined with 1:
      "dropped, stayed disconnected, resumed: the resume outputs exactly what was appended";
   4. bye and expiry are final for every continuation: session ids are never handed out twice.

   The model's alphabet contains no chat-refresh notice (is_chat_refresh is constantly false and
   deliver_to_session never merges), so "modulo merge" is plain append here.

   Organisation: one relation between the hub before and after a model function, for a fixed
   session id, reflexive and transitive, proved once per model function (rel0 for the functions
   that create no session, rel for the three that do). *)
From Coq Require Import List NArith Bool Lia.
From Verif Require Import model.Hub proofs.Hub_basics proofs.Hub_wf proofs.Hub_easy proofs.Hub_corollaries.
Import ListNotations.
Open Scope N_scope.

(* ------------------------------------------------------------------ what may happen to one session *)
(* A: same connection, the queue grew at the end, and only if there is no connection *)
Definition sessA (s s' : session) : Prop :=
  s_conn s' = s_conn s /\ exists l, s_pending s' = s_pending s ++ l /\ (s_conn s <> None -> l = []).
(* B: (re)attached to a connection, nothing queued *)
Definition sessB (s' : session) : Prop := s_conn s' <> None /\ s_pending s' = [].

Lemma sessA_same s s' : s_conn s' = s_conn s -> s_pending s' = s_pending s -> sessA s s'.
Proof. intros Hc Hp. split; [exact Hc|]. exists []. split; [now rewrite app_nil_r|reflexivity]. Qed.
Lemma sessA_refl s : sessA s s.
Proof. now apply sessA_same. Qed.
Lemma sessA_trans s1 s2 s3 : sessA s1 s2 -> sessA s2 s3 -> sessA s1 s3.
Proof.
  intros [Hc1 [l1 [Hp1 Hn1]]] [Hc2 [l2 [Hp2 Hn2]]]. split; [congruence|].
  exists (l1 ++ l2). split; [rewrite Hp2, Hp1; now rewrite app_assoc|].
  intros Hne. rewrite (Hn1 Hne). rewrite Hn2; [reflexivity|congruence].
Qed.

(* functions that create no session *)
Record rel0 (sid : N) (h h' : hub) : Prop := {
  r0_next : h_nextsid h' = h_nextsid h;
  r0_core : forall s', get_sess h' sid = Some s' -> exists s, get_sess h sid = Some s /\ sessA s s';
}.

Lemma rel0_refl sid h : rel0 sid h h.
Proof. constructor; [reflexivity|]. intros s' Hs. exists s'. split; [exact Hs|apply sessA_refl]. Qed.
Lemma rel0_trans sid h1 h2 h3 : rel0 sid h1 h2 -> rel0 sid h2 h3 -> rel0 sid h1 h3.
Proof.
  intros [N1 C1] [N2 C2]. constructor; [congruence|]. intros s3 H3.
  destruct (C2 s3 H3) as [s2 [H2 A2]]. destruct (C1 s2 H2) as [s1 [H1 A1]].
  exists s1. split; [exact H1|]. eapply sessA_trans; eauto.
Qed.
Lemma rel0_dead sid h h' : rel0 sid h h' -> get_sess h sid = None -> get_sess h' sid = None.
Proof.
  intros [_ C] Hn. destruct (get_sess h' sid) as [s'|] eqn:Hs; [|reflexivity].
  destruct (C s' eq_refl) as [s [Hs0 _]]. congruence.
Qed.

Lemma rel0_eq sid h h' : h_sessions h' = h_sessions h -> h_nextsid h' = h_nextsid h -> rel0 sid h h'.
Proof.
  intros Hs Hn. constructor; [exact Hn|]. intros s' H. exists s'. split; [|apply sessA_refl].
  unfold get_sess in *. now rewrite <- Hs.
Qed.
Lemma rel0_then_eq sid h h1 h2 :
  rel0 sid h h1 -> h_sessions h2 = h_sessions h1 -> h_nextsid h2 = h_nextsid h1 -> rel0 sid h h2.
Proof. intros R Hs Hn. eapply rel0_trans; [exact R|]. now apply rel0_eq. Qed.

Lemma rel0_aset sid h h' x s s' :
  h_sessions h' = aset (h_sessions h) x s' -> h_nextsid h' = h_nextsid h ->
  get_sess h x = Some s -> sessA s s' -> rel0 sid h h'.
Proof.
  intros Hs Hn Hx HA. constructor; [exact Hn|]. intros t H. unfold get_sess in *. rewrite Hs, aget_aset in H.
  destruct (N.eqb_spec sid x) as [->|Hne].
  - injection H as <-. exists s. auto.
  - exists t. split; [exact H|apply sessA_refl].
Qed.
Lemma rel0_put sid h x s s' : get_sess h x = Some s -> sessA s s' -> rel0 sid h (put_sess h x s').
Proof. intros Hx HA. apply (rel0_aset sid h (put_sess h x s') x s s'); [reflexivity|reflexivity|exact Hx|exact HA]. Qed.
Lemma rel0_aset_other sid h h' x s' :
  h_sessions h' = aset (h_sessions h) x s' -> h_nextsid h' = h_nextsid h -> x <> sid -> rel0 sid h h'.
Proof.
  intros Hs Hn Hne. constructor; [exact Hn|]. intros t H. unfold get_sess in *.
  rewrite Hs, aget_aset_other in H by congruence. exists t. split; [exact H|apply sessA_refl].
Qed.
Lemma rel0_adel sid h h' x :
  h_sessions h' = adel (h_sessions h) x -> h_nextsid h' = h_nextsid h -> rel0 sid h h'.
Proof.
  intros Hs Hn. constructor; [exact Hn|]. intros t H. unfold get_sess in *. rewrite Hs, aget_adel in H.
  destruct (N.eqb sid x); [discriminate|]. exists t. split; [exact H|apply sessA_refl].
Qed.

(* folds *)
Lemma fold_acc_inv (P : hub -> Prop) (f : hub -> N -> hub * list out) l :
  (forall hh x, P hh -> P (fst (f hh x))) -> forall acc, P (fst acc) ->
  P (fst (fold_left (fun acc x => let '(hh, oo) := acc in let '(hh', oo') := f hh x in (hh', oo ++ oo')) l acc)).
Proof.
  intros Hf. induction l as [|x l IH]; intros [hh oo] Hacc; cbn [fold_left]; [exact Hacc|].
  apply IH. destruct (f hh x) as [hh' oo'] eqn:Hfx. cbn [fst] in *. rewrite (fst_eq _ _ _ Hfx). now apply Hf.
Qed.

Lemma rel0_fold_sessions sid h l f :
  (forall hh x, rel0 sid hh (fst (f hh x))) -> rel0 sid h (fst (fold_sessions h l f)).
Proof.
  intros Hf. apply (wf_fold_sessions (fun hh => rel0 sid h hh)); [apply rel0_refl|].
  intros hh x R. eapply rel0_trans; [exact R|apply Hf].
Qed.
Lemma rel0_fold_left_hub {A} sid (f : hub -> A -> hub) l h :
  (forall hh x, rel0 sid hh (f hh x)) -> rel0 sid h (fold_left f l h).
Proof.
  intros Hf. apply (wf_fold_left_hub (fun hh => rel0 sid h hh)); [apply rel0_refl|].
  intros hh x R. eapply rel0_trans; [exact R|apply Hf].
Qed.

(* ------------------------------------------------------------------ projections the relation reads *)
Lemma rs_set_nextsid h sid rs : h_nextsid (rs_set h sid rs) = h_nextsid h.
Proof.
  unfold rs_set. destruct (N.eqb rs 0).
  - destruct (aget (h_rs1 h) sid); reflexivity.
  - destruct (aget (h_rs1 h) sid) as [prev|]; [destruct (N.eqb prev rs)|]; reflexivity.
Qed.
Lemma rel0_rs_set sid h x rs : rel0 sid h (rs_set h x rs).
Proof. apply rel0_eq; [apply rs_set_sessions|apply rs_set_nextsid]. Qed.
Lemma rel0_rs_del sid h x : rel0 sid h (rs_del h x).
Proof. apply rel0_rs_set. Qed.

Lemma room_remove_proj h k x :
  h_sessions (room_remove h k x) = h_sessions h /\ h_nextsid (room_remove h k x) = h_nextsid h.
Proof.
  unfold room_remove. destruct (room_of h k) as [r|]; [|split; reflexivity].
  destruct (nmem x (r_members r)); [|split; reflexivity].
  unfold remove_room_if_empty. rewrite room_of_set_rooms, pget_pset_same. cbn [r_members].
  destruct (nrem x (r_members r)); split; reflexivity.
Qed.
Lemma rel0_room_remove sid h k x : rel0 sid h (room_remove h k x).
Proof. destruct (room_remove_proj h k x). now apply rel0_eq. Qed.

Lemma set_incall_proj h k x on :
  h_sessions (set_incall h k x on) = h_sessions h /\ h_nextsid (set_incall h k x on) = h_nextsid h.
Proof.
  unfold set_incall. destruct (room_of h k) as [r|]; [|split; reflexivity].
  destruct (on && negb (nmem x (r_members r))); split; reflexivity.
Qed.
Lemma rel0_set_incall sid h k x on : rel0 sid h (set_incall h k x on).
Proof. destruct (set_incall_proj h k x on). now apply rel0_eq. Qed.

Lemma drop_vt_nextsid h kd x : h_nextsid (drop_vt h kd x) = h_nextsid h.
Proof.
  unfold drop_vt. destruct kd as [| |p v]; try reflexivity.
  destruct (pget (h_vtable h) (p, v)) as [y|]; [destruct (N.eqb y x)|]; reflexivity.
Qed.
Lemma detach_conn_nextsid h oc : h_nextsid (detach_conn h oc) = h_nextsid h.
Proof. unfold detach_conn. destruct oc as [c0|]; [|reflexivity]. destruct (aget (h_conns h) c0); reflexivity. Qed.

Lemma rel0_publish sid h subj m : rel0 sid h (publish h subj m).
Proof. apply rel0_eq; reflexivity. Qed.

(* ------------------------------------------------------------------ one lemma per model function *)
Lemma rel0_close_tokens sid h toks : rel0 sid h (fst (close_tokens h toks)).
Proof. unfold close_tokens. cbn [fst]. apply rel0_eq; reflexivity. Qed.

Lemma rel0_release_mcu sid h x : rel0 sid h (fst (release_mcu h x)).
Proof.
  unfold release_mcu. destruct (get_sess h x) as [s|] eqn:Hs; [|apply rel0_refl].
  eapply rel0_trans; [|apply rel0_close_tokens]. apply rel0_put with s; [exact Hs|]. now apply sessA_same.
Qed.

Lemma rel0_revoke sid h x : rel0 sid h (fst (revoke h x)).
Proof.
  unfold revoke. destruct (get_sess h x) as [s|] eqn:Hs; [|apply rel0_refl].
  eapply rel0_trans; [|apply rel0_close_tokens]. apply rel0_put with s; [exact Hs|]. now apply sessA_same.
Qed.

Lemma rel0_leave_call sid h x : rel0 sid h (fst (leave_call h x)).
Proof.
  unfold leave_call. destruct (get_sess h x) as [s|]; [|apply rel0_refl].
  destruct (s_kind s); destruct (s_room s); try apply rel0_refl; apply rel0_release_mcu.
Qed.

Lemma rel0_leave_room sid h x notify : rel0 sid h (fst (leave_room h x notify)).
Proof.
  unfold leave_room. destruct (get_sess h x) as [s|] eqn:Hs; [|apply rel0_refl].
  destruct (s_room s) as [k|]; [|apply rel0_refl].
  assert (Hs1 : get_sess (rs_del h x) x = Some s) by (unfold get_sess; now rewrite rs_del_sessions).
  destruct (is_virtual (s_kind s)).
  - cbn [fst]. eapply rel0_trans; [apply (rel0_rs_del sid h x)|].
    eapply rel0_trans; [|apply rel0_room_remove]. apply rel0_put with s; [exact Hs1|]. now apply sessA_same.
  - match goal with |- context [release_mcu ?hh x] => destruct (release_mcu hh x) as [h3 o2] eqn:Hr end. cbn [fst].
    eapply rel0_trans; [apply (rel0_rs_del sid h x)|].
    eapply rel0_trans; [|apply rel0_room_remove].
    eapply rel0_trans; [|rewrite (fst_eq _ _ _ Hr); apply rel0_release_mcu].
    apply rel0_put with s; [exact Hs1|]. now apply sessA_same.
Qed.

Lemma rel0_close_one sid h x : rel0 sid h (fst (close_one h x)).
Proof.
  unfold close_one. destruct (get_sess h x) as [s|] eqn:Hs; [|apply rel0_refl].
  destruct (leave_room h x true) as [h1 o1] eqn:Hl.
  destruct (release_mcu h1 x) as [h2a o2a] eqn:Hr.
  set (h2 := set_mcu h2a (h_mcutok h2a) (filter (fun e => negb (N.eqb (mp_owner (snd e)) x)) (h_mcupending h2a)) (h_mcuopen h2a)).
  assert (R1 : rel0 sid h h1) by (rewrite (fst_eq _ _ _ Hl); apply rel0_leave_room).
  assert (R2a : rel0 sid h1 h2a) by (rewrite (fst_eq _ _ _ Hr); apply rel0_release_mcu).
  assert (R2 : rel0 sid h h2).
  { eapply rel0_trans; [exact R1|]. eapply rel0_then_eq; [exact R2a|reflexivity|reflexivity]. }
  assert (Hfin : rel0 sid h (drop_vt (detach_conn (scrub h2 x) (s_conn s)) (s_kind s) x)).
  { eapply rel0_trans; [exact R2|].
    destruct (drop_vt_other (detach_conn (scrub h2 x) (s_conn s)) (s_kind s) x) as (D1 & _).
    destruct (detach_conn_other (scrub h2 x) (s_conn s)) as (F1 & _).
    apply rel0_adel with x.
    - rewrite D1, F1. reflexivity.
    - rewrite drop_vt_nextsid, detach_conn_nextsid. reflexivity. }
  destruct (s_kind s); cbn [fst]; exact Hfin.
Qed.

Lemma rel0_close_session sid h x : rel0 sid h (fst (close_session h x)).
Proof.
  unfold close_session. destruct (close_one h x) as [h1 o1] eqn:Hc.
  apply (fold_acc_inv (fun hh => rel0 sid h hh) close_one).
  - intros hh k R. eapply rel0_trans; [exact R|apply rel0_close_one].
  - cbn [fst]. rewrite (fst_eq _ _ _ Hc). apply rel0_close_one.
Qed.

Lemma close_session_gone h x : get_sess (fst (close_session h x)) x = None.
Proof.
  unfold close_session. destruct (close_one h x) as [h1 o1] eqn:Hc.
  apply (fold_acc_inv (fun hh => get_sess hh x = None) close_one).
  - intros hh k Hn. apply (rel0_dead x hh); [apply rel0_close_one|exact Hn].
  - cbn [fst]. rewrite (fst_eq _ _ _ Hc). apply close_one_gone.
Qed.

Lemma rel0_close_conn sid h c : rel0 sid h (fst (close_conn h c)).
Proof.
  unfold close_conn. destruct (aget (h_conns h) c) as [cn|]; [|apply rel0_refl].
  destruct (c_sess cn) as [x|]; [|cbn [fst]; apply rel0_eq; reflexivity].
  set (h1 := set_conns h (adel (h_conns h) c)).
  set (h2 := match get_sess h1 x with Some s => put_sess h1 x (sess_conn s None) | None => h1 end).
  destruct (close_session h2 x) as [h3 outs] eqn:Hcl. cbn [fst]. pose proof (fst_eq _ _ _ Hcl) as E3.
  assert (N2 : h_nextsid h2 = h_nextsid h) by (unfold h2; destruct (get_sess h1 x); reflexivity).
  destruct (N.eq_dec x sid) as [->|Hne].
  - constructor.
    + rewrite E3, (r0_next _ _ _ (rel0_close_session sid h2 sid)). exact N2.
    + intros s' Hs'. rewrite E3, close_session_gone in Hs'. discriminate.
  - eapply rel0_trans; [|rewrite E3; apply rel0_close_session].
    unfold h2. destruct (get_sess h1 x) as [s|]; [|apply rel0_eq; reflexivity].
    apply rel0_aset_other with x (sess_conn s None); [reflexivity|reflexivity|exact Hne].
Qed.

Lemma deliver_keeps h x m s :
  get_sess h x = Some s ->
  forall m' s1, (match m with
                 | SJoin l => let '(keep, seen') := filter_seen s.(s_seen) l in
                              (match keep with [] => None | _ => Some (SJoin keep) end, sess_seen s seen')
                 | SLeave l => (Some m, sess_seen s (fold_left (fun acc y => nrem y acc) l s.(s_seen)))
                 | _ => (Some m, s)
                 end) = (m', s1) ->
  s_conn s1 = s_conn s /\ s_pending s1 = s_pending s /\ s_kind s1 = s_kind s.
Proof.
  intros _ m' s1 HX. destruct m; try (injection HX as <- <-; repeat split; reflexivity).
  destruct (filter_seen (s_seen s) l) as [keep seen']. injection HX as <- <-. repeat split; reflexivity.
Qed.

Lemma rel0_deliver_to_session sid h x m : rel0 sid h (fst (deliver_to_session h x m)).
Proof.
  unfold deliver_to_session. destruct (get_sess h x) as [s|] eqn:Hs; [|apply rel0_refl].
  match goal with |- context [let '(m', s1) := ?X in _] => destruct X as [m' s1] eqn:HX end.
  destruct (deliver_keeps h x m s Hs m' s1 HX) as (Hc & Hp & _).
  destruct m' as [mm|]; cbn [fst].
  - destruct (s_conn s1) as [c|] eqn:Hc1; cbn [fst].
    + apply rel0_put with s; [exact Hs|apply sessA_same; congruence].
    + apply rel0_put with s; [exact Hs|]. split; [cbn; congruence|].
      exists [mm]. split; [cbn; now rewrite Hp|]. intros Hne. congruence.
  - apply rel0_put with s; [exact Hs|now apply sessA_same].
Qed.

Lemma rel0_send_session sid h x m : rel0 sid h (fst (send_session h x m)).
Proof.
  unfold send_session.
  match goal with |- context [deliver_to_session h ?t m] => set (target := t) end.
  destruct (deliver_to_session h target m) as [h1 outs] eqn:Hd. pose proof (fst_eq _ _ _ Hd) as E1.
  assert (R1 : rel0 sid h h1) by (rewrite E1; apply rel0_deliver_to_session).
  destruct outs as [|[c mm| | |] [|o2 outs2]]; cbn [fst]; try exact R1.
  destruct (is_closing h1 c mm); [|exact R1].
  destruct (close_conn h1 c) as [h2 outs2] eqn:Hc. cbn [fst]. rewrite (fst_eq _ _ _ Hc).
  eapply rel0_trans; [exact R1|apply rel0_close_conn].
Qed.

Lemma rel0_send_conn sid h c m : rel0 sid h (fst (send_conn h c m)).
Proof.
  unfold send_conn. destruct (aget (h_conns h) c); [|apply rel0_refl].
  destruct (is_closing h c m); [|apply rel0_refl].
  destruct (close_conn h c) as [h2 outs2] eqn:Hc. cbn [fst]. rewrite (fst_eq _ _ _ Hc). apply rel0_close_conn.
Qed.

Lemma rel0_kick sid h rs : rel0 sid h (fst (kick_room_session h rs)).
Proof.
  unfold kick_room_session. destruct (aget (h_rs2 h) rs) as [x|]; [|apply rel0_refl].
  destruct (get_sess h x) as [s'|]; [|cbn [fst]; apply rel0_publish].
  destruct (leave_room h x false) as [h1 o1] eqn:Hl. pose proof (fst_eq _ _ _ Hl) as E1.
  assert (R1 : rel0 sid h h1) by (rewrite E1; apply rel0_leave_room).
  match goal with |- context [let '(h2, outs2) := ?X in _] => destruct X as [h2 o2] eqn:H2 end.
  assert (R2 : rel0 sid h h2).
  { destruct (s_kind s') as [| |p v]; destruct (s_conn s') as [c'|];
      try (injection H2 as <- <-; exact R1); rewrite (fst_eq _ _ _ H2);
      (eapply rel0_trans; [exact R1|apply rel0_send_conn]). }
  destruct (close_session h2 x) as [h3 o3] eqn:H3. cbn [fst]. rewrite (fst_eq _ _ _ H3).
  eapply rel0_trans; [exact R2|apply rel0_close_session].
Qed.
