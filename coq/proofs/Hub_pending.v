(* The pending queue of a disconnected session, for every history (C06).

   1. while a session stays live and disconnected its queue only grows at the end;
   2. what send_session appends is what was sent (and a connected session gets it on its
      connection instead, the queue untouched);
   3. a resume delivers the queue once, in order, and empties it; combined with 1:
      "dropped, stayed disconnected, resumed: the resume outputs exactly what was appended";
   4. bye and expiry are final for every continuation: session ids are never handed out twice.

   The model's alphabet contains no chat-refresh notice (is_chat_refresh is constantly false and
   deliver_to_session never merges), so "modulo merge" is plain append here.

   Organisation: one relation between the hub before and after a model function, for a fixed
   session id, reflexive and transitive, proved once per model function (rel0 for the functions
   that create no session, rel for the three that do). *)
From Coq Require Import List NArith Bool Lia.
From Verif Require Import model.Hub proofs.Hub_basics proofs.Hub_wf proofs.Hub_easy proofs.Hub_corollaries.
Import ListNotations.
Open Scope N_scope.

(* ------------------------------------------------------------------ what may happen to one session *)
(* A: same connection, the queue grew at the end, and only if there is no connection *)
Definition sessA (s s' : session) : Prop :=
  s_conn s' = s_conn s /\ exists l, s_pending s' = s_pending s ++ l /\ (s_conn s <> None -> l = []).
(* B: (re)attached to a connection, nothing queued *)
Definition sessB (s' : session) : Prop := s_conn s' <> None /\ s_pending s' = [].

Lemma sessA_same s s' : s_conn s' = s_conn s -> s_pending s' = s_pending s -> sessA s s'.
Proof. intros Hc Hp. split; [exact Hc|]. exists []. split; [now rewrite app_nil_r|reflexivity]. Qed.
Lemma sessA_refl s : sessA s s.
Proof. now apply sessA_same. Qed.
Lemma sessA_trans s1 s2 s3 : sessA s1 s2 -> sessA s2 s3 -> sessA s1 s3.
Proof.
  intros [Hc1 [l1 [Hp1 Hn1]]] [Hc2 [l2 [Hp2 Hn2]]]. split; [congruence|].
  exists (l1 ++ l2). split; [rewrite Hp2, Hp1; now rewrite app_assoc|].
  intros Hne. rewrite (Hn1 Hne). rewrite Hn2; [reflexivity|congruence].
Qed.

(* functions that create no session *)
Record rel0 (sid : N) (h h' : hub) : Prop := {
  r0_next : h_nextsid h' = h_nextsid h;
  r0_core : forall s', get_sess h' sid = Some s' -> exists s, get_sess h sid = Some s /\ sessA s s';
}.

Lemma rel0_refl sid h : rel0 sid h h.
Proof. constructor; [reflexivity|]. intros s' Hs. exists s'. split; [exact Hs|apply sessA_refl]. Qed.
Lemma rel0_trans sid h1 h2 h3 : rel0 sid h1 h2 -> rel0 sid h2 h3 -> rel0 sid h1 h3.
Proof.
  intros [N1 C1] [N2 C2]. constructor; [congruence|]. intros s3 H3.
  destruct (C2 s3 H3) as [s2 [H2 A2]]. destruct (C1 s2 H2) as [s1 [H1 A1]].
  exists s1. split; [exact H1|]. eapply sessA_trans; eauto.
Qed.
Lemma rel0_dead sid h h' : rel0 sid h h' -> get_sess h sid = None -> get_sess h' sid = None.
Proof.
  intros [_ C] Hn. destruct (get_sess h' sid) as [s'|] eqn:Hs; [|reflexivity].
  destruct (C s' eq_refl) as [s [Hs0 _]]. congruence.
Qed.

Lemma rel0_eq sid h h' : h_sessions h' = h_sessions h -> h_nextsid h' = h_nextsid h -> rel0 sid h h'.
Proof.
  intros Hs Hn. constructor; [exact Hn|]. intros s' H. exists s'. split; [|apply sessA_refl].
  unfold get_sess in *. now rewrite <- Hs.
Qed.
Lemma rel0_then_eq sid h h1 h2 :
  rel0 sid h h1 -> h_sessions h2 = h_sessions h1 -> h_nextsid h2 = h_nextsid h1 -> rel0 sid h h2.
Proof. intros R Hs Hn. eapply rel0_trans; [exact R|]. now apply rel0_eq. Qed.

Lemma rel0_aset sid h h' x s s' :
  h_sessions h' = aset (h_sessions h) x s' -> h_nextsid h' = h_nextsid h ->
  get_sess h x = Some s -> sessA s s' -> rel0 sid h h'.
Proof.
  intros Hs Hn Hx HA. constructor; [exact Hn|]. intros t H. unfold get_sess in *. rewrite Hs, aget_aset in H.
  destruct (N.eqb_spec sid x) as [->|Hne].
  - injection H as <-. exists s. auto.
  - exists t. split; [exact H|apply sessA_refl].
Qed.
Lemma rel0_put sid h x s s' : get_sess h x = Some s -> sessA s s' -> rel0 sid h (put_sess h x s').
Proof. intros Hx HA. apply (rel0_aset sid h (put_sess h x s') x s s'); [reflexivity|reflexivity|exact Hx|exact HA]. Qed.
Lemma rel0_aset_other sid h h' x s' :
  h_sessions h' = aset (h_sessions h) x s' -> h_nextsid h' = h_nextsid h -> x <> sid -> rel0 sid h h'.
Proof.
  intros Hs Hn Hne. constructor; [exact Hn|]. intros t H. unfold get_sess in *.
  rewrite Hs, aget_aset_other in H by congruence. exists t. split; [exact H|apply sessA_refl].
Qed.
Lemma rel0_adel sid h h' x :
  h_sessions h' = adel (h_sessions h) x -> h_nextsid h' = h_nextsid h -> rel0 sid h h'.
Proof.
  intros Hs Hn. constructor; [exact Hn|]. intros t H. unfold get_sess in *. rewrite Hs, aget_adel in H.
  destruct (N.eqb sid x); [discriminate|]. exists t. split; [exact H|apply sessA_refl].
Qed.

(* folds *)
Lemma fold_acc_inv (P : hub -> Prop) (f : hub -> N -> hub * list out) l :
  (forall hh x, P hh -> P (fst (f hh x))) -> forall acc, P (fst acc) ->
  P (fst (fold_left (fun acc x => let '(hh, oo) := acc in let '(hh', oo') := f hh x in (hh', oo ++ oo')) l acc)).
Proof.
  intros Hf. induction l as [|x l IH]; intros [hh oo] Hacc; cbn [fold_left]; [exact Hacc|].
  apply IH. destruct (f hh x) as [hh' oo'] eqn:Hfx. cbn [fst] in *. rewrite (fst_eq _ _ _ Hfx). now apply Hf.
Qed.

Lemma rel0_fold_sessions sid h l f :
  (forall hh x, rel0 sid hh (fst (f hh x))) -> rel0 sid h (fst (fold_sessions h l f)).
Proof.
  intros Hf. apply (wf_fold_sessions (fun hh => rel0 sid h hh)); [apply rel0_refl|].
  intros hh x R. eapply rel0_trans; [exact R|apply Hf].
Qed.
Lemma rel0_fold_left_hub {A} sid (f : hub -> A -> hub) l h :
  (forall hh x, rel0 sid hh (f hh x)) -> rel0 sid h (fold_left f l h).
Proof.
  intros Hf. apply (wf_fold_left_hub (fun hh => rel0 sid h hh)); [apply rel0_refl|].
  intros hh x R. eapply rel0_trans; [exact R|apply Hf].
Qed.

(* ------------------------------------------------------------------ projections the relation reads *)
Lemma rs_set_nextsid h sid rs : h_nextsid (rs_set h sid rs) = h_nextsid h.
Proof.
  unfold rs_set. destruct (N.eqb rs 0).
  - destruct (aget (h_rs1 h) sid); reflexivity.
  - destruct (aget (h_rs1 h) sid) as [prev|]; [destruct (N.eqb prev rs)|]; reflexivity.
Qed.
Lemma rel0_rs_set sid h x rs : rel0 sid h (rs_set h x rs).
Proof. apply rel0_eq; [apply rs_set_sessions|apply rs_set_nextsid]. Qed.
Lemma rel0_rs_del sid h x : rel0 sid h (rs_del h x).
Proof. apply rel0_rs_set. Qed.

Lemma room_remove_proj h k x :
  h_sessions (room_remove h k x) = h_sessions h /\ h_nextsid (room_remove h k x) = h_nextsid h.
Proof.
  unfold room_remove. destruct (room_of h k) as [r|]; [|split; reflexivity].
  destruct (nmem x (r_members r)); [|split; reflexivity].
  unfold remove_room_if_empty. rewrite room_of_set_rooms, pget_pset_same. cbn [r_members].
  destruct (nrem x (r_members r)); split; reflexivity.
Qed.
Lemma rel0_room_remove sid h k x : rel0 sid h (room_remove h k x).
Proof. destruct (room_remove_proj h k x). now apply rel0_eq. Qed.

Lemma set_incall_proj h k x on :
  h_sessions (set_incall h k x on) = h_sessions h /\ h_nextsid (set_incall h k x on) = h_nextsid h.
Proof.
  unfold set_incall. destruct (room_of h k) as [r|]; [|split; reflexivity].
  destruct (on && negb (nmem x (r_members r))); split; reflexivity.
Qed.
Lemma rel0_set_incall sid h k x on : rel0 sid h (set_incall h k x on).
Proof. destruct (set_incall_proj h k x on). now apply rel0_eq. Qed.

Lemma drop_vt_nextsid h kd x : h_nextsid (drop_vt h kd x) = h_nextsid h.
Proof.
  unfold drop_vt. destruct kd as [| |p v]; try reflexivity.
  destruct (pget (h_vtable h) (p, v)) as [y|]; [destruct (N.eqb y x)|]; reflexivity.
Qed.
Lemma detach_conn_nextsid h oc : h_nextsid (detach_conn h oc) = h_nextsid h.
Proof. unfold detach_conn. destruct oc as [c0|]; [|reflexivity]. destruct (aget (h_conns h) c0); reflexivity. Qed.

Lemma rel0_publish sid h subj m : rel0 sid h (publish h subj m).
Proof. apply rel0_eq; reflexivity. Qed.

(* ------------------------------------------------------------------ one lemma per model function *)
Lemma rel0_close_tokens sid h toks : rel0 sid h (fst (close_tokens h toks)).
Proof. unfold close_tokens. cbn [fst]. apply rel0_eq; reflexivity. Qed.

Lemma rel0_release_mcu sid h x : rel0 sid h (fst (release_mcu h x)).
Proof.
  unfold release_mcu. destruct (get_sess h x) as [s|] eqn:Hs; [|apply rel0_refl].
  eapply rel0_trans; [|apply rel0_close_tokens]. apply rel0_put with s; [exact Hs|]. now apply sessA_same.
Qed.

Lemma rel0_revoke sid h x : rel0 sid h (fst (revoke h x)).
Proof.
  unfold revoke. destruct (get_sess h x) as [s|] eqn:Hs; [|apply rel0_refl].
  eapply rel0_trans; [|apply rel0_close_tokens]. apply rel0_put with s; [exact Hs|]. now apply sessA_same.
Qed.

Lemma rel0_leave_call sid h x : rel0 sid h (fst (leave_call h x)).
Proof.
  unfold leave_call. destruct (get_sess h x) as [s|]; [|apply rel0_refl].
  destruct (s_kind s); destruct (s_room s); try apply rel0_refl; apply rel0_release_mcu.
Qed.

Lemma rel0_leave_room sid h x notify : rel0 sid h (fst (leave_room h x notify)).
Proof.
  unfold leave_room. destruct (get_sess h x) as [s|] eqn:Hs; [|apply rel0_refl].
  destruct (s_room s) as [k|]; [|apply rel0_refl].
  assert (Hs1 : get_sess (rs_del h x) x = Some s) by (unfold get_sess; now rewrite rs_del_sessions).
  destruct (is_virtual (s_kind s)).
  - cbn [fst]. eapply rel0_trans; [apply (rel0_rs_del sid h x)|].
    eapply rel0_trans; [|apply rel0_room_remove]. apply rel0_put with s; [exact Hs1|]. now apply sessA_same.
  - match goal with |- context [release_mcu ?hh x] => destruct (release_mcu hh x) as [h3 o2] eqn:Hr end. cbn [fst].
    eapply rel0_trans; [apply (rel0_rs_del sid h x)|].
    eapply rel0_trans; [|apply rel0_room_remove].
    eapply rel0_trans; [|rewrite (fst_eq _ _ _ Hr); apply rel0_release_mcu].
    apply rel0_put with s; [exact Hs1|]. now apply sessA_same.
Qed.

Lemma rel0_close_one sid h x : rel0 sid h (fst (close_one h x)).
Proof.
  unfold close_one. destruct (get_sess h x) as [s|] eqn:Hs; [|apply rel0_refl].
  destruct (leave_room h x true) as [h1 o1] eqn:Hl.
  destruct (release_mcu h1 x) as [h2a o2a] eqn:Hr.
  set (h2 := set_mcu h2a (h_mcutok h2a) (filter (fun e => negb (N.eqb (mp_owner (snd e)) x)) (h_mcupending h2a)) (h_mcuopen h2a)).
  assert (R1 : rel0 sid h h1) by (rewrite (fst_eq _ _ _ Hl); apply rel0_leave_room).
  assert (R2a : rel0 sid h1 h2a) by (rewrite (fst_eq _ _ _ Hr); apply rel0_release_mcu).
  assert (R2 : rel0 sid h h2).
  { eapply rel0_trans; [exact R1|]. eapply rel0_then_eq; [exact R2a|reflexivity|reflexivity]. }
  assert (Hfin : rel0 sid h (drop_vt (detach_conn (scrub h2 x) (s_conn s)) (s_kind s) x)).
  { eapply rel0_trans; [exact R2|].
    destruct (drop_vt_other (detach_conn (scrub h2 x) (s_conn s)) (s_kind s) x) as (D1 & _).
    destruct (detach_conn_other (scrub h2 x) (s_conn s)) as (F1 & _).
    apply rel0_adel with x.
    - rewrite D1, F1. reflexivity.
    - rewrite drop_vt_nextsid, detach_conn_nextsid. reflexivity. }
  destruct (s_kind s); cbn [fst]; exact Hfin.
Qed.

Lemma rel0_close_session sid h x : rel0 sid h (fst (close_session h x)).
Proof.
  unfold close_session. destruct (close_one h x) as [h1 o1] eqn:Hc.
  apply (fold_acc_inv (fun hh => rel0 sid h hh) close_one).
  - intros hh k R. eapply rel0_trans; [exact R|apply rel0_close_one].
  - cbn [fst]. rewrite (fst_eq _ _ _ Hc). apply rel0_close_one.
Qed.

Lemma close_session_gone h x : get_sess (fst (close_session h x)) x = None.
Proof.
  unfold close_session. destruct (close_one h x) as [h1 o1] eqn:Hc.
  apply (fold_acc_inv (fun hh => get_sess hh x = None) close_one).
  - intros hh k Hn. apply (rel0_dead x hh); [apply rel0_close_one|exact Hn].
  - cbn [fst]. rewrite (fst_eq _ _ _ Hc). apply close_one_gone.
Qed.

Lemma rel0_close_conn sid h c : rel0 sid h (fst (close_conn h c)).
Proof.
  unfold close_conn. destruct (aget (h_conns h) c) as [cn|]; [|apply rel0_refl].
  destruct (c_sess cn) as [x|]; [|cbn [fst]; apply rel0_eq; reflexivity].
  set (h1 := set_conns h (adel (h_conns h) c)).
  set (h2 := match get_sess h1 x with Some s => put_sess h1 x (sess_conn s None) | None => h1 end).
  destruct (close_session h2 x) as [h3 outs] eqn:Hcl. cbn [fst]. pose proof (fst_eq _ _ _ Hcl) as E3.
  assert (N2 : h_nextsid h2 = h_nextsid h) by (unfold h2; destruct (get_sess h1 x); reflexivity).
  destruct (N.eq_dec x sid) as [->|Hne].
  - constructor.
    + rewrite E3, (r0_next _ _ _ (rel0_close_session sid h2 sid)). exact N2.
    + intros s' Hs'. rewrite E3, close_session_gone in Hs'. discriminate.
  - eapply rel0_trans; [|rewrite E3; apply rel0_close_session].
    unfold h2. destruct (get_sess h1 x) as [s|]; [|apply rel0_eq; reflexivity].
    apply rel0_aset_other with x (sess_conn s None); [reflexivity|reflexivity|exact Hne].
Qed.

Lemma deliver_keeps h x m s :
  get_sess h x = Some s ->
  forall m' s1, (match m with
                 | SJoin l => let '(keep, seen') := filter_seen s.(s_seen) l in
                              (match keep with [] => None | _ => Some (SJoin keep) end, sess_seen s seen')
                 | SLeave l => (Some m, sess_seen s (fold_left (fun acc y => nrem y acc) l s.(s_seen)))
                 | _ => (Some m, s)
                 end) = (m', s1) ->
  s_conn s1 = s_conn s /\ s_pending s1 = s_pending s /\ s_kind s1 = s_kind s.
Proof.
  intros _ m' s1 HX. destruct m; try (injection HX as <- <-; repeat split; reflexivity).
  destruct (filter_seen (s_seen s) l) as [keep seen']. injection HX as <- <-. repeat split; reflexivity.
Qed.

Lemma rel0_deliver_to_session sid h x m : rel0 sid h (fst (deliver_to_session h x m)).
Proof.
  unfold deliver_to_session. destruct (get_sess h x) as [s|] eqn:Hs; [|apply rel0_refl].
  match goal with |- context [let '(m', s1) := ?X in _] => destruct X as [m' s1] eqn:HX end.
  destruct (deliver_keeps h x m s Hs m' s1 HX) as (Hc & Hp & _).
  destruct m' as [mm|]; cbn [fst].
  - destruct (s_conn s1) as [c|] eqn:Hc1; cbn [fst].
    + apply rel0_put with s; [exact Hs|apply sessA_same; congruence].
    + apply rel0_put with s; [exact Hs|]. split; [cbn; congruence|].
      exists [mm]. split; [cbn; now rewrite Hp|]. intros Hne. congruence.
  - apply rel0_put with s; [exact Hs|now apply sessA_same].
Qed.

Lemma rel0_send_session sid h x m : rel0 sid h (fst (send_session h x m)).
Proof.
  unfold send_session.
  match goal with |- context [deliver_to_session h ?t m] => set (target := t) end.
  destruct (deliver_to_session h target m) as [h1 outs] eqn:Hd. pose proof (fst_eq _ _ _ Hd) as E1.
  assert (R1 : rel0 sid h h1) by (rewrite E1; apply rel0_deliver_to_session).
  destruct outs as [|[c mm| | |] [|o2 outs2]]; cbn [fst]; try exact R1.
  destruct (is_closing h1 c mm); [|exact R1].
  destruct (close_conn h1 c) as [h2 outs2] eqn:Hc. cbn [fst]. rewrite (fst_eq _ _ _ Hc).
  eapply rel0_trans; [exact R1|apply rel0_close_conn].
Qed.

Lemma rel0_send_conn sid h c m : rel0 sid h (fst (send_conn h c m)).
Proof.
  unfold send_conn. destruct (aget (h_conns h) c); [|apply rel0_refl].
  destruct (is_closing h c m); [|apply rel0_refl].
  destruct (close_conn h c) as [h2 outs2] eqn:Hc. cbn [fst]. rewrite (fst_eq _ _ _ Hc). apply rel0_close_conn.
Qed.

Lemma rel0_kick sid h rs : rel0 sid h (fst (kick_room_session h rs)).
Proof.
  unfold kick_room_session. destruct (aget (h_rs2 h) rs) as [x|]; [|apply rel0_refl].
  destruct (get_sess h x) as [s'|]; [|cbn [fst]; apply rel0_publish].
  destruct (leave_room h x false) as [h1 o1] eqn:Hl. pose proof (fst_eq _ _ _ Hl) as E1.
  assert (R1 : rel0 sid h h1) by (rewrite E1; apply rel0_leave_room).
  match goal with |- context [let '(h2, outs2) := ?X in _] => destruct X as [h2 o2] eqn:H2 end.
  assert (R2 : rel0 sid h h2).
  { destruct (s_kind s') as [| |p v]; destruct (s_conn s') as [c'|];
      try (injection H2 as <- <-; exact R1); rewrite (fst_eq _ _ _ H2);
      (eapply rel0_trans; [exact R1|apply rel0_send_conn]). }
  destruct (close_session h2 x) as [h3 o3] eqn:H3. cbn [fst]. rewrite (fst_eq _ _ _ H3).
  eapply rel0_trans; [exact R2|apply rel0_close_session].
Qed.

Lemma rel0_join_room sid h c x k rs perms su : rel0 sid h (fst (join_room h c x k rs perms su)).
Proof.
  unfold join_room.
  destruct (leave_room h x true) as [h1 o1] eqn:Hl. pose proof (fst_eq _ _ _ Hl) as E1.
  assert (R1 : rel0 sid h h1) by (rewrite E1; apply rel0_leave_room).
  destruct (get_sess h1 x) as [s|] eqn:Hs; [|exact R1].
  set (r := match room_of h1 k with Some x0 => x0 | None => empty_room end).
  set (r' := mkroom (nadd x (r_members r)) (r_incall r) (if N.eqb su 0 then r_sessdata r else aset (r_sessdata r) x su) (r_transient r) (r_props r)).
  set (s1 := upd_sess s (Some k) rs (s_conn s) (match perms with Some p => Some p | None => s_perms s end) (s_pending s) [] (h_clock h1)).
  set (h2 := set_clock (put_sess (set_rooms h1 (pset (h_rooms h1) k r')) x s1) (h_clock h1 + 1)).
  assert (R2 : rel0 sid h h2).
  { eapply rel0_trans; [exact R1|].
    apply (rel0_aset sid h1 h2 x s s1); [reflexivity|reflexivity|exact Hs|now apply sessA_same]. }
  set (h3 := if N.eqb rs 0 then h2 else rs_set h2 x rs).
  assert (R3 : rel0 sid h h3).
  { unfold h3. destruct (N.eqb rs 0); [exact R2|]. eapply rel0_trans; [exact R2|apply rel0_rs_set]. }
  set (h4 := set_anonymous h3 (nrem x (h_anonymous h3))).
  set (h5 := match s_kind s with KInternal _ true => set_dialout h4 (nrem x (h_dialout h4)) | _ => h4 end).
  assert (R5 : rel0 sid h h5).
  { eapply rel0_then_eq; [exact R3| |]; unfold h5; destruct (s_kind s) as [|f d|]; try destruct d; reflexivity. }
  destruct (send_session h5 x (SRoom (snd k))) as [h7 o2] eqn:Hsend.
  assert (R7 : rel0 sid h h7).
  { rewrite (fst_eq _ _ _ Hsend). eapply rel0_trans; [exact R5|apply rel0_send_session]. }
  destruct (room_of h7 k); [|exact R7].
  set (h9 := if nmem x (r_members r) then h7 else publish h7 (SubjRoom (fst k) (snd k)) (ARoomEvent (SJoin [(x, if N.eqb (s_user s) 0 then su else s_user s)]))).
  assert (R9 : rel0 sid h h9).
  { unfold h9. destruct (nmem x (r_members r)); [exact R7|]. eapply rel0_trans; [exact R7|apply rel0_publish]. }
  match goal with |- context [let '(h10, outs3) := ?X in _] => destruct X as [h10 o3] eqn:H10 end.
  assert (R10 : rel0 sid h h10).
  { destruct (nmem x (r_members r)); [injection H10 as <- <-; exact R9|].
    destruct (r_transient r); [injection H10 as <- <-; exact R9|].
    rewrite (fst_eq _ _ _ H10). eapply rel0_trans; [exact R9|apply rel0_send_session]. }
  cbn [fst]. eapply rel0_trans; [exact R10|apply rel0_publish].
Qed.

Lemma rel0_do_join sid h c x s rn rs rep :
  get_sess h x = Some s -> rel0 sid h (fst (do_join h c x s rn rs rep)).
Proof.
  intros Hs. unfold do_join. destruct (N.eqb rn 0).
  - destruct (s_room s); [|apply rel0_refl].
    destruct (leave_room h x true) as [h1 o1] eqn:Hl.
    assert (R1 : rel0 sid h h1) by (rewrite (fst_eq _ _ _ Hl); apply rel0_leave_room).
    destruct (send_session h1 x (SRoom 0)) as [h2 o2] eqn:H2.
    assert (R2 : rel0 sid h h2).
    { rewrite (fst_eq _ _ _ H2). eapply rel0_trans; [exact R1|apply rel0_send_session]. }
    cbn [fst]. destruct (N.eqb (s_user s) 0 && negb (is_internal (s_kind s))); [|exact R2].
    eapply rel0_then_eq; [exact R2|reflexivity|reflexivity].
  - set (k := (s_backend s, rn)). set (rsv := if N.eqb rs 0 then 0 else 1000000 + rs).
    destruct (match room_of h k with Some r => nmem x (r_members r) | None => false end).
    + set (newrs := if N.eqb rs 0 then 2000000 + x else rsv).
      set (h1 := if N.eqb (s_rs s) newrs then h else put_sess (rs_set h x newrs) x (sess_rs s newrs)).
      assert (R1 : rel0 sid h h1).
      { unfold h1. destruct (N.eqb (s_rs s) newrs); [apply rel0_refl|].
        eapply rel0_trans; [apply (rel0_rs_set sid h x newrs)|].
        apply rel0_put with s; [unfold get_sess; rewrite rs_set_sessions; exact Hs|now apply sessA_same]. }
      destruct (send_session h1 x (SError E_already_joined)) as [h2 o2] eqn:H2. cbn [fst].
      rewrite (fst_eq _ _ _ H2). eapply rel0_trans; [exact R1|apply rel0_send_session].
    + destruct (is_internal (s_kind s)); [apply rel0_join_room|].
      match goal with |- context [let '(h1, outs1) := ?X in _] => destruct X as [h1 o1] eqn:H1 end.
      assert (R1 : rel0 sid h h1).
      { destruct (N.eqb rs 0 || N.eqb (s_rs s) rsv); [injection H1 as <- <-; apply rel0_refl|].
        rewrite (fst_eq _ _ _ H1). apply rel0_kick. }
      destruct (get_sess h1 x); [|exact R1].
      destruct rep as [perms su|code].
      * destruct (join_room h1 c x k rsv perms su) as [h2 o2] eqn:H2. cbn [fst]. rewrite (fst_eq _ _ _ H2).
        eapply rel0_trans; [exact R1|apply rel0_join_room].
      * destruct (send_session h1 x (SError code)) as [h2 o2] eqn:H2. cbn [fst]. rewrite (fst_eq _ _ _ H2).
        eapply rel0_trans; [exact R1|apply rel0_send_session].
Qed.

Lemma rel0_do_message sid h x s kindn to tag cb : rel0 sid h (fst (do_message h x s kindn to tag cb)).
Proof.
  unfold do_message.
  destruct to as [i|u| |].
  - destruct i as [n|n|k|n]; try (cbn [fst]; apply rel0_publish).
    destruct (get_sess h n) as [t|]; [|cbn [fst]; apply rel0_publish].
    destruct (cb && negb (N.eqb (s_backend t) (s_backend s))); [apply rel0_refl|].
    destruct (N.eqb n x); [apply rel0_refl|].
    destruct (s_kind t); apply rel0_send_session.
  - destruct (N.eqb u 0); [apply rel0_refl|]. destruct (N.eqb u (sess_userid h x s)); [apply rel0_refl|].
    cbn [fst]. apply rel0_publish.
  - destruct (s_room s); [|apply rel0_refl]. cbn [fst]. apply rel0_publish.
  - destruct (s_room s); [|apply rel0_refl]. cbn [fst]. apply rel0_publish.
Qed.

Lemma rel0_recv_event sid h x m sender co re t : rel0 sid h (fst (recv_event h x m sender co re t)).
Proof.
  unfold recv_event. destruct (get_sess h x) as [s|]; [|apply rel0_refl].
  destruct (N.eqb sender x && negb (N.eqb sender 0)); [apply rel0_refl|].
  destruct (co && negb (in_call h x s)); [apply rel0_refl|].
  match goal with |- context [if ?c then _ else _] => destruct c end; [apply rel0_refl|]. apply rel0_send_session.
Qed.

Lemma rel0_delete_member sid hh m : rel0 sid hh (fst (delete_member hh m)).
Proof.
  unfold delete_member. destruct (get_sess hh m) as [s|]; [|apply rel0_refl].
  destruct (leave_room hh m true) as [h2 o1] eqn:Hl.
  assert (R2 : rel0 sid hh h2) by (rewrite (fst_eq _ _ _ Hl); apply rel0_leave_room).
  destruct (is_virtual (s_kind s)); [exact R2|].
  destruct (s_conn s); [|exact R2].
  destruct (send_session h2 m (SRoom 0)) as [h3 o2] eqn:H3. cbn [fst]. rewrite (fst_eq _ _ _ H3).
  eapply rel0_trans; [exact R2|apply rel0_send_session].
Qed.

Lemma rel0_room_request sid h k q : rel0 sid h (fst (room_request h k q)).
Proof.
  unfold room_request. destruct (room_of h k) as [r|]; [|apply rel0_refl].
  destruct q as [|users rs|tag|l|l|ic|tag].
  - (* delete *)
    match goal with |- context [fold_sessions h ?int ?f] => set (internals := int); set (g := f) end.
    destruct (fold_sessions h internals g) as [h0 o0] eqn:H0.
    assert (R0 : rel0 sid h h0).
    { rewrite (fst_eq _ _ _ H0). apply rel0_fold_sessions. intros hh y. apply rel0_send_session. }
    set (h1 := set_rooms h0 (pdel (h_rooms h0) k)).
    destruct (fold_sessions h1 (r_members r) delete_member) as [h9 o9] eqn:H9. cbn [fst].
    rewrite (fst_eq _ _ _ H9). eapply rel0_trans; [exact R0|].
    eapply rel0_trans; [apply (rel0_eq sid h0 h1); reflexivity|].
    apply rel0_fold_sessions. intros hh y. apply rel0_delete_member.
  - apply rel0_refl.
  - destruct (N.eqb (r_props r) (tag + 1)); [apply rel0_refl|]. cbn [fst]. apply rel0_eq; reflexivity.
  - cbn [fst]. apply rel0_publish.
  - (* incall *)
    match goal with |- context [fold_left ?f l (h, [])] => set (g := f) end.
    assert (Hg : rel0 sid h (fst (fold_left g l (h, [])))).
    { assert (G : forall acc, rel0 sid h (fst acc) -> rel0 sid h (fst (fold_left g l acc))).
      { induction l as [|u l IH]; intros acc Hacc; cbn [fold_left]; [exact Hacc|]. apply IH.
        destruct acc as [hh oo]. cbn [fst] in Hacc. unfold g. destruct u as [[i icv] pm].
        destruct i as [n|y|kk|n]; try exact Hacc.
        destruct (get_sess hh y); [|exact Hacc].
        destruct (N.testbit icv 0); [cbn [fst]; eapply rel0_trans; [exact Hacc|apply rel0_set_incall]|].
        destruct (leave_call (set_incall hh k y false) y) as [h2 o2] eqn:H2. cbn [fst].
        rewrite (fst_eq _ _ _ H2). eapply rel0_trans; [exact Hacc|].
        eapply rel0_trans; [apply rel0_set_incall|apply rel0_leave_call]. }
      apply G. apply rel0_refl. }
    destruct (fold_left g l (h, [])) as [h1 outs]. cbn [fst] in *. eapply rel0_trans; [exact Hg|apply rel0_publish].
  - (* incall for everybody *)
    destruct (N.testbit ic 0).
    + match goal with |- context [filter ?f (filter ?g0 (r_members r))] => set (fresh := filter f (filter g0 (r_members r))); set (joiners := filter g0 (r_members r)) end.
      destruct fresh; [apply rel0_refl|].
      eapply rel0_trans; [|apply rel0_fold_sessions; intros hh y; apply rel0_send_session].
      apply rel0_fold_left_hub. intros hh y. apply rel0_set_incall.
    + destruct (r_incall r) eqn:Hic; [apply rel0_refl|].
      set (h1 := set_rooms h (pset (h_rooms h) k (mkroom (r_members r) [] (r_sessdata r) (r_transient r) (r_props r)))).
      assert (R1 : rel0 sid h h1) by (apply rel0_eq; reflexivity).
      match goal with |- context [fold_sessions h1 ?lv leave_call] => destruct (fold_sessions h1 lv leave_call) as [h2 o1] eqn:H2 end.
      assert (R2 : rel0 sid h h2).
      { rewrite (fst_eq _ _ _ H2). eapply rel0_trans; [exact R1|]. apply rel0_fold_sessions. intros hh y. apply rel0_leave_call. }
      match goal with |- context [fold_sessions h2 ?lv ?f] => destruct (fold_sessions h2 lv f) as [h3 o2] eqn:H3 end.
      cbn [fst]. rewrite (fst_eq _ _ _ H3). eapply rel0_trans; [exact R2|].
      apply rel0_fold_sessions. intros hh y. apply rel0_send_session.
  - cbn [fst]. apply rel0_publish.
Qed.

Lemma rel0_deliver_pub sid h p : rel0 sid h (fst (deliver_pub h p)).
Proof.
  unfold deliver_pub.
  destruct (p_subj p) as [b r|b r|b u|x|]; destruct (p_msg p) as [m sender co|m|sj internal|pm| |q]; try apply rel0_refl.
  - apply rel0_fold_sessions. intros hh y. apply rel0_recv_event.
  - apply rel0_fold_sessions. intros hh y. apply rel0_recv_event.
  - (* session joined *)
    destruct (room_of h (b, r)) as [rm|]; [|apply rel0_refl].
    match goal with |- context [match ?o with [] => _ | _ => _ end] => destruct o end; [apply rel0_refl|]. cbn [fst].
    match goal with |- rel0 _ _ (fold_left ?f ?l ?h0) => apply (wf_fold_left_hub (fun hh => rel0 sid h hh) f l h0) end.
    + apply rel0_publish.
    + intros hh y Hhh. destruct (get_sess hh y) as [sx|]; [|exact Hhh].
      destruct (is_virtual (s_kind sx) && negb (N.eqb (s_flags sx) 0)); [|exact Hhh].
      eapply rel0_trans; [exact Hhh|apply rel0_publish].
  - apply rel0_room_request.
  - apply rel0_fold_sessions. intros hh y. apply rel0_recv_event.
  - destruct (get_sess h x) as [s|]; [|apply rel0_refl]. destruct (is_virtual (s_kind s)); [apply rel0_refl|]. apply rel0_recv_event.
  - destruct (get_sess h x) as [s|]; [|apply rel0_refl]. destruct (is_virtual (s_kind s)); [apply rel0_refl|]. apply rel0_recv_event.
  - (* permissions *)
    destruct (get_sess h x) as [s|] eqn:Hs; [|apply rel0_refl]. destruct (is_virtual (s_kind s)); [apply rel0_refl|].
    eapply rel0_trans; [|apply rel0_revoke]. apply rel0_put with s; [exact Hs|now apply sessA_same].
  - (* kick through the bus *)
    destruct (get_sess h x) as [s|]; [|apply rel0_refl]. destruct (is_virtual (s_kind s)); [apply rel0_refl|].
    destruct (leave_room h x false) as [h1 o1] eqn:H1.
    destruct (send_session h1 x (SBye B_room_session_reconnected)) as [h2 o2] eqn:H2.
    destruct (close_session h2 x) as [h3 o3] eqn:H3. cbn [fst].
    assert (R1 : rel0 sid h h1) by (rewrite (fst_eq _ _ _ H1); apply rel0_leave_room).
    assert (R2 : rel0 sid h1 h2) by (rewrite (fst_eq _ _ _ H2); apply rel0_send_session).
    assert (R3 : rel0 sid h2 h3) by (rewrite (fst_eq _ _ _ H3); apply rel0_close_session).
    eapply rel0_trans; [exact R1|]. eapply rel0_trans; [exact R2|exact R3].
Qed.

Lemma rel0_deliver_at sid h pos : rel0 sid h (fst (deliver_at h pos)).
Proof.
  unfold deliver_at. destruct (take_nth pos (h_bus h)) as [[p rest]|]; [|apply rel0_refl].
  eapply rel0_trans; [|apply rel0_deliver_pub]. apply rel0_eq; reflexivity.
Qed.

Lemma rel0_do_api sid h b room q : rel0 sid h (fst (do_api h b room q)).
Proof.
  unfold do_api.
  assert (Hpub : forall hh s m, rel0 sid h hh -> rel0 sid h (publish hh s m)).
  { intros hh s m R. eapply rel0_trans; [exact R|apply rel0_publish]. }
  pose proof (rel0_refl sid h) as R0.
  destruct q as [|users rs|tag|l|l|ic|tag]; cbn [fst]; auto.
  - match goal with |- rel0 _ _ (fold_left ?f ?l ?h0) => apply (wf_fold_left_hub (fun hh => rel0 sid h hh) f l h0) end.
    + match goal with |- rel0 _ _ (fold_left ?f ?l ?h0) => apply (wf_fold_left_hub (fun hh => rel0 sid h hh) f l h0) end; auto.
    + intros hh y Hhh. destruct (aget (h_rs2 hh) (1000000 + y)); auto.
  - match goal with |- context [match ?o with [] => _ | _ => _ end] => destruct o end; cbn [fst]; auto.
    apply Hpub. match goal with |- rel0 _ _ (fold_left ?f ?l ?h0) => apply (wf_fold_left_hub (fun hh => rel0 sid h hh) f l h0) end; auto.
    intros hh [[i icv] pm] Hhh. destruct i; auto. destruct pm; auto.
  - match goal with |- context [match ?o with [] => _ | _ => _ end] => destruct o end; cbn [fst]; auto.
Qed.

Lemma rel0_do_tick sid h secs : rel0 sid h (fst (do_tick h secs)).
Proof.
  unfold do_tick.
  match goal with |- context [let '(h1, o1) := ?X in _] => destruct X as [h1 o1] eqn:H1 end.
  assert (R1 : rel0 sid h h1).
  { destruct (30 <? secs); [|injection H1 as <- <-; apply rel0_refl].
    rewrite (fst_eq _ _ _ H1). apply rel0_fold_sessions. intros hh y. apply rel0_close_session. }
  match goal with |- context [let '(h2, o2) := ?X in _] => destruct X as [h2 o2] eqn:H2 end.
  assert (R2 : rel0 sid h h2).
  { destruct (10 <? secs); [|injection H2 as <- <-; exact R1].
    rewrite (fst_eq _ _ _ H2). eapply rel0_trans; [exact R1|]. apply rel0_fold_sessions. intros hh y.
    destruct (get_sess hh y) as [s|]; [|apply rel0_refl].
    match goal with |- context [let '(h3, o3) := ?X in _] => destruct X as [h3 o3] eqn:H3 end.
    assert (R3 : rel0 sid hh h3).
    { destruct (s_conn s); [|injection H3 as <- <-; apply rel0_refl]. rewrite (fst_eq _ _ _ H3). apply rel0_send_conn. }
    destruct (close_session h3 y) as [h4 o4] eqn:H4. cbn [fst]. rewrite (fst_eq _ _ _ H4).
    eapply rel0_trans; [exact R3|apply rel0_close_session]. }
  match goal with |- context [let '(h3, o3) := ?X in _] => destruct X as [h3 o3] eqn:H3 end.
  cbn [fst]. destruct (2 <? secs); [|injection H3 as <- <-; exact R2].
  rewrite (fst_eq _ _ _ H3). eapply rel0_trans; [exact R2|]. apply rel0_fold_sessions. intros hh y. apply rel0_send_conn.
Qed.

(* media *)
Lemma rel0_finish_create sid h tok p ok : rel0 sid h (fst (finish_create h tok p ok)).
Proof.
  unfold finish_create.
  assert (Hsend : forall hh x m, rel0 sid h hh -> rel0 sid h (fst (send_session hh x m))).
  { intros hh x m E. eapply rel0_trans; [exact E|apply rel0_send_session]. }
  assert (Hcond : forall hh (b : bool) x m, rel0 sid h hh ->
            rel0 sid h (fst (if b then send_session hh x m else (hh, [])))).
  { intros hh b x m E. destruct b; [now apply Hsend|exact E]. }
  pose proof (rel0_refl sid h) as R0.
  destruct ok; cbn [negb].
  2:{ destruct (send_session h (mp_errto p) (SError E_client_not_found)) as [h1 o1] eqn:H1. cbn [fst].
      rewrite (fst_eq _ _ _ H1). now apply Hsend. }
  destruct (get_sess h (mp_owner p)) as [s|] eqn:Hs; [|exact R0].
  destruct (negb (N.eqb (s_rel s) (mp_rel p))).
  { destruct (send_session h (mp_errto p) (SError E_client_not_found)) as [h1 o1] eqn:H1. cbn [fst].
    rewrite (fst_eq _ _ _ H1). now apply Hsend. }
  destruct (N.eqb (mp_kind p) 0 && negb (offer_allowed (s_perms s) (mp_stream p) (N.land (mp_media p) 3))).
  { destruct (send_session h (mp_errto p) (SError E_not_allowed)) as [h1 o1] eqn:H1. cbn [fst].
    rewrite (fst_eq _ _ _ H1). now apply Hsend. }
  destruct (N.eqb (mp_kind p) 0).
  - destruct (aget (s_pubs s) (mp_stream p)).
    + match goal with |- context [let '(h1, o1) := ?X in _] => destruct X as [h1 o1] eqn:H1 end. cbn [fst].
      rewrite (fst_eq _ _ _ H1). now apply Hcond.
    + match goal with |- context [let '(h3, o3) := ?X in _] => destruct X as [h3 o3] eqn:H3 end. cbn [fst].
      rewrite (fst_eq _ _ _ H3). apply Hcond.
      eapply (rel0_aset sid h _ (mp_owner p) s); [reflexivity|reflexivity|exact Hs|now apply sessA_same].
  - destruct (sub_get s (mp_pubof p) (mp_stream p)).
    + match goal with |- context [let '(h1, o1) := ?X in _] => destruct X as [h1 o1] eqn:H1 end. cbn [fst].
      rewrite (fst_eq _ _ _ H1). now apply Hcond.
    + match goal with |- context [let '(h3, o3) := ?X in _] => destruct X as [h3 o3] eqn:H3 end. cbn [fst].
      rewrite (fst_eq _ _ _ H3). apply Hcond.
      eapply (rel0_aset sid h _ (mp_owner p) s); [reflexivity|reflexivity|exact Hs|now apply sessA_same].
Qed.

Lemma rel0_start_create sid h p : rel0 sid h (fst (start_create h p)).
Proof.
  unfold start_create. destruct (h_gated h); [cbn [fst]; apply rel0_eq; reflexivity|].
  match goal with |- context [let '(h1, o1) := ?X in _] => destruct X as [h1 o1] eqn:H1 end. cbn [fst].
  rewrite (fst_eq _ _ _ H1). eapply rel0_trans; [|apply rel0_finish_create]. apply rel0_eq; reflexivity.
Qed.

Lemma rel0_do_mcudone sid h tok ok : rel0 sid h (fst (do_mcudone h tok ok)).
Proof.
  unfold do_mcudone. destruct (aget (h_mcupending h) tok) as [p|]; [|apply rel0_refl].
  eapply rel0_trans; [|apply rel0_finish_create]. apply rel0_eq; reflexivity.
Qed.

Lemma rel0_do_media sid h c x s to mk stream media :
  get_sess h x = Some s -> rel0 sid h (fst (do_media h c x s to mk stream media)).
Proof.
  intros Hs. unfold do_media. destruct to as [i|u| |]; try apply rel0_refl.
  destruct (N.eqb mk 0).
  - destruct (negb (offer_allowed (s_perms s) stream media)); [apply rel0_refl|].
    destruct (aget (s_pubs s) stream); [|apply rel0_start_create].
    eapply rel0_trans; [|apply rel0_send_session]. apply rel0_put with s; [exact Hs|now apply sessA_same].
  - destruct (N.eqb mk 1).
    + match goal with |- context [if ?c then _ else _] => destruct c end; [apply rel0_refl|].
      destruct (negb (same_call h x s _)); [apply rel0_refl|].
      destruct (sub_get s _ stream); [apply rel0_send_session|apply rel0_start_create].
    + destruct (N.eqb mk 2); [|apply rel0_refl].
      match goal with |- context [if ?c then _ else _] => destruct c end.
      * destruct (negb (send_allowed (s_perms s) stream)); [apply rel0_refl|]. destruct (aget (s_pubs s) stream); apply rel0_refl.
      * destruct (sub_get s _ stream); apply rel0_refl.
Qed.

Lemma rel0_drain sid fuel : forall h, rel0 sid h (fst (drain fuel h)).
Proof.
  induction fuel as [|f IH]; intros h; cbn [drain]; [apply rel0_refl|].
  destruct (h_bus h); [apply rel0_refl|].
  destruct (deliver_at h 0) as [h1 o1] eqn:H1. destruct (drain f h1) as [h2 o2] eqn:H2. cbn [fst].
  assert (R1 : rel0 sid h h1) by (rewrite (fst_eq _ _ _ H1); apply rel0_deliver_at).
  eapply rel0_trans; [exact R1|]. rewrite (fst_eq _ _ _ H2). apply IH.
Qed.
