(* Statements of C20 that combine the bus theorems with the subject-key
   theorems, and the witnesses of what the code does not guarantee. *)
From Coq Require Import List Arith NArith Bool String Ascii Lia.
From Verif Require Import model.Bus proofs.Bus_proofs proofs.Bus_more_proofs proofs.BusKey_proofs.
Import ListNotations.
Open Scope string_scope.

(* all targets named by the ops satisfy the side condition of the key construction *)
Definition op_wf (o : op) : bool :=
  match o with
  | Publish t _ | Register t _ | Unregister t _ => wf_target t
  | _ => true
  end.

Theorem nothing_foreign_wf ops j l m :
  forallb op_wf ops = true ->
  In (j, l, m) (dlog (run ops init)) ->
  exists tp tr, In (Publish tp m) ops /\ In (Register tr l) ops /\ same_target tp tr.
Proof.
  intros Hwf Hin. destruct (callback_provenance ops j l m Hin) as (tp & tr & H1 & H2 & H3 & _).
  exists tp, tr. split; [exact H1|]. split; [exact H2|].
  rewrite forallb_forall in Hwf. apply subject_inj; auto.
  - apply (Hwf _ H1).
  - apply (Hwf _ H2).
Qed.

(* without the side condition: a listener of room "r|x" of backend "y" is handed
   a message published to room "r" of backend "x|y" *)
Definition collision_ops : list op :=
  [Register (T KRoom "r|x" (Some "y")) 7%N; RegFinish;
   Publish (T KRoom "r" (Some "x|y")) 1%N; Dispatch; Send 0; Begin 0; Pick 0 7%N; Call 0].

Theorem nothing_foreign_refuted :
  exists ops j l m,
    In (j, l, m) (dlog (run ops init)) /\
    forall tp tr, In (Publish tp m) ops -> In (Register tr l) ops -> ~ same_target tp tr.
Proof.
  exists collision_ops, 0, 7%N, 1%N. split; [vm_compute; auto|].
  intros tp tr Hp Hr.
  assert (tp = T KRoom "r" (Some "x|y")).
  { unfold collision_ops in Hp. cbn in Hp. repeat (destruct Hp as [Hp|Hp]; try discriminate); try contradiction.
    now injection Hp as <-. }
  assert (tr = T KRoom "r|x" (Some "y")).
  { unfold collision_ops in Hr. cbn in Hr. repeat (destruct Hr as [Hr|Hr]; try discriminate); try contradiction.
    now injection Hr as <-. }
  subst. intros (_ & H & _). discriminate.
Qed.

(* A message whose publication returned after the registration had completed
   and before the unregistration began, but which is still on its way when the
   listener is unregistered, is never delivered -- whatever happens afterwards
   (short of registering the listener again). *)
Definition pending_lost_tg : target := T KRoom "r1" (Some "b1").
Definition pending_lost_pre : list op :=
  [Register pending_lost_tg 3%N; RegFinish; Publish pending_lost_tg 1%N; Unregister pending_lost_tg 3%N].

Theorem published_before_unregister_refuted :
  let t := run pending_lost_pre init in
  q t = [(subject_of pending_lost_tg, 1%N)] /\
  forall ops, forallb (noreg 3%N KRoom (subject_of pending_lost_tg)) ops = true ->
              delivered 0 3%N (run ops t) = [].
Proof.
  cbn zeta. split; [vm_compute; reflexivity|]. intros ops Hno.
  assert (HN : NotReg 0 3%N KRoom (subject_of pending_lost_tg) (run pending_lost_pre init)).
  { split; [vm_compute; discriminate|]. eexists. split; [vm_compute; reflexivity|]. cbn. auto. }
  destruct (nothing_after_unregister 0 3%N KRoom _ ops _ HN Hno) as [_ HU].
  assert (HU0 : U 0 3%N (run pending_lost_pre init) = []) by (vm_compute; reflexivity).
  rewrite HU0 in HU. unfold U in HU. apply app_eq_nil in HU. tauto.
Qed.

(* above the threshold: the 65th message for a subscriber that has not taken
   any from its channel is dropped *)
Definition flood (n : nat) : list op :=
  flat_map (fun m => [Publish pending_lost_tg (N.of_nat m); Dispatch; Send 0]) (seq 1 n).

Theorem slow_consumer_drops :
  let t := run (Register pending_lost_tg 3%N :: RegFinish :: flood 66) init in
  drops t = [(0, 65%N); (0, 66%N)] /\
  exists x, nth_error (subs t) 0 = Some x /\ List.length (chan x) = 64.
Proof. cbn zeta. split; [vm_compute; reflexivity|]. eexists. split; vm_compute; reflexivity. Qed.
