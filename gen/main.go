// verifgen: regenerates the table-like fragments of the Coq model from the
// current sources of the repository (run on every check).
//
// usage: verifgen -repo /repo -spec spec.json -out /verif/coq/gen
//
// It prints what the source says; it decides nothing.  Everything it cannot
// find is *omitted* from the output, so that the Coq development (which refers
// to every generated name) stops compiling and the check reports the broken
// obligation instead of silently using a stale value.
package main

import (
	"encoding/json"
	"flag"
	"fmt"
	"go/ast"
	"go/constant"
	"go/parser"
	"go/token"
	"os"
	"path/filepath"
	"sort"
	"strconv"
	"strings"
)

type ConstReq struct {
	Dir  string `json:"dir"`  // directory relative to repo ("." or "proxy")
	Name string `json:"name"` // Go identifier
	As   string `json:"as"`   // Coq identifier (default: Name)
}

type StringListReq struct {
	// A []string{...} composite literal that is an argument of a call to
	// Callee inside function Func of directory Dir.
	Dir    string `json:"dir"`
	Func   string `json:"func"`
	Callee string `json:"callee"`
	As     string `json:"as"`
}

type VarListReq struct {
	// package-level `var X = []T{A, B}` or `[]string{"a"}`: emitted as list of strings
	// (identifiers are resolved as string constants when possible).
	Dir  string `json:"dir"`
	Name string `json:"name"`
	As   string `json:"as"`
}

type StructReq struct {
	Dir  string `json:"dir"`
	Name string `json:"name"`
}

type LockReq struct {
	Dir   string   `json:"dir"`
	Recv  string   `json:"recv"`  // receiver type name (without *)
	Mutex string   `json:"mutex"` // field name of the mutex
	Funcs []string `json:"funcs"` // entry points
	As    string   `json:"as"`
	// optional: field name -> receiver type; a call r.<field>.<M>(...) is inlined as
	// the program of <type>.<M> (interface-typed fields with a known implementation)
	Delegates map[string]string `json:"delegates,omitempty"`
	// optional: names of calls on the receiver (methods or func-valued fields, r.<name>(...))
	// whose position relative to the lock operations matters (e.g. a call that sleeps). When
	// given, a second definition <as>_calls : list (string * list lockev) is emitted in which
	// these calls appear as LCall "<name>" between the LOp entries; <as> itself is unchanged.
	Marks []string `json:"marks,omitempty"`
}

type Spec struct {
	Consts      []ConstReq      `json:"consts"`
	StringLists []StringListReq `json:"string_lists"`
	VarLists    []VarListReq    `json:"var_lists"`
	Structs     []StructReq     `json:"structs"`
	Locks       []LockReq       `json:"locks"`
}

var timeConsts = map[string]int64{
	"Nanosecond": 1, "Microsecond": 1000, "Millisecond": 1000000,
	"Second": 1000000000, "Minute": 60000000000, "Hour": 3600000000000,
}

type pkgInfo struct {
	fset   *token.FileSet
	files  []*ast.File
	consts map[string]*constDecl
	cache  map[string]constant.Value
	busy   map[string]bool
}

type constDecl struct {
	expr ast.Expr
	iota int
}

var pkgs = map[string]*pkgInfo{}

func loadPkg(repo, dir string) (*pkgInfo, error) {
	if p, ok := pkgs[dir]; ok {
		return p, nil
	}
	fset := token.NewFileSet()
	full := filepath.Join(repo, dir)
	ents, err := os.ReadDir(full)
	if err != nil {
		return nil, err
	}
	p := &pkgInfo{fset: fset, consts: map[string]*constDecl{}, cache: map[string]constant.Value{}, busy: map[string]bool{}}
	for _, e := range ents {
		n := e.Name()
		if e.IsDir() || !strings.HasSuffix(n, ".go") || strings.HasSuffix(n, "_test.go") {
			continue
		}
		f, err := parser.ParseFile(fset, filepath.Join(full, n), nil, parser.ParseComments)
		if err != nil {
			return nil, err
		}
		p.files = append(p.files, f)
		for _, d := range f.Decls {
			gd, ok := d.(*ast.GenDecl)
			// package-level variables initialised by a constant expression (hub.go keeps its
			// timeouts in a var block) are read like constants
			if !ok || (gd.Tok != token.CONST && gd.Tok != token.VAR) {
				continue
			}
			var last []ast.Expr
			for i, s := range gd.Specs {
				vs := s.(*ast.ValueSpec)
				vals := vs.Values
				if len(vals) == 0 {
					vals = last
				} else {
					last = vals
				}
				for j, name := range vs.Names {
					if j < len(vals) {
						if _, have := p.consts[name.Name]; have && gd.Tok == token.VAR {
							continue
						}
						p.consts[name.Name] = &constDecl{expr: vals[j], iota: i}
					}
				}
			}
		}
	}
	pkgs[dir] = p
	return p, nil
}

func (p *pkgInfo) evalName(name string) (constant.Value, error) {
	if v, ok := p.cache[name]; ok {
		return v, nil
	}
	d, ok := p.consts[name]
	if !ok {
		return nil, fmt.Errorf("constant %s not found", name)
	}
	if p.busy[name] {
		return nil, fmt.Errorf("cycle at %s", name)
	}
	p.busy[name] = true
	defer delete(p.busy, name)
	v, err := p.eval(d.expr, d.iota)
	if err != nil {
		return nil, err
	}
	p.cache[name] = v
	return v, nil
}

func (p *pkgInfo) eval(e ast.Expr, iota int) (constant.Value, error) {
	switch x := e.(type) {
	case *ast.BasicLit:
		v := constant.MakeFromLiteral(x.Value, x.Kind, 0)
		if v.Kind() == constant.Unknown {
			return nil, fmt.Errorf("bad literal %s", x.Value)
		}
		return v, nil
	case *ast.ParenExpr:
		return p.eval(x.X, iota)
	case *ast.Ident:
		if x.Name == "iota" {
			return constant.MakeInt64(int64(iota)), nil
		}
		if x.Name == "true" {
			return constant.MakeBool(true), nil
		}
		if x.Name == "false" {
			return constant.MakeBool(false), nil
		}
		return p.evalName(x.Name)
	case *ast.SelectorExpr:
		if id, ok := x.X.(*ast.Ident); ok {
			if id.Name == "time" {
				if v, ok := timeConsts[x.Sel.Name]; ok {
					return constant.MakeInt64(v), nil
				}
			}
			if id.Name == "net" && x.Sel.Name == "IPv4len" {
				return constant.MakeInt64(4), nil
			}
			if id.Name == "net" && x.Sel.Name == "IPv6len" {
				return constant.MakeInt64(16), nil
			}
			if id.Name == "http" {
				if v, ok := httpConsts[x.Sel.Name]; ok {
					return constant.MakeInt64(v), nil
				}
			}
		}
		return nil, fmt.Errorf("unsupported selector")
	case *ast.UnaryExpr:
		v, err := p.eval(x.X, iota)
		if err != nil {
			return nil, err
		}
		return constant.UnaryOp(x.Op, v, 0), nil
	case *ast.BinaryExpr:
		a, err := p.eval(x.X, iota)
		if err != nil {
			return nil, err
		}
		b, err := p.eval(x.Y, iota)
		if err != nil {
			return nil, err
		}
		switch x.Op {
		case token.SHL, token.SHR:
			n, ok := constant.Uint64Val(b)
			if !ok {
				return nil, fmt.Errorf("bad shift")
			}
			return constant.Shift(a, x.Op, uint(n)), nil
		case token.QUO:
			if a.Kind() == constant.Int && b.Kind() == constant.Int {
				return constant.BinaryOp(a, token.QUO_ASSIGN, b), nil
			}
		case token.EQL, token.NEQ, token.LSS, token.LEQ, token.GTR, token.GEQ:
			return constant.MakeBool(constant.Compare(a, x.Op, b)), nil
		}
		return constant.BinaryOp(a, x.Op, b), nil
	case *ast.CallExpr:
		// conversions like time.Duration(x), int64(x), Permission("x")
		if len(x.Args) == 1 {
			return p.eval(x.Args[0], iota)
		}
	}
	return nil, fmt.Errorf("unsupported constant expression %T", e)
}

var httpConsts = map[string]int64{
	"StatusOK": 200, "StatusBadRequest": 400, "StatusForbidden": 403, "StatusNotFound": 404,
	"StatusTooManyRequests": 429, "StatusInternalServerError": 500, "StatusRequestEntityTooLarge": 413,
	"StatusUnsupportedMediaType": 415, "StatusBadGateway": 502, "StatusNotImplemented": 501,
}

func coqString(s string) string {
	var b strings.Builder
	b.WriteByte('"')
	for _, c := range []byte(s) {
		if c == '"' {
			b.WriteString(`""`)
		} else {
			b.WriteByte(c)
		}
	}
	b.WriteByte('"')
	return b.String()
}

func coqValue(v constant.Value) (string, string, bool) {
	switch v.Kind() {
	case constant.Int:
		s := v.ExactString()
		if strings.HasPrefix(s, "-") {
			return "(" + s + ")%Z", "Z", true
		}
		return s + "%Z", "Z", true
	case constant.String:
		return coqString(constant.StringVal(v)) + "%string", "string", true
	case constant.Bool:
		if constant.BoolVal(v) {
			return "true", "bool", true
		}
		return "false", "bool", true
	}
	return "", "", false
}

func findFunc(p *pkgInfo, name string) *ast.FuncDecl {
	// name is "Func" or "Recv.Func"
	recv, fn := "", name
	if i := strings.Index(name, "."); i >= 0 {
		recv, fn = name[:i], name[i+1:]
	}
	for _, f := range p.files {
		for _, d := range f.Decls {
			fd, ok := d.(*ast.FuncDecl)
			if !ok || fd.Name.Name != fn {
				continue
			}
			if recv == "" && fd.Recv == nil {
				return fd
			}
			if recv != "" && fd.Recv != nil && len(fd.Recv.List) == 1 && recvName(fd.Recv.List[0].Type) == recv {
				return fd
			}
		}
	}
	return nil
}

// findMethod finds method fn of type recv, also when it is promoted from an
// embedded struct (depth-limited).
func findMethod(p *pkgInfo, recv, fn string, depth int) *ast.FuncDecl {
	if fd := findFunc(p, recv+"."+fn); fd != nil || depth == 0 {
		return fd
	}
	for _, f := range p.files {
		for _, d := range f.Decls {
			gd, ok := d.(*ast.GenDecl)
			if !ok || gd.Tok != token.TYPE {
				continue
			}
			for _, sp := range gd.Specs {
				ts := sp.(*ast.TypeSpec)
				st, ok := ts.Type.(*ast.StructType)
				if !ok || ts.Name.Name != recv {
					continue
				}
				for _, fl := range st.Fields.List {
					if len(fl.Names) == 0 {
						if fd := findMethod(p, recvName(fl.Type), fn, depth-1); fd != nil {
							return fd
						}
					}
				}
			}
		}
	}
	return nil
}

func recvName(e ast.Expr) string {
	switch x := e.(type) {
	case *ast.StarExpr:
		return recvName(x.X)
	case *ast.Ident:
		return x.Name
	case *ast.IndexExpr:
		return recvName(x.X)
	}
	return ""
}

func calleeName(e ast.Expr) string {
	switch x := e.(type) {
	case *ast.Ident:
		return x.Name
	case *ast.SelectorExpr:
		return calleeName(x.X) + "." + x.Sel.Name
	}
	return ""
}

func (p *pkgInfo) stringElems(cl *ast.CompositeLit) ([]string, bool) {
	var out []string
	for _, el := range cl.Elts {
		v, err := p.eval(el, 0)
		if err != nil || v.Kind() != constant.String {
			// jwt.SigningMethodRS256.Alg() style
			if ce, ok := el.(*ast.CallExpr); ok {
				n := calleeName(ce.Fun)
				if strings.HasPrefix(n, "jwt.SigningMethod") && strings.HasSuffix(n, ".Alg") {
					out = append(out, strings.TrimSuffix(strings.TrimPrefix(n, "jwt.SigningMethod"), ".Alg"))
					continue
				}
			}
			if id, ok := el.(*ast.Ident); ok {
				out = append(out, id.Name)
				continue
			}
			return nil, false
		}
		out = append(out, constant.StringVal(v))
	}
	return out, true
}

func coqStringList(l []string) string {
	parts := make([]string, len(l))
	for i, s := range l {
		parts[i] = coqString(s)
	}
	return "[" + strings.Join(parts, "; ") + "]%string"
}

// ---- struct schemas -------------------------------------------------------

func typeString(e ast.Expr) string {
	switch x := e.(type) {
	case *ast.Ident:
		return x.Name
	case *ast.StarExpr:
		return "*" + typeString(x.X)
	case *ast.ArrayType:
		return "[]" + typeString(x.Elt)
	case *ast.MapType:
		return "map[" + typeString(x.Key) + "]" + typeString(x.Value)
	case *ast.SelectorExpr:
		return calleeName(x)
	case *ast.InterfaceType:
		return "interface{}"
	case *ast.StructType:
		return "struct{}"
	case *ast.IndexExpr:
		return typeString(x.X)
	}
	return "?"
}

type fieldInfo struct {
	Go, Json, Type string
	OmitEmpty      bool
}

func structFields(p *pkgInfo, name string) ([]fieldInfo, bool) {
	for _, f := range p.files {
		for _, d := range f.Decls {
			gd, ok := d.(*ast.GenDecl)
			if !ok || gd.Tok != token.TYPE {
				continue
			}
			for _, s := range gd.Specs {
				ts := s.(*ast.TypeSpec)
				if ts.Name.Name != name {
					continue
				}
				st, ok := ts.Type.(*ast.StructType)
				if !ok {
					return nil, false
				}
				var out []fieldInfo
				for _, fl := range st.Fields.List {
					tag := ""
					if fl.Tag != nil {
						t, _ := strconv.Unquote(fl.Tag.Value)
						tag = t
					}
					jname, omit, skip := "", false, false
					if i := strings.Index(tag, `json:"`); i >= 0 {
						rest := tag[i+6:]
						if j := strings.Index(rest, `"`); j >= 0 {
							parts := strings.Split(rest[:j], ",")
							jname = parts[0]
							if jname == "-" {
								skip = true
							}
							for _, o := range parts[1:] {
								if o == "omitempty" {
									omit = true
								}
							}
						}
					}
					if skip {
						continue
					}
					names := fl.Names
					if len(names) == 0 {
						out = append(out, fieldInfo{Go: "<embedded>", Json: jname, Type: typeString(fl.Type), OmitEmpty: omit})
						continue
					}
					for _, n := range names {
						if !n.IsExported() {
							continue
						}
						jn := jname
						if jn == "" {
							jn = n.Name
						}
						out = append(out, fieldInfo{Go: n.Name, Json: jn, Type: typeString(fl.Type), OmitEmpty: omit})
					}
				}
				return out, true
			}
		}
	}
	return nil, false
}

// ---- lock programs --------------------------------------------------------
//
// For an entry point F of receiver type R, the sequence of Lock / RLock /
// Unlock / RUnlock calls on field R.<mutex> along the call path: statements in
// source order, calls to other methods of R on the same receiver inlined
// (depth-limited), `defer x.Unlock()` moved to the end of the function body.
// Branches are flattened in source order (both arms), which over-approximates
// the sequence; the Coq side only needs "is a read lock requested while one is
// already held by the same goroutine".

type lockOp string

var lockDelegates map[string]string // of the LockReq being processed
var lockMarks map[string]bool       // of the LockReq being processed; entries "call:<name>" in the result

func lockProg(p *pkgInfo, recv, mutex, fn string, depth int) ([]string, bool) {
	fd := findMethod(p, recv, fn, 3)
	if fd == nil || fd.Body == nil {
		return nil, false
	}
	rname := ""
	if len(fd.Recv.List[0].Names) > 0 {
		rname = fd.Recv.List[0].Names[0].Name
	}
	var ops []string
	var deferred []string
	var walk func(n ast.Node)
	handleCall := func(ce *ast.CallExpr, isDefer bool) bool {
		sel, ok := ce.Fun.(*ast.SelectorExpr)
		if !ok {
			return false
		}
		// r.mu.Lock()
		if inner, ok := sel.X.(*ast.SelectorExpr); ok {
			if id, ok := inner.X.(*ast.Ident); ok && id.Name == rname && inner.Sel.Name == mutex {
				switch sel.Sel.Name {
				case "Lock", "RLock", "Unlock", "RUnlock":
					if isDefer {
						deferred = append([]string{sel.Sel.Name}, deferred...)
					} else {
						ops = append(ops, sel.Sel.Name)
					}
					return true
				}
			}
		}
		// r.field.Method(...) where field is declared as a delegate
		if inner, ok := sel.X.(*ast.SelectorExpr); ok && depth > 0 && !isDefer {
			if id, ok := inner.X.(*ast.Ident); ok && id.Name == rname {
				if impl, ok := lockDelegates[inner.Sel.Name]; ok {
					if sub, ok := lockProg(p, impl, mutex, sel.Sel.Name, depth-1); ok {
						ops = append(ops, sub...)
					}
				}
			}
		}
		// r.<marked>(...)
		if id, ok := sel.X.(*ast.Ident); ok && id.Name == rname && lockMarks[sel.Sel.Name] {
			if isDefer {
				deferred = append([]string{"call:" + sel.Sel.Name}, deferred...)
			} else {
				ops = append(ops, "call:"+sel.Sel.Name)
			}
			return true
		}
		// r.other(...)
		if id, ok := sel.X.(*ast.Ident); ok && id.Name == rname && depth > 0 && !isDefer {
			if sub, ok := lockProg(p, recv, mutex, sel.Sel.Name, depth-1); ok {
				ops = append(ops, sub...)
			}
		}
		return false
	}
	walk = func(n ast.Node) {
		ast.Inspect(n, func(m ast.Node) bool {
			switch x := m.(type) {
			case *ast.FuncLit:
				return false
			case *ast.GoStmt:
				return false
			case *ast.DeferStmt:
				handleCall(x.Call, true)
				return false
			case *ast.CallExpr:
				// arguments first
				for _, a := range x.Args {
					walk(a)
				}
				handleCall(x, false)
				return false
			}
			return true
		})
	}
	walk(fd.Body)
	ops = append(ops, deferred...)
	return ops, true
}

func main() {
	repo := flag.String("repo", "/repo", "repository root")
	specFile := flag.String("spec", "spec.json", "spec file")
	out := flag.String("out", "", "output directory")
	flag.Parse()

	data, err := os.ReadFile(*specFile)
	if err != nil {
		fmt.Fprintln(os.Stderr, err)
		os.Exit(2)
	}
	var spec Spec
	if err := json.Unmarshal(data, &spec); err != nil {
		fmt.Fprintln(os.Stderr, err)
		os.Exit(2)
	}
	// per-property additions: spec.d/*.json next to the spec file
	more, _ := filepath.Glob(filepath.Join(filepath.Dir(*specFile), "spec.d", "*.json"))
	sort.Strings(more)
	for _, m := range more {
		d, err := os.ReadFile(m)
		if err != nil {
			fmt.Fprintln(os.Stderr, err)
			os.Exit(2)
		}
		var s2 Spec
		if err := json.Unmarshal(d, &s2); err != nil {
			fmt.Fprintln(os.Stderr, m, err)
			os.Exit(2)
		}
		spec.Consts = append(spec.Consts, s2.Consts...)
		spec.StringLists = append(spec.StringLists, s2.StringLists...)
		spec.VarLists = append(spec.VarLists, s2.VarLists...)
		spec.Structs = append(spec.Structs, s2.Structs...)
		spec.Locks = append(spec.Locks, s2.Locks...)
	}

	var b strings.Builder
	b.WriteString("(* GENERATED by /verif/gen from the current sources of the repository. Do not edit. *)\n")
	b.WriteString("From Coq Require Import ZArith String List.\nImport ListNotations.\n\n")
	var missing []string
	for _, c := range spec.Consts {
		p, err := loadPkg(*repo, c.Dir)
		as := c.As
		if as == "" {
			as = c.Name
		}
		if err != nil {
			missing = append(missing, as+": "+err.Error())
			continue
		}
		v, err := p.evalName(c.Name)
		if err != nil {
			missing = append(missing, as+": "+err.Error())
			continue
		}
		s, ty, ok := coqValue(v)
		if !ok {
			missing = append(missing, as+": unsupported kind")
			continue
		}
		fmt.Fprintf(&b, "Definition %s : %s := %s.\n", as, ty, s)
	}
	for _, r := range spec.StringLists {
		p, err := loadPkg(*repo, r.Dir)
		if err != nil {
			missing = append(missing, r.As+": "+err.Error())
			continue
		}
		fd := findFunc(p, r.Func)
		if fd == nil {
			missing = append(missing, r.As+": function not found")
			continue
		}
		var found []string
		ok := false
		ast.Inspect(fd, func(n ast.Node) bool {
			ce, isCall := n.(*ast.CallExpr)
			if !isCall || calleeName(ce.Fun) != r.Callee || ok {
				return true
			}
			for _, a := range ce.Args {
				if cl, isCl := a.(*ast.CompositeLit); isCl {
					if l, good := p.stringElems(cl); good {
						found, ok = l, true
					}
				}
			}
			return true
		})
		if !ok {
			missing = append(missing, r.As+": literal not found")
			continue
		}
		fmt.Fprintf(&b, "Definition %s : list string := %s.\n", r.As, coqStringList(found))
	}
	for _, r := range spec.VarLists {
		p, err := loadPkg(*repo, r.Dir)
		if err != nil {
			missing = append(missing, r.As+": "+err.Error())
			continue
		}
		ok := false
		for _, f := range p.files {
			for _, d := range f.Decls {
				gd, isGen := d.(*ast.GenDecl)
				if !isGen || gd.Tok != token.VAR {
					continue
				}
				for _, s := range gd.Specs {
					vs := s.(*ast.ValueSpec)
					for i, n := range vs.Names {
						if n.Name != r.Name || i >= len(vs.Values) {
							continue
						}
						if cl, isCl := vs.Values[i].(*ast.CompositeLit); isCl {
							if l, good := p.stringElems(cl); good {
								fmt.Fprintf(&b, "Definition %s : list string := %s.\n", r.As, coqStringList(l))
								ok = true
							}
						}
					}
				}
			}
		}
		if !ok {
			missing = append(missing, r.As+": var list not found")
		}
	}
	if len(missing) > 0 {
		sort.Strings(missing)
		b.WriteString("\n(* NOT FOUND in the current sources (dependent proofs will fail to compile):\n")
		for _, m := range missing {
			b.WriteString("   " + m + "\n")
		}
		b.WriteString("*)\n")
	}
	writeIfChanged(filepath.Join(*out, "Params.v"), b.String())

	// Schema.v
	var sb strings.Builder
	sb.WriteString("(* GENERATED by /verif/gen from the current sources of the repository. Do not edit. *)\n")
	sb.WriteString("From Coq Require Import String List.\nImport ListNotations.\nOpen Scope string_scope.\n\n")
	sb.WriteString("(* (Go field, JSON name, Go type, omitempty) *)\nDefinition field := (string * string * string * bool)%type.\n\n")
	seenStruct := map[string]bool{} // several spec.d files may ask for the same struct
	for _, r := range spec.Structs {
		if seenStruct[r.Dir+"|"+r.Name] {
			continue
		}
		seenStruct[r.Dir+"|"+r.Name] = true
		p, err := loadPkg(*repo, r.Dir)
		if err != nil {
			continue
		}
		fs, ok := structFields(p, r.Name)
		if !ok {
			fmt.Fprintf(&sb, "(* struct %s NOT FOUND *)\n", r.Name)
			continue
		}
		fmt.Fprintf(&sb, "Definition schema_%s : list field := [\n", r.Name)
		for i, f := range fs {
			sep := ";"
			if i == len(fs)-1 {
				sep = ""
			}
			fmt.Fprintf(&sb, "  (%s, %s, %s, %v)%s\n", coqString(f.Go), coqString(f.Json), coqString(f.Type), f.OmitEmpty, sep)
		}
		sb.WriteString("].\n\n")
	}
	writeIfChanged(filepath.Join(*out, "Schema.v"), sb.String())

	// LockProgs.v
	var lb strings.Builder
	lb.WriteString("(* GENERATED by /verif/gen from the current sources of the repository. Do not edit. *)\n")
	lb.WriteString("From Coq Require Import String List.\nImport ListNotations.\n\n")
	lb.WriteString("Inductive lockop := Lock | RLock | Unlock | RUnlock.\n")
	lb.WriteString("(* lock operations together with marked calls (LockReq.marks), in source order *)\n")
	lb.WriteString("Inductive lockev := LOp (o : lockop) | LCall (f : string).\n\n")
	for _, r := range spec.Locks {
		p, err := loadPkg(*repo, r.Dir)
		if err != nil {
			continue
		}
		fmt.Fprintf(&lb, "Definition %s : list (string * list lockop) := [\n", r.As)
		var rows, crows []string
		lockDelegates = r.Delegates
		lockMarks = map[string]bool{}
		for _, m := range r.Marks {
			lockMarks[m] = true
		}
		for _, fn := range r.Funcs {
			all, ok := lockProg(p, r.Recv, r.Mutex, fn, 4)
			if !ok {
				continue // omitted: the obligation that names it fails
			}
			var ops, evs []string
			for _, o := range all {
				if strings.HasPrefix(o, "call:") {
					evs = append(evs, "LCall "+coqString(o[5:])+"%string")
				} else {
					ops = append(ops, o)
					evs = append(evs, "LOp "+o)
				}
			}
			rows = append(rows, fmt.Sprintf("  (%s, [%s])", coqString(fn)+"%string", strings.Join(ops, "; ")))
			crows = append(crows, fmt.Sprintf("  (%s, [%s])", coqString(fn)+"%string", strings.Join(evs, "; ")))
		}
		lb.WriteString(strings.Join(rows, ";\n"))
		lb.WriteString("\n].\n\n")
		if len(r.Marks) > 0 {
			fmt.Fprintf(&lb, "Definition %s_calls : list (string * list lockev) := [\n", r.As)
			lb.WriteString(strings.Join(crows, ";\n"))
			lb.WriteString("\n].\n\n")
		}
	}
	lockMarks = nil
	writeIfChanged(filepath.Join(*out, "LockProgs.v"), lb.String())
}

func writeIfChanged(path, content string) {
	old, err := os.ReadFile(path)
	if err == nil && string(old) == content {
		return
	}
	if err := os.WriteFile(path, []byte(content), 0o644); err != nil {
		fmt.Fprintln(os.Stderr, err)
		os.Exit(2)
	}
}
